//! mc-sched — C13 (and the cross-thread half of C06): all interleavings, up to a preemption bound, of real adlt
//! stage functions connected by real bounded channels, under shuttle's controlled scheduler
//! (built with --cfg adlt_verif_sched so that adlt's channel / sleep operations are shuttle's).
#![allow(clippy::type_complexity)]
#[path = "../../mc/src/core/mod.rs"]
mod core;
#[path = "../../mc/src/lcgen.rs"]
mod lcgen;

use crate::core::*;
use adlt::dlt::DltMessage;
use adlt::filter::Filter;
use adlt::lifecycle::{parse_lifecycles_buffered_from_stream, LifecycleId};
use adlt::plugins::{anonymize::AnonymizePlugin, plugin::Plugin, plugins_process_msgs};
use adlt::utils::{buffer_sort_messages, sync_sender_send_delay_if_full, VERIF_FULL_BRANCH_TAKEN};
use lcgen::{alphabet, gen_stream, Sym};
use serde_json::{json, Value};
use shuttle::scheduler::{Schedule, Scheduler, Task, TaskId};
use shuttle::sync::mpsc::{channel, sync_channel, Receiver, SyncSender};
use std::collections::BTreeMap;
use std::sync::atomic::Ordering;
use std::sync::{Arc, Mutex};

#[global_allocator]
static GLOBAL: crate::core::alloc::CachingAlloc = crate::core::alloc::CachingAlloc;

// ------------------------------------------------------------------ preemption-bounded DFS scheduler
#[derive(Default)]
struct Shared {
    /// choices of the current execution (index into the canonical order at each scheduling point)
    choices: Vec<usize>,
    max_depth: usize,
    diverged: bool,
}
struct PbDfs {
    /// true: every non-default choice costs 1 (delay bounding); false: only switching away from a runnable task costs 1 (preemption bounding)
    delay: bool,
    bound: usize,
    started: bool,
    stack: Vec<(usize, usize)>,
    step: usize,
    preempt: usize,
    /// replay mode: follow exactly these choices, then default (0)
    fixed: Option<Vec<usize>>,
    done_fixed: bool,
    shared: Arc<Mutex<Shared>>,
}
impl PbDfs {
    fn new(delay: bool, bound: usize, shared: Arc<Mutex<Shared>>) -> Self {
        PbDfs { delay, bound, started: false, stack: vec![], step: 0, preempt: 0, fixed: None, done_fixed: false, shared }
    }
    fn replay(choices: Vec<usize>, shared: Arc<Mutex<Shared>>) -> Self {
        PbDfs { delay: false, bound: usize::MAX, started: false, stack: vec![], step: 0, preempt: 0, fixed: Some(choices), done_fixed: false, shared }
    }
}
impl Scheduler for PbDfs {
    fn new_execution(&mut self) -> Option<Schedule> {
        if self.fixed.is_some() {
            if self.done_fixed {
                return None;
            }
            self.done_fixed = true;
        } else if self.started {
            while matches!(self.stack.last(), Some(&(c, n)) if c + 1 >= n) {
                self.stack.pop();
            }
            match self.stack.last_mut() {
                None => return None,
                Some(l) => l.0 += 1,
            }
        }
        self.started = true;
        self.step = 0;
        self.preempt = 0;
        let mut sh = self.shared.lock().unwrap();
        sh.choices.clear();
        Some(Schedule::new(0))
    }
    fn next_task(&mut self, runnable: &[&Task], current: Option<TaskId>, _is_yielding: bool) -> Option<TaskId> {
        let cur_ok = current.map_or(false, |c| runnable.iter().any(|t| t.id() == c));
        // canonical order: the running task first (if still runnable), then ascending ids
        let mut order: Vec<TaskId> = Vec::with_capacity(runnable.len());
        if cur_ok {
            order.push(current.unwrap());
        }
        let mut rest: Vec<TaskId> = runnable.iter().map(|t| t.id()).filter(|id| Some(*id) != current || !cur_ok).collect();
        rest.sort_by_key(|t| usize::from(*t));
        order.extend(rest);
        let c = if let Some(fx) = &self.fixed {
            let c = fx.get(self.step).copied().unwrap_or(0);
            if c >= order.len() {
                self.shared.lock().unwrap().diverged = true;
                0
            } else {
                c
            }
        } else {
            let allowed = if (cur_ok || self.delay) && self.preempt >= self.bound { 1 } else { order.len() };
            if self.step == self.stack.len() {
                self.stack.push((0, allowed));
            }
            let (c, n) = self.stack[self.step];
            if !(c < allowed && n == allowed) {
                // replaying a prefix must see the same choice points: anything else is uncontrolled nondeterminism
                self.shared.lock().unwrap().diverged = true;
                return None;
            }
            c
        };
        if (cur_ok || self.delay) && c > 0 {
            self.preempt += 1;
        }
        self.step += 1;
        let mut sh = self.shared.lock().unwrap();
        sh.choices.push(c);
        if self.step > sh.max_depth {
            sh.max_depth = self.step;
        }
        Some(order[c])
    }
    fn next_u64(&mut self) -> u64 {
        0
    }
}

// ------------------------------------------------------------------ harness
#[derive(Clone, Copy, Debug, PartialEq, Eq)]
enum Shape {
    LcOnly,
    LcPlugins,
    LcSort,
    LcFilter,
    LcSortFilter,
    LcPluginsSortFilter,
}
const SHAPES: [Shape; 6] = [Shape::LcOnly, Shape::LcPlugins, Shape::LcSort, Shape::LcFilter, Shape::LcSortFilter, Shape::LcPluginsSortFilter];

#[derive(Clone, Copy, Debug, PartialEq, Eq)]
enum Consumer {
    Drain,
    DropAfter(usize),
}

#[derive(Clone, Debug)]
struct Config {
    shape: Shape,
    cap: usize,
    consumer: Consumer,
    stream: usize,
}
impl Config {
    fn json(&self) -> Value {
        json!({"shape": format!("{:?}", self.shape), "cap": self.cap, "consumer": match self.consumer { Consumer::Drain => json!("drain"), Consumer::DropAfter(k) => json!({"drop_after": k}) }, "stream": self.stream})
    }
    fn from_json(v: &Value) -> Config {
        let shape = *SHAPES.iter().find(|s| format!("{s:?}") == v["shape"].as_str().unwrap()).expect("shape");
        let consumer = if v["consumer"] == "drain" { Consumer::Drain } else { Consumer::DropAfter(v["consumer"]["drop_after"].as_u64().unwrap() as usize) };
        Config { shape, cap: v["cap"].as_u64().unwrap() as usize, consumer, stream: v["stream"].as_u64().unwrap() as usize }
    }
}

fn streams() -> Vec<Vec<Sym>> {
    let a = alphabet(48);
    let by = |names: &[&str]| -> Vec<Sym> { names.iter().map(|n| *a.iter().find(|s| &s.name() == n).unwrap_or_else(|| panic!("symbol {n}"))).collect() };
    vec![
        // everything buffered until the end of the stream (flush path)
        by(&["A+2000ms:Cont", "B+2000ms:Cont", "A+2000ms:Cont"]),
        // A confirmed mid-stream (+65 s), messages released while the stream still runs, new lifecycle for A
        by(&["A+2000ms:Cont", "A+65000ms:Cont", "B+2000ms:Cont", "A+2000ms:New"]),
        // merge of a buffered lifecycle + out-of-order timestamps (sort has work to do)
        by(&["A+2000ms:Cont", "A+2000ms:Ts0", "A+2000ms:Late3", "B+65000ms:New"]),
        // (C06 only) a lifecycle confirmed by the timestamp-span rule and then merged into its predecessor
        by(&["A+2000ms:Cont", "B+65000ms:New", "A+2000ms:Ts0", "A+2000ms:Late3", "A+2000ms:Cont"]),
        // (C06 only) suspend/resume
        by(&["A+2000ms:Cont", "A+12000ms:Suspend", "A+65000ms:Cont", "B+2000ms:Cont"]),
        // (C06 only) slightly overlapping lifecycle confirmed before its still buffered predecessor, then merged
        by(&["A+2000ms:Cont", "A+2000ms:Overlap", "B+59600ms:Cont", "A+2000ms:Early3", "A+2000ms:Cont"]),
        // (C06 only) the newer lifecycle is confirmed by its timestamp span while the older one is still buffered,
        // then the stream ends (only the final flush publishes the older one)
        by(&["A+2000ms:Cont", "A+2000ms:Overlap", "A+65000ms:Cont"]),
        // (C06 only) found by the sequential explorer: timestamps 0 then an invalid (max) timestamp: a newer lifecycle
        // gets confirmed while an older one is still buffered when the stream ends
        by(&["A+65000ms:Suspend", "A+2000ms:Cont", "A+2000ms:Cont", "A+2000ms:Cont", "A+2000ms:TsMax", "A+2000ms:Cont"]),
        // (C13 + C06) a confirmed lifecycle keeps receiving messages after its publication while another ECU's
        // lifecycle is still buffered when the stream ends: the end of the stream publishes twice (buffered
        // lifecycles, then the changed ones) with the flush of the buffered messages in between
        by(&["A+2000ms:Cont", "A+65000ms:Cont", "A+2000ms:Cont", "B+2000ms:Cont", "A+2000ms:Cont"]),
        // (C13 + C06) the lifecycles of two ECUs are confirmed by one and the same periodic check (two publications
        // with deliveries in between); both role assignments, the check visits the ECUs in table order
        // (the ECU confirmed second logs nothing afterwards: nothing but that publication announces its lifecycle)
        by(&["A+2000ms:Cont", "B+2000ms:Cont", "A+65000ms:Cont"]),
        by(&["B+2000ms:Cont", "A+2000ms:Cont", "B+65000ms:Cont"]),
    ]
}
const C13_STREAM_IDS: [usize; 11] = [0, 1, 2, 8, 9, 10, 4, 6, 7, 3, 5];

#[derive(Clone, Debug, PartialEq, Eq, Default)]
struct Outcome {
    /// delivered messages (lifecycle canonicalised) in delivery order
    delivered: Vec<(u32, u32, [u8; 4])>, // (index, canonical lc, ecu)
    /// canonical final table: (canonical id, ecu, nr_msgs, start)
    table: Vec<(u32, [u8; 4], u32, u64)>,
    /// C06 cross-thread: deliveries for which the consumer thread's lookup failed or named another ECU
    unpublished: Vec<u32>,
    /// for drop mode: all stage threads joined
    joined: bool,
    /// drain mode: lifecycles of the final table for which a consumer that follows the table incrementally
    /// (takes an entry when its lcs_w_refresh_idx is newer than the newest one it has seen, as the remote server
    /// does before every receive) ends with other values than the table holds
    stale_incremental: Vec<String>,
}

type Lw = evmap::WriteHandle<LifecycleId, adlt::lifecycle::LifecycleItem, (), nohash_hasher::BuildNoHashHasher<LifecycleId>>;

/// one execution of the pipeline inside the shuttle runtime. `bounded`=false builds the reference
/// (unbounded channels, stages run one after the other in the calling task).
fn pipeline(cfg: &Config, msgs: &[DltMessage], bounded: bool) -> Outcome {
    let (lcs_r, lcs_w) = evmap::Options::default()
        .with_hasher(nohash_hasher::BuildNoHashHasher::<LifecycleId>::default())
        .construct::<LifecycleId, adlt::lifecycle::LifecycleItem>();
    let filters: Vec<Filter> = vec![Filter::from_json(r#"{"type":1,"ecu":"ECUB"}"#).expect("filter json")];
    let n_stage = match cfg.shape {
        Shape::LcOnly => 0,
        Shape::LcPlugins | Shape::LcSort | Shape::LcFilter => 1,
        Shape::LcSortFilter => 2,
        Shape::LcPluginsSortFilter => 3,
    };
    let stages: Vec<&str> = match cfg.shape {
        Shape::LcOnly => vec![],
        Shape::LcPlugins => vec!["plugins"],
        Shape::LcSort => vec!["sort"],
        Shape::LcFilter => vec!["filter"],
        Shape::LcSortFilter => vec!["sort", "filter"],
        Shape::LcPluginsSortFilter => vec!["plugins", "sort", "filter"],
    };
    debug_assert_eq!(stages.len(), n_stage);

    let delivered: Arc<Mutex<Vec<(DltMessage, bool)>>> = Arc::new(Mutex::new(vec![]));

    if !bounded {
        // sequential reference over unbounded channels
        let (tx, mut rx) = channel::<DltMessage>();
        for m in msgs {
            tx.send(m.clone()).unwrap();
        }
        drop(tx);
        let (tx1, rx1) = channel();
        let lw = parse_lifecycles_buffered_from_stream(lcs_w, rx, &|m| tx1.send(m));
        drop(tx1);
        rx = rx1;
        for st in &stages {
            let (txn, rxn) = channel();
            match *st {
                "plugins" => {
                    let plugins: Vec<Box<dyn Plugin + Send>> = vec![Box::new(AnonymizePlugin::new("anon"))];
                    let _ = plugins_process_msgs(rx, &|m| txn.send(m), plugins);
                }
                "sort" => {
                    let _ = buffer_sort_messages(rx, &|m| txn.send(m), &lcs_r, 3, 2_000_000);
                }
                _ => {
                    let _ = adlt::filter::functions::filter_as_streams(&filters, &rx, &|m| txn.send(m));
                }
            }
            drop(txn);
            rx = rxn;
        }
        for m in rx {
            let ok = lcs_r.get_one(&m.lifecycle).is_some();
            delivered.lock().unwrap().push((m, ok));
        }
        // the incremental protocol as a one-shot: a consumer that polls once after everything was published
        let mut view: BTreeMap<LifecycleId, (u32, u64, u32)> = BTreeMap::new();
        if let Some(rd) = lcs_r.read() {
            for (id, b) in &rd {
                if let Some(l) = b.get_one() {
                    if l.lcs_w_refresh_idx > 0 {
                        view.insert(*id, (l.nr_msgs, l.start_time, l.lcs_w_refresh_idx));
                    }
                }
            }
        }
        return finish_outcome(&delivered, &lcs_r, lw, true, Some(view));
    }

    // bounded, threaded pipeline: every edge a sync_channel(cap) sent through the real helper
    let cap = cfg.cap;
    let (tx0, rx0): (SyncSender<DltMessage>, Receiver<DltMessage>) = sync_channel(cap);
    let msgs_p: Vec<DltMessage> = msgs.to_vec();
    let producer = shuttle::thread::spawn(move || {
        for m in msgs_p {
            if sync_sender_send_delay_if_full(m, &tx0).is_err() {
                break;
            }
        }
    });
    let (tx1, mut rx): (SyncSender<DltMessage>, Receiver<DltMessage>) = sync_channel(cap);
    let lc_thread = shuttle::thread::spawn(move || parse_lifecycles_buffered_from_stream(lcs_w, rx0, &|m| sync_sender_send_delay_if_full(m, &tx1)));
    let mut stage_threads = vec![];
    for st in &stages {
        let (txn, rxn): (SyncSender<DltMessage>, Receiver<DltMessage>) = sync_channel(cap);
        let rx_in = rx;
        rx = rxn;
        match *st {
            "plugins" => stage_threads.push(shuttle::thread::spawn(move || {
                let plugins: Vec<Box<dyn Plugin + Send>> = vec![Box::new(AnonymizePlugin::new("anon"))];
                let _ = plugins_process_msgs(rx_in, &|m| sync_sender_send_delay_if_full(m, &txn), plugins);
            })),
            "sort" => {
                let lr = lcs_r.clone();
                stage_threads.push(shuttle::thread::spawn(move || {
                    let _ = buffer_sort_messages(rx_in, &|m| sync_sender_send_delay_if_full(m, &txn), &lr, 3, 2_000_000);
                }))
            }
            _ => {
                let f = filters.clone();
                stage_threads.push(shuttle::thread::spawn(move || {
                    let _ = adlt::filter::functions::filter_as_streams(&f, &rx_in, &|m| sync_sender_send_delay_if_full(m, &txn));
                }))
            }
        }
    }
    let lr = lcs_r.clone();
    let del = delivered.clone();
    let consumer_mode = cfg.consumer;
    // the anonymisation plugin replaces the ECU id by a pseudonym: only presence can be checked behind it
    let ecu_rewritten = stages.contains(&"plugins");
    let consumer = shuttle::thread::spawn(move || {
        let mut n = 0usize;
        if let Consumer::DropAfter(0) = consumer_mode {
            drop(rx);
            return None;
        }
        // incremental view of the lifecycle table (the protocol of remote.rs: entries with a refresh index newer than the newest seen)
        let mut last_seen_idx = 0u32;
        let mut view: BTreeMap<LifecycleId, (u32, u64, u32)> = BTreeMap::new();
        let mut poll = |view: &mut BTreeMap<LifecycleId, (u32, u64, u32)>| {
            if let Some(rd) = lr.read() {
                let mut newest = last_seen_idx;
                for (id, b) in &rd {
                    if let Some(l) = b.get_one() {
                        if l.lcs_w_refresh_idx > last_seen_idx {
                            newest = newest.max(l.lcs_w_refresh_idx);
                            view.insert(*id, (l.nr_msgs, l.start_time, l.lcs_w_refresh_idx));
                        }
                    }
                }
                last_seen_idx = newest;
            }
        };
        loop {
            poll(&mut view);
            let m = match rx.recv() {
                Ok(m) => m,
                Err(_) => break,
            };
            // C06 (reader in another thread): the lifecycle must be visible, with the message's ECU, right now.
            // The read guard is dropped before the next scheduling point.
            let ok = lr.get_one(&m.lifecycle).map(|l| ecu_rewritten || l.ecu == m.ecu).unwrap_or(false);
            del.lock().unwrap().push((m, ok));
            n += 1;
            if let Consumer::DropAfter(k) = consumer_mode {
                if n >= k {
                    return None;
                }
            }
        }
        // the channel is disconnected: every stage has finished, the table is final
        poll(&mut view);
        Some(view)
        // rx dropped here
    });
    // every thread must terminate (shuttle reports "deadlock" if a join can never return)
    producer.join().unwrap();
    let lw = lc_thread.join().unwrap();
    for t in stage_threads {
        t.join().unwrap();
    }
    let view = consumer.join().unwrap();
    finish_outcome(&delivered, &lcs_r, lw, true, view)
}

fn finish_outcome(delivered: &Arc<Mutex<Vec<(DltMessage, bool)>>>, lcs_r: &evmap::ReadHandle<LifecycleId, adlt::lifecycle::LifecycleItem, (), nohash_hasher::BuildNoHashHasher<LifecycleId>>, lw: Lw, joined: bool, view: Option<BTreeMap<LifecycleId, (u32, u64, u32)>>) -> Outcome {
    let del = delivered.lock().unwrap();
    // canonical ids by first appearance in *index* order (schedule independent even for sorted pipelines)
    let mut by_index: Vec<&(DltMessage, bool)> = del.iter().collect();
    by_index.sort_by_key(|(m, _)| m.index);
    let mut canon: BTreeMap<LifecycleId, u32> = BTreeMap::new();
    let mut table_src: Vec<(LifecycleId, [u8; 4], u32, u64)> = vec![];
    if let Some(rd) = lcs_r.read() {
        for (id, b) in &rd {
            if let Some(l) = b.get_one() {
                table_src.push((*id, *l.ecu.as_buf(), l.nr_msgs, l.start_time));
            }
        }
    }
    let mut stale_incremental = vec![];
    if let (Some(view), Some(rd)) = (view, lcs_r.read()) {
        for (id, b) in &rd {
            if let Some(l) = b.get_one() {
                match view.get(id) {
                    Some((n, st, _)) if *n == l.nr_msgs && *st == l.start_time => {}
                    other => stale_incremental.push(format!("lifecycle of {:?} with {} msgs (refresh idx {}): incremental view has {:?}", l.ecu, l.nr_msgs, l.lcs_w_refresh_idx, other)),
                }
            }
        }
        stale_incremental.sort();
    }
    table_src.sort();
    // ids are allocated in creation order; canonicalise by ascending raw id (creation order is schedule independent
    // because the lifecycle stage is a single thread consuming a FIFO)
    for (id, ..) in &table_src {
        let k = canon.len() as u32 + 1;
        canon.entry(*id).or_insert(k);
    }
    for (m, _) in by_index {
        let k = canon.len() as u32 + 1;
        canon.entry(m.lifecycle).or_insert(k);
    }
    let out = Outcome {
        delivered: del.iter().map(|(m, _)| (m.index, canon[&m.lifecycle], *m.ecu.as_buf())).collect(),
        table: table_src.iter().map(|(id, e, n, s)| (canon[id], *e, *n, *s)).collect(),
        unpublished: del.iter().filter(|(_, ok)| !ok).map(|(m, _)| m.index).collect(),
        joined,
        stale_incremental,
    };
    drop(lw);
    out
}

fn shuttle_config() -> shuttle::Config {
    let mut c = shuttle::Config::new();
    c.stack_size = 1 << 20;
    c.failure_persistence = shuttle::FailurePersistence::None;
    c.silence_warnings = true;
    c
}

/// compute the sequential reference inside a (single-execution) shuttle runtime
fn reference(cfg: &Config, msgs: &[DltMessage]) -> Outcome {
    let shared = Arc::new(Mutex::new(Shared::default()));
    let out: Arc<Mutex<Option<Outcome>>> = Arc::new(Mutex::new(None));
    let (o2, c2, m2) = (out.clone(), cfg.clone(), msgs.to_vec());
    shuttle::Runner::new(PbDfs::replay(vec![], shared), shuttle_config()).run(move || {
        let o = pipeline(&c2, &m2, false);
        *o2.lock().unwrap() = Some(o);
    });
    let o = out.lock().unwrap().take().expect("reference outcome");
    o
}

struct ExecCheck {
    /// judge only the cross-thread publication clause (C06)
    only_c06: bool,
    cfg: Config,
    reference: Outcome,
    sorted: bool,
    filtered: bool,
}
impl ExecCheck {
    /// compare one execution's outcome with the reference; returns (clause, detail) on violation
    fn judge(&self, o: &Outcome) -> Option<(&'static str, String)> {
        if !o.unpublished.is_empty() {
            return Some(("c06_not_published_at_delivery(cross-thread)", format!("messages {:?} delivered to the consumer thread before their lifecycle was visible", o.unpublished)));
        }
        if self.only_c06 {
            return None;
        }
        match self.cfg.consumer {
            Consumer::Drain => {
                if self.sorted {
                    let mut a = o.delivered.clone();
                    let mut b = self.reference.delivered.clone();
                    a.sort();
                    b.sort();
                    if a != b {
                        return Some(("sorted_not_permutation", format!("delivered multiset {:?} != reference {:?}", a, b)));
                    }
                } else if o.delivered != self.reference.delivered {
                    return Some(("sequence_differs", format!("delivered {:?} != reference {:?}", o.delivered, self.reference.delivered)));
                }
                // judged only if the protocol works at all on the sequential reference (a tree that does not maintain
                // refresh indices does not promise it)
                if self.reference.stale_incremental.is_empty() && !o.stale_incremental.is_empty() {
                    return Some(("incremental_table_stale", format!("a consumer following the table by refresh index ends with stale entries: {:?}", o.stale_incremental)));
                }
                if o.table != self.reference.table {
                    return Some(("table_differs", format!("final lifecycle table {:?} != reference {:?}", o.table, self.reference.table)));
                }
                None
            }
            Consumer::DropAfter(k) => {
                // all threads joined (otherwise shuttle would have reported a deadlock); what was delivered must be a
                // prefix of the reference (unsorted) / a sub-multiset (sorted)
                let kk = k.min(self.reference.delivered.len());
                if !self.sorted && !self.filtered && o.delivered.len() == kk && o.delivered[..] != self.reference.delivered[..kk] {
                    return Some(("prefix_differs", format!("delivered {:?} is not the reference prefix {:?}", o.delivered, &self.reference.delivered[..kk])));
                }
                None
            }
        }
    }
}

fn explore_config(ctx: &mut Ctx, cfg: &Config, plans: &[(bool, usize)], exec_cap: u64, only_c06: bool) {
    let all_streams = streams();
    let syms = &all_streams[cfg.stream];
    let msgs = gen_stream(syms, 20_000);
    let reference = reference(cfg, &msgs);
    let sorted = matches!(cfg.shape, Shape::LcSort | Shape::LcSortFilter | Shape::LcPluginsSortFilter);
    let filtered = matches!(cfg.shape, Shape::LcFilter | Shape::LcSortFilter | Shape::LcPluginsSortFilter);
    let chk = Arc::new(ExecCheck { only_c06, cfg: cfg.clone(), reference, sorted, filtered });
    for &(delay, bound) in plans {
        let bname = if delay { "delay_bound" } else { "preemption_bound" };
        ctx.begin_family("interleavings", &format!("{} {bname}={bound}", cfg.json()));
        let shared = Arc::new(Mutex::new(Shared::default()));
        let viol: Arc<Mutex<Option<(&'static str, String, Vec<usize>)>>> = Arc::new(Mutex::new(None));
        let outcomes: Arc<Mutex<std::collections::BTreeSet<u64>>> = Arc::new(Mutex::new(Default::default()));
        let execs = Arc::new(std::sync::atomic::AtomicU64::new(0));
        let steps = Arc::new(std::sync::atomic::AtomicU64::new(0));
        let (sh2, v2, o2, e2, s2, c2, m2, chk2) = (shared.clone(), viol.clone(), outcomes.clone(), execs.clone(), steps.clone(), cfg.clone(), msgs.clone(), chk.clone());
        let full_before = VERIF_FULL_BRANCH_TAKEN.load(Ordering::Relaxed);
        let mut scfg = shuttle_config();
        scfg.max_time = Some(std::time::Duration::from_secs(ctx.tier.pick(20, 600)));
        let run = catch(move || {
            shuttle::Runner::new(PbDfs::new(delay, bound, sh2.clone()), scfg).run(move || {
                if v2.lock().unwrap().is_some() || e2.load(Ordering::Relaxed) >= exec_cap {
                    return; // first violation recorded / cap reached: let the remaining schedules drain quickly
                }
                let o = pipeline(&c2, &m2, true);
                e2.fetch_add(1, Ordering::Relaxed);
                let choices = sh2.lock().unwrap().choices.clone();
                s2.fetch_add(choices.len() as u64, Ordering::Relaxed);
                o2.lock().unwrap().insert(fnv_str(&format!("{:?}", o)));
                if let Some((clause, detail)) = chk2.judge(&o) {
                    *v2.lock().unwrap() = Some((clause, detail, choices));
                }
            })
        });
        let n = execs.load(Ordering::Relaxed);
        let full = VERIF_FULL_BRANCH_TAKEN.load(Ordering::Relaxed) - full_before;
        let sh = shared.lock().unwrap();
        let cj = |choices: &Vec<usize>| json!({"config": cfg.json(), "bound": format!("{bname}={bound}"), "choices": choices});
        let mut complete = n < exec_cap;
        match run {
            Err(p) => {
                // a panic inside an execution: a task panicked or shuttle detected a deadlock
                let clause = if p.msg.contains("deadlock") { "deadlock" } else { "panic" };
                let choices = sh.choices.clone();
                ctx.violation(clause, &if clause == "deadlock" { format!("{:?}", cfg.shape) } else { p.loc.clone() }, || cj(&choices), p.msg.chars().take(300).collect());
                complete = false;
            }
            Ok(_) => {
                if let Some((clause, detail, choices)) = viol.lock().unwrap().take() {
                    ctx.violation(clause, &format!("{:?}", cfg.shape), || cj(&choices), detail);
                    complete = false;
                }
            }
        }
        if sh.diverged {
            ctx.violation("machinery_replay_divergence", "", || cfg.json(), "choice points differed while replaying a DFS prefix (uncontrolled nondeterminism)".into());
        }
        ctx.sum.evaluations += n;
        ctx.sum.states += n;
        ctx.sum.nontrivial += n.saturating_sub(1);
        ctx.sum.transitions += steps.load(Ordering::Relaxed);
        if full > 0 {
            ctx.landmark_n("channel_full_branch_taken", full as u64);
        }
        ctx.landmark_n("executions", n);
        let no = outcomes.lock().unwrap().len() as u64;
        if cfg.consumer == Consumer::Drain && !sorted && no > 1 {
            ctx.landmark("drain_outcomes_gt_1(unexpected)");
        }
        for h in outcomes.lock().unwrap().iter() {
            ctx.outcome(*h ^ fnv_str(&cfg.json().to_string()));
        }
        let md = sh.max_depth;
        drop(sh);
        ctx.extra_set("max_schedule_depth", json!(md.max(ctx.sum.extra.get("max_schedule_depth").and_then(|v| v.as_u64()).unwrap_or(0) as usize)));
        ctx.sample(|| json!({"config": cfg.json(), "bound": format!("{bname}={bound}"), "executions": n, "distinct_outcomes": no, "max_depth": md}));
        ctx.end_family(complete);
        if ctx.out_of_time() {
            break;
        }
        if !complete && !delay {
            break; // higher preemption bounds only get larger
        }
    }
}

struct SchedProp {
    c06: bool,
}
impl SchedProp {
    fn only_c06(&self) -> bool {
        self.c06
    }
    fn run_c06(&self, ctx: &mut Ctx) {
        let thorough = ctx.tier == Tier::Thorough;
        let exec_cap: u64 = if thorough { 3_000_000 } else { 300_000 };
        for stream in 0..streams().len() {
            for cap in [0usize, 1, 2] {
                for shape in [Shape::LcOnly, Shape::LcSort] {
                    let cfg = Config { shape, cap, consumer: Consumer::Drain, stream };
                    let mut plans: Vec<(bool, usize)> = (0..=if thorough { 4 } else { 2 }).map(|b| (true, b)).collect();
                    if shape == Shape::LcOnly {
                        plans.extend((0..=if thorough { 2 } else { 1 }).map(|b| (false, b)));
                    }
                    for plan in plans {
                        if ctx.mine() {
                            explore_config(ctx, &cfg, &[plan], exec_cap, true);
                        }
                    }
                    if ctx.out_of_time() {
                        ctx.sum.capped = true;
                        return;
                    }
                }
            }
        }
    }
}
impl Prop for SchedProp {
    fn meta(&self, _t: Tier) -> Meta {
        if self.c06 {
            return Meta {
                id: "C06",
                level: "model_checking",
                rule: "cross-thread half of C06: producer -> real lifecycle stage -> [time sort] -> consumer thread over sync_channels of capacity 0/1/2 (shuttle runtime, delay-bounded and preemption-bounded DFS as for C13) on 11 streams that drive every release path of the stage (final flush, mid-stream confirmation, two ECUs confirmed by one periodic check, merge of buffered lifecycles, merge of an already confirmed lifecycle, suspend/resume, overlapping lifecycle confirmed before its predecessor); in every schedule the consumer thread looks each received message's lifecycle up through its own evmap ReadHandle at the moment of reception: it must be visible with the message's ECU.".into(),
                assumptions: vec!["shuttle serialises tasks; evmap runs atomically between scheduling points".into()],
                budget_s: (120, 900),
                workers: 0,
                required_landmarks: vec!["executions", "channel_full_branch_taken"],
            };
        }
        Meta {
            id: "C13",
            level: "model_checking",
            rule: "controlled-scheduler exploration (shuttle runtime, own bounded DFS scheduler: canonical order = running task first then ascending ids; delay bounding = every non-default choice costs 1, for all pipeline shapes; preemption bounding = only switching away from a runnable task costs 1, for the shapes where it stays feasible; bounds iterated 0,1,2,..) of 3-6 real threads: producer -> real lifecycle stage -> {none | plugins(Anonymize) | time sort | filter | sort+filter | plugins+sort+filter} -> consumer, every edge a sync_channel(capacity 0/1/2) written through the real sync_sender_send_delay_if_full, 9 message streams (flush at end / mid-stream confirmation / merge + out-of-order / confirmed lifecycle still receiving while another ECU is buffered at the end / suspend-resume / newer lifecycle confirmed before its still buffered predecessor), consumer = drain or drop the receiver after k messages. adlt's channel and sleep operations are shuttle's under cfg adlt_verif_sched, so every send/recv/sleep/spawn/join of harness and adlt code is a scheduling point. Oracle: drain => delivered sequence (sorted pipelines: multiset) and canonical final lifecycle table equal the sequential unbounded-channel reference, and the consumer thread finds every message's lifecycle published at delivery (C06 cross-thread); drop => every thread joins (no deadlock). Executions = complete schedules; non-trivial = all but the default schedule.".into(),
            assumptions: vec!["shuttle serialises tasks: weak-memory behaviours inside evmap/std are not explored".into(),
                "evmap and other non-channel code run atomically between scheduling points".into(),
                "preemption bound and per-configuration execution cap as listed in coverage.families (complete=false when a cap was hit)".into()],
            budget_s: (120, 1500),
            workers: 0,
            required_landmarks: vec!["channel_full_branch_taken", "executions"],
        }
    }
    fn run(&self, ctx: &mut Ctx) {
        if self.c06 {
            return self.run_c06(ctx);
        }
        let thorough = ctx.tier == Tier::Thorough;
        let caps: &[usize] = &[0, 1, 2];
        let consumers: Vec<Consumer> = vec![Consumer::Drain, Consumer::DropAfter(0), Consumer::DropAfter(1), Consumer::DropAfter(2)];
        let exec_cap: u64 = if thorough { 5_000_000 } else { 400_000 };
        for shape in SHAPES {
            for &cap in caps {
                for consumer in &consumers {
                    for stream in C13_STREAM_IDS {
                        // quick: drop modes only on stream 1
                        if !thorough && *consumer != Consumer::Drain && stream != 1 {
                            continue;
                        }
                        let cfg = Config { shape, cap, consumer: *consumer, stream };
                        // delay bounding (every deviation from the default scheduler costs 1) for all shapes;
                        // preemption bounding (free choice at blocking points) additionally where it stays feasible.
                        // Each (configuration, bound) pair is one unit of work for the sharding.
                        let big = matches!(shape, Shape::LcPluginsSortFilter | Shape::LcSortFilter);
                        let mut plans: Vec<(bool, usize)> = (0..=if thorough { if big { 3 } else { 4 } } else { 2 }).map(|b| (true, b)).collect();
                        if shape == Shape::LcOnly {
                            plans.extend((0..=if thorough { 3 } else { 1 }).map(|b| (false, b)));
                        } else if thorough && matches!(shape, Shape::LcPlugins | Shape::LcFilter | Shape::LcSort) {
                            plans.extend((0..=1).map(|b| (false, b)));
                        }
                        for plan in plans {
                            if ctx.mine() {
                                explore_config(ctx, &cfg, &[plan], exec_cap, false);
                            }
                        }
                        if ctx.out_of_time() {
                            ctx.sum.capped = true;
                            return;
                        }
                    }
                }
            }
        }
    }
    fn replay(&self, case: &Value, ctx: &mut Ctx) {
        ctx.mine();
        let cfg = Config::from_json(&case["config"]);
        let choices: Vec<usize> = case["choices"].as_array().unwrap().iter().map(|x| x.as_u64().unwrap() as usize).collect();
        let all_streams = streams();
        let msgs = gen_stream(&all_streams[cfg.stream], 20_000);
        let reference = reference(&cfg, &msgs);
        let sorted = matches!(cfg.shape, Shape::LcSort | Shape::LcSortFilter | Shape::LcPluginsSortFilter);
        let filtered = matches!(cfg.shape, Shape::LcFilter | Shape::LcSortFilter | Shape::LcPluginsSortFilter);
        let chk = ExecCheck { only_c06: self.only_c06(), cfg: cfg.clone(), reference, sorted, filtered };
        let shared = Arc::new(Mutex::new(Shared::default()));
        let out: Arc<Mutex<Option<Outcome>>> = Arc::new(Mutex::new(None));
        let (o2, c2, m2, sh2) = (out.clone(), cfg.clone(), msgs.clone(), shared.clone());
        let r = catch(move || {
            shuttle::Runner::new(PbDfs::replay(choices, sh2), shuttle_config()).run(move || {
                let o = pipeline(&c2, &m2, true);
                *o2.lock().unwrap() = Some(o);
            })
        });
        let cj = || case.clone();
        match r {
            Err(p) => {
                let clause = if p.msg.contains("deadlock") { "deadlock" } else { "panic" };
                ctx.violation(clause, &if clause == "deadlock" { format!("{:?}", cfg.shape) } else { p.loc.clone() }, cj, p.msg.chars().take(300).collect());
            }
            Ok(_) => {
                if shared.lock().unwrap().diverged {
                    ctx.violation("machinery_replay_divergence", "", cj, "recorded choice out of range".into());
                } else if let Some(o) = out.lock().unwrap().take() {
                    if let Some((clause, detail)) = chk.judge(&o) {
                        ctx.violation(clause, &format!("{:?}", cfg.shape), cj, detail);
                    }
                }
            }
        }
        ctx.eval(true);
    }
}

fn main() {
    let args: Vec<String> = std::env::args().collect();
    if args.len() < 2 || (args[1] != "C13" && args[1] != "C06") {
        eprintln!("usage: mc-sched C13|C06 quick|thorough [--replay f]");
        std::process::exit(2);
    }
    install_panic_hook();
    let prop = SchedProp { c06: args[1] == "C06" };
    let seed: u64 = std::env::var("VERIF_SEED").ok().and_then(|s| s.parse().ok()).unwrap_or(0);
    let mut tier = match std::env::var("VERIF_TIER").ok().as_deref() {
        Some("thorough") => Tier::Thorough,
        _ => Tier::Quick,
    };
    let (mut replay, mut worker, mut out) = (None, None, None);
    let mut i = 2;
    while i < args.len() {
        match args[i].as_str() {
            "quick" => tier = Tier::Quick,
            "thorough" => tier = Tier::Thorough,
            "--replay" => {
                i += 1;
                replay = args.get(i).cloned();
            }
            "--worker" => {
                i += 1;
                let (a, b) = args[i].split_once('/').unwrap();
                worker = Some((a.parse::<u64>().unwrap(), b.parse::<u64>().unwrap()));
            }
            "--out" => {
                i += 1;
                out = args.get(i).cloned();
            }
            _ => {}
        }
        i += 1;
    }
    let code = if let Some(r) = replay {
        replay_main(&prop, &r)
    } else if let Some((s, n)) = worker {
        worker_main(&prop, tier, seed, s, n, &out.expect("--out"), None)
    } else {
        parent_main(&prop, tier, seed)
    };
    std::process::exit(code)
}
