//! C13, remote consumer half: the consumer of the pipeline that lives in the binary (`process_file_context` of
//! `adlt remote`) is stepped through the cfg(adlt_verif) driver while the lifecycle stage is held at a gate right
//! before its final publication (hook `lifecycle::verif_gate`). Two pacings of producer and consumer are explored
//! for every batching of the consumer's receive budget:
//!  * consumer late: the whole pipeline has finished before the consumer polls;
//!  * consumer early: the consumer has received every message (its last message-bearing poll is over) while the
//!    final publication of the lifecycle table is still to come; the stage is released afterwards.
//!
//! Oracle: the lifecycle table the client has been told (latest Lifecycles info per id) is the same for both pacings
//! and lists every generated message.
use crate::core::dltgen::*;
use crate::core::*;
use crate::rem::{build_adlt_bin, scratch_dir, verbose_str_payload, Driver, DriverErr};
use serde_json::{json, Value};
use std::collections::BTreeMap;

/// the property id the engine reports under: C13 (pacing clauses) or C07 (the table the remote client has been told
/// agrees with the delivered messages)
pub struct C13r(pub &'static str);

/// ECU1: 20 messages 5 s apart (its lifecycle is confirmed after 60 s and keeps growing afterwards);
/// ECU2: 3 messages at the end (its lifecycle is still buffered when the stream ends)
fn gen_log() -> (Vec<u8>, BTreeMap<String, u32>, Vec<u64>) {
    let mut bytes = vec![];
    let mut counts: BTreeMap<String, u32> = BTreeMap::new();
    let mut ecu2_idx: Vec<u64> = vec![];
    let mut push = |ecu: &[u8; 4], t_s: u32, i: u32| {
        if ecu == b"ECU2" {
            ecu2_idx.push(i as u64);
        }
        let spec = MsgSpec {
            framing: Framing::Storage,
            htyp: VERS1 | UEH | WEID | WTMS,
            storage_ecu: *ecu,
            hdr_ecu: *ecu,
            apid: *b"APA\0",
            ctid: *b"CTX1",
            mcnt: i as u8,
            session_id: 0,
            timestamp: 100_000 + t_s * 10_000,
            secs: 1_650_000_000 + t_s,
            micros: 1000 * i,
            verb_mstp_mtin: 0x41,
            noar: 1,
            payload: verbose_str_payload(&format!("msg {i}")),
        };
        bytes.extend_from_slice(&spec.to_bytes());
        *counts.entry(String::from_utf8_lossy(ecu).to_string()).or_default() += 1;
    };
    let mut i = 0;
    for k in 0..20u32 {
        push(b"ECU1", k * 5, i);
        i += 1;
        if k >= 17 {
            push(b"ECU2", k * 5 + 1, i);
            i += 1;
        }
    }
    (bytes, counts, ecu2_idx)
}

#[derive(Clone, Debug)]
struct Scen {
    gate: bool,
    sorted: bool,
    /// receive budgets of the consumer polls (sum = number of messages)
    budgets: Vec<usize>,
    /// one-pass session (messages are dropped after delivery) with a one-pass query over the whole file and an idle
    /// poll (a stall of the producer as the consumer sees it) after every message-bearing poll
    one_pass: bool,
}
fn scen_json(s: &Scen) -> Value {
    json!({"family": "remote_consumer_pacing", "consumer_early(gate)": s.gate, "sorted": s.sorted, "budgets": s.budgets, "one_pass": s.one_pass})
}

/// latest lifecycle info per id as the client saw it: id -> (ecu, nr_msgs)
type View = BTreeMap<u64, (String, u64)>;

/// what the client saw: the lifecycle table, and the message indices delivered under the id of the filtered stream
type Seen = (View, Vec<u64>);
const QUERY_ONE_PASS: &str = r#"C query {"one_pass":true,"window":[0,100],"binary":true}"#;
const STREAM: &str = r#"C stream {"window":[1,3],"binary":true,"filters":[{"type":0,"ecu":"ECU2"}]}"#;

fn run(d: &mut Driver, file: &str, s: &Scen) -> Result<(Seen, Vec<(String, String, String)>), DriverErr> {
    let sgot: std::cell::RefCell<Vec<u64>> = Default::default();
    let sid: std::cell::Cell<Option<u64>> = Default::default();
    let mut viol = vec![];
    let mut view: View = BTreeMap::new();
    let mut step = |d: &mut Driver, l: &str, view: &mut View, viol: &mut Vec<(String, String, String)>| -> Result<Value, DriverErr> {
        let r = d.step(l, 90)?;
        if let Some(p) = r["panic"].as_str() {
            let (loc, msg) = p.split_once('|').unwrap_or((p, ""));
            viol.push(("panic".into(), loc.to_string(), format!("'{l}': {msg}")));
        }
        for (id, m) in crate::c16::collect_frames(r["frames"].as_array().map(|a| a.as_slice()).unwrap_or(&[])) {
            if Some(id) == sid.get() {
                if let Some(i) = m["index"].as_u64() {
                    sgot.borrow_mut().push(i);
                }
            } else {
                viol.push(("frame_for_unknown_stream".into(), "".into(), format!("'{l}': data frame for id {id}, the only stream has id {:?}", sid.get())));
            }
        }
        for f in r["frames"].as_array().cloned().unwrap_or_default() {
            if f["b"] == "Lifecycles" {
                for l in f["lcs"].as_array().cloned().unwrap_or_default() {
                    view.insert(l["id"].as_u64().unwrap_or(0), (l["ecu"].as_str().unwrap_or("").to_string(), l["nr_msgs"].as_u64().unwrap_or(0)));
                }
            }
        }
        Ok(r)
    };
    step(d, "RESET", &mut view, &mut viol)?;
    view.clear();
    if s.gate {
        step(d, "GATE arm", &mut view, &mut viol)?;
    }
    let open = if s.one_pass {
        format!(r#"C open {{"files":["{file}"],"collect":"one_pass_streams"}}"#)
    } else if s.sorted { format!(r#"C open {{"files":["{file}"],"sort":true}}"#) } else { format!(r#"C open {{"files":["{file}"]}}"#) };
    step(d, &open, &mut view, &mut viol)?;
    // a filtered stream whose window starts behind the first match: its first matches arrive late in the file
    let r = step(d, if s.one_pass { QUERY_ONE_PASS } else { STREAM }, &mut view, &mut viol)?;
    let reply = r["frames"][0]["t"].as_str().unwrap_or("").to_string();
    sid.set(reply.split("\"id\":").nth(1).and_then(|x| x.trim_start().chars().take_while(|c| c.is_ascii_digit()).collect::<String>().parse().ok()));
    if sid.get().is_none() {
        viol.push(("stream_rejected".into(), "".into(), reply));
    }
    if s.one_pass {
        step(d, "C resume", &mut view, &mut viol)?;
    }
    if !s.gate {
        // consumer late: let the pipeline finish first (T inf returns when the channel is disconnected; it must not
        // receive before that, so the budgets are applied afterwards on the queued messages)
        std::thread::sleep(std::time::Duration::from_millis(150));
    }
    for b in &s.budgets {
        step(d, &format!("T {b}"), &mut view, &mut viol)?;
        if s.one_pass {
            step(d, "T 0", &mut view, &mut viol)?;
        }
    }
    if s.gate {
        step(d, "GATE wait", &mut view, &mut viol)?;
        // a poll without new messages while the final publication is still pending
        step(d, "T 0", &mut view, &mut viol)?;
        step(d, "GATE release", &mut view, &mut viol)?;
    }
    step(d, "T inf", &mut view, &mut viol)?;
    step(d, "T 0", &mut view, &mut viol)?;
    step(d, "T 0", &mut view, &mut viol)?;
    step(d, "C close", &mut view, &mut viol)?;
    let sg = sgot.borrow().clone();
    Ok(((view, sg), viol))
}

fn judge(ctx: &mut Ctx, s: &Scen, r: Result<(Seen, Vec<(String, String, String)>), DriverErr>, counts: &BTreeMap<String, u32>, ecu2_idx: &[u64], reference: &mut BTreeMap<bool, View>) {
    let cj = || scen_json(s);
    ctx.landmark(if s.gate { "consumer_early" } else { "consumer_late" });
    ctx.eval(true);
    ctx.sample(cj);
    match r {
        Err(e) => ctx.violation(if format!("{e:?}").contains("Hang") { "hang" } else { "driver_died" }, "", cj, format!("{e:?}")),
        Ok(((view, sgot), viol)) => {
            for (c, d, detail) in viol {
                ctx.violation(&c, &d, cj, detail);
            }
            // the filtered stream delivered positions [1,3) of the ECU2 messages, whatever the pacing
            let n_all: u64 = counts.values().map(|x| *x as u64).sum();
            let want: Vec<u64> = if s.one_pass { (0..n_all).collect() } else { ecu2_idx.iter().copied().skip(1).take(2).collect() };
            if sgot != want {
                let what = if s.one_pass { "the one-pass query over the whole file".to_string() } else { "the stream with window [1,3) of the ECU2 messages".to_string() };
                ctx.violation("client_stream_differs", &format!("{}{}", if s.gate { "consumer_early" } else { "consumer_late" }, if s.one_pass { ":one_pass" } else { "" }), cj, format!("{what} delivered the messages with index {:?}, expected {:?}", sgot, want));
                return;
            }
            if s.one_pass {
                // (the lifecycle table of a one-pass session is judged by the same clauses below)
                ctx.landmark("one_pass_query_with_stalls");
            }
            // the client's table lists every message
            let mut per_ecu: BTreeMap<String, u64> = BTreeMap::new();
            for (ecu, n) in view.values() {
                *per_ecu.entry(ecu.clone()).or_default() += n;
            }
            for (ecu, n) in counts {
                let got = per_ecu.get(ecu).copied().unwrap_or(0);
                if got != *n as u64 {
                    ctx.violation("client_table_stale", if s.gate { "consumer_early" } else { "consumer_late" }, cj, format!("the lifecycle infos sent to the client list {got} messages for {ecu}, the file has {n} (client view {:?})", view));
                    return;
                }
            }
            ctx.outcome(fnv_str(&format!("{:?}", view.values().collect::<Vec<_>>())));
            // same table for both pacings (ids are per process run: compare by (ecu, nr_msgs))
            let canon: Vec<(String, u64)> = view.values().cloned().collect();
            let entry = reference.entry(s.sorted).or_insert_with(|| view.clone());
            let ref_canon: Vec<(String, u64)> = entry.values().cloned().collect();
            if canon != ref_canon {
                ctx.violation("client_table_differs", "", cj, format!("client table {:?} differs from the one of the first pacing {:?}", canon, ref_canon));
            }
        }
    }
}

impl Prop for C13r {
    fn meta(&self, _t: Tier) -> Meta {
        Meta {
            id: self.0,
            level: "model_checking",
            rule: "remote consumer engine (second engine of C13 and C07): the real consumer of `adlt remote` (process_file_context, stepped through the cfg(adlt_verif) driver with explicit receive budgets) against the real pipeline (parser -> lifecycle stage -> [time sort]) on a 23-message file (a confirmed lifecycle that keeps growing + a lifecycle still buffered at the end). The lifecycle stage is held at a gate right before its final publication (hook lifecycle::verif_gate), which makes the two extreme pacings deterministic: 'consumer late' (pipeline finished before the first poll) and 'consumer early' (every message received, one idle poll, only then the final publication), 'consumer late' x {unsorted, sorted} and 'consumer early' x unsorted (the time sort holds its last window back until its input ends), each x every split of the receive budget into 1..2 polls (thorough: 1..3). A filtered stream (ECU2 messages, window [1,3)) is open during the run; the unsorted scenarios are repeated as one-pass sessions with a one-pass query over the whole file and an idle poll (a stall) after every message-bearing poll: the query must deliver every message. Oracle: the lifecycle table the client has been sent (latest info per id) lists every message of the file and is the same for both pacings; the stream delivers exactly the 2nd and 3rd ECU2 message for every pacing and budget split; every step answers, no panic.".into(),
            assumptions: vec!["the gate hook sits between the flush of the buffered messages and the final forced refresh of parse_lifecycles_buffered_from_stream (add-only, cfg adlt_verif)".into(), "pacings between the two extremes are covered by the scheduler engine on the library stages, not on the binary's consumer".into()],
            budget_s: (120, 600),
            workers: 1,
            required_landmarks: if self.0 == "C07" { vec!["consumer_early", "consumer_late"] } else { vec!["consumer_early", "consumer_late", "one_pass_query_with_stalls"] },
        }
    }
    fn prepare(&self, _t: Tier) -> Result<(), String> {
        build_adlt_bin()
    }
    fn run(&self, ctx: &mut Ctx) {
        let dir = scratch_dir();
        let file = format!("{dir}/log23.dlt");
        let (bytes, counts, ecu2_idx) = gen_log();
        std::fs::write(&file, bytes).expect("write log");
        let n: usize = counts.values().map(|x| *x as usize).sum();
        let mut budgets: Vec<Vec<usize>> = vec![vec![n]];
        for a in 1..n {
            budgets.push(vec![a, n - a]);
        }
        if ctx.tier == Tier::Thorough {
            for a in 1..n {
                for b in 1..n - a {
                    budgets.push(vec![a, b, n - a - b]);
                }
            }
        }
        ctx.begin_family("remote_consumer_pacing", &format!("pacing {{consumer late, consumer early (gate)}} x {{unsorted, sorted}} x {} receive-budget splits of {n} messages", budgets.len()));
        let mut d = Driver::spawn();
        let mut reference: BTreeMap<bool, View> = BTreeMap::new();
        let mut done = true;
        // under C07 only the table clauses matter: the unsorted collect-all scenarios
        let table_only = self.0 == "C07";
        'o: for sorted in [false, true] {
            if sorted && table_only {
                continue;
            }
            for gate in [false, true] {
                if gate && sorted {
                    // the time sort holds its last window back until its input ends: with the lifecycle stage held at the
                    // gate the consumer cannot receive every message; the early pacing is explored on the unsorted pipeline
                    continue;
                }
                for (b, one_pass) in budgets.iter().map(|b| (b, false)).chain(budgets.iter().filter(|_| !sorted && !table_only).map(|b| (b, true))) {
                    ctx.mine();
                    let s = Scen { gate, sorted, budgets: b.clone(), one_pass };
                    let r = run(&mut d, &file, &s);
                    if r.is_err() {
                        d.kill();
                        d = Driver::spawn();
                    }
                    ctx.transitions(b.len() as u64 + 6);
                    judge(ctx, &s, r, &counts, &ecu2_idx, &mut reference);
                    if ctx.out_of_time() {
                        done = false;
                        break 'o;
                    }
                }
            }
        }
        d.kill();
        ctx.end_family(done);
        let _ = std::fs::remove_dir_all(&dir);
    }
    fn replay(&self, case: &Value, ctx: &mut Ctx) {
        ctx.mine();
        if build_adlt_bin().is_err() {
            return;
        }
        let dir = scratch_dir();
        let file = format!("{dir}/log23.dlt");
        let (bytes, counts, ecu2_idx) = gen_log();
        std::fs::write(&file, bytes).expect("write log");
        let s = Scen {
            gate: case["consumer_early(gate)"].as_bool().unwrap_or(true),
            sorted: case["sorted"].as_bool().unwrap_or(false),
            budgets: case["budgets"].as_array().map(|a| a.iter().map(|x| x.as_u64().unwrap_or(0) as usize).collect()).unwrap_or_default(),
            one_pass: case["one_pass"].as_bool().unwrap_or(false),
        };
        let mut d = Driver::spawn();
        let mut reference: BTreeMap<bool, View> = BTreeMap::new();
        let r = run(&mut d, &file, &s);
        judge(ctx, &s, r, &counts, &ecu2_idx, &mut reference);
        d.kill();
        let _ = std::fs::remove_dir_all(&dir);
    }
}
