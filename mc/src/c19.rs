//! C19 — decoding plugins are conservative; anonymisation preserves the id / lifecycle structure.
//!
//! Part 1 (plugins): message streams built to hit and to miss each decoding plugin are pushed through
//! `adlt::plugins::plugins_process_msgs` for EVERY ordered subset of {NonVerbose, SomeIp, CAN, Muniic, Rewrite}
//! (326 chains), the plugins being built by `factory::get_plugin` from the repository's FIBEX / JSON files.
//! Part 2 (file transfer): all sub-streams of a small transfer scenario x FileTransfer configurations.
//! Part 3 (anonymisation): id populations up to the pseudonym capacity (999) and the lifecycle explorer's
//! full-depth stream family: lifecycle table on the original vs. on the anonymised stream.
use crate::core::dltgen::{MSBF, UEH, VERS1, WEID, WTMS};
use crate::core::*;
use crate::lc;
use adlt::dlt::{DltChar4, DltExtendedHeader, DltMessage, DltStandardHeader};
use adlt::plugins::anonymize::AnonymizePlugin;
use adlt::plugins::factory::get_plugin;
use adlt::plugins::plugin::Plugin;
use adlt::plugins::plugins_process_msgs;
use adlt::utils::eac_stats::EacStats;
use serde_json::{json, Value};
use std::cell::RefCell;
use std::collections::BTreeMap;

const TESTS_DIR: &str = "/repo/tests";

// ------------------------------------------------------------------------------------------------ plugins
#[derive(Clone, Copy, PartialEq, Eq, Debug, PartialOrd, Ord)]
pub enum Pk {
    NonVerbose,
    SomeIp,
    Can,
    Muniic,
    Rewrite,
}
const ALL_PK: [Pk; 5] = [Pk::NonVerbose, Pk::SomeIp, Pk::Can, Pk::Muniic, Pk::Rewrite];
impl Pk {
    fn name(&self) -> &'static str {
        match self {
            Pk::NonVerbose => "NonVerbose",
            Pk::SomeIp => "SomeIp",
            Pk::Can => "CAN",
            Pk::Muniic => "Muniic",
            Pk::Rewrite => "Rewrite",
        }
    }
    fn parse(s: &str) -> Option<Pk> {
        ALL_PK.iter().copied().find(|p| p.name() == s)
    }
}

/// one element of a plugin chain
#[derive(Clone, Debug, PartialEq)]
pub enum PSpec {
    Dec(Pk),
    /// FileTransfer with its JSON config (without the name)
    Ft(Value),
    Anon,
}
impl PSpec {
    fn name(&self) -> String {
        match self {
            PSpec::Dec(p) => p.name().to_string(),
            PSpec::Ft(_) => "FileTransfer".into(),
            PSpec::Anon => "Anonymize".into(),
        }
    }
    fn to_json(&self) -> Value {
        match self {
            PSpec::Dec(p) => json!(p.name()),
            PSpec::Ft(cfg) => json!({ "FileTransfer": cfg }),
            PSpec::Anon => json!("Anonymize"),
        }
    }
    fn from_json(v: &Value) -> Option<PSpec> {
        if let Some(s) = v.as_str() {
            if s == "Anonymize" {
                return Some(PSpec::Anon);
            }
            return Pk::parse(s).map(PSpec::Dec);
        }
        v.get("FileTransfer").map(|c| PSpec::Ft(c.clone()))
    }
    fn ft_may_drop(&self) -> bool {
        match self {
            PSpec::Ft(cfg) => !cfg.get("keepFLDA").and_then(|b| b.as_bool()).unwrap_or(false),
            _ => false,
        }
    }
}

fn plugin_cfg(p: Pk) -> Value {
    match p {
        Pk::NonVerbose => json!({"name":"NonVerbose","fibexDir":TESTS_DIR}),
        Pk::SomeIp => json!({"name":"SomeIp","fibexDir":TESTS_DIR}),
        Pk::Can => json!({"name":"CAN","fibexDir":TESTS_DIR}),
        Pk::Muniic => json!({"name":"Muniic","jsonDir":format!("{TESTS_DIR}/muniic")}),
        Pk::Rewrite => {
            let s = std::fs::read_to_string(format!("{TESTS_DIR}/rewrite.cfg")).expect("read rewrite.cfg");
            serde_json::from_str(&s).expect("rewrite.cfg is JSON")
        }
    }
}

/// build a fresh plugin (machinery failure if the repository's config cannot be loaded)
fn mk_plugin(p: &PSpec) -> Box<dyn Plugin + Send> {
    match p {
        PSpec::Anon => Box::new(AnonymizePlugin::new("anon")),
        PSpec::Dec(k) => {
            let cfg = plugin_cfg(*k);
            let mut eac = EacStats::new();
            get_plugin(cfg.as_object().unwrap(), &mut eac)
                .unwrap_or_else(|| panic!("harness: cannot construct plugin {} from {}", k.name(), cfg))
        }
        PSpec::Ft(cfg) => {
            let mut cfg = cfg.clone();
            cfg["name"] = json!("FileTransfer");
            let mut eac = EacStats::new();
            get_plugin(cfg.as_object().unwrap(), &mut eac)
                .unwrap_or_else(|| panic!("harness: cannot construct FileTransfer from {}", cfg))
        }
    }
}

/// run the real chain function on a pre-filled channel
fn run_chain(chain: &[PSpec], input: &[DltMessage]) -> Result<Vec<DltMessage>, Panicked> {
    let plugins: Vec<Box<dyn Plugin + Send>> = chain.iter().map(mk_plugin).collect();
    let (tx, rx) = std::sync::mpsc::channel();
    for m in input {
        tx.send(m.clone()).unwrap();
    }
    drop(tx);
    let out: RefCell<Vec<DltMessage>> = RefCell::new(Vec::with_capacity(input.len()));
    let r = catch(|| {
        plugins_process_msgs(
            rx,
            &|m: DltMessage| {
                out.borrow_mut().push(m);
                Ok(())
            },
            plugins,
        )
        .map(|p| p.len())
    });
    match r {
        Ok(Ok(n)) => {
            assert_eq!(n, chain.len(), "plugins_process_msgs must hand back the plugins");
            Ok(out.into_inner())
        }
        Ok(Err(_)) => unreachable!("the collecting closure never fails"),
        Err(p) => Err(p),
    }
}

/// step through the chain plugin by plugin (diagnosis only): name of the first plugin for which `bad` holds
fn blame(
    chain: &[PSpec],
    input: &[DltMessage],
    bad: &dyn Fn(&PSpec, &DltMessage, &DltMessage, bool) -> bool,
) -> String {
    let mut plugins: Vec<Box<dyn Plugin + Send>> = chain.iter().map(mk_plugin).collect();
    for m in input {
        let mut cur = m.clone();
        for (k, p) in plugins.iter_mut().enumerate() {
            let before = cur.clone();
            match catch(|| p.process_msg(&mut cur)) {
                Err(_) => return chain[k].name(),
                Ok(keep) => {
                    if bad(&chain[k], &before, &cur, keep) {
                        return chain[k].name();
                    }
                    if !keep {
                        break;
                    }
                }
            }
        }
    }
    "?".into()
}

// ------------------------------------------------------------------------------------------------ messages
const NV_LOG_INFO: u8 = 0x40;
const V_LOG_INFO: u8 = 0x41;
const V_NW_IPC: u8 = 1 | (2 << 1) | (1 << 4);
const NV_NW_IPC: u8 = (2 << 1) | (1 << 4);
const V_NW_CAN: u8 = 1 | (2 << 1) | (2 << 4);
const NV_NW_CAN: u8 = (2 << 1) | (2 << 4);
const V_NW_FLEXRAY: u8 = 1 | (2 << 1) | (3 << 4);
const NV_CTRL_REQ: u8 = (3 << 1) | (1 << 4);
const NV_CTRL_RESP: u8 = (3 << 1) | (2 << 4);
const V_CTRL_RESP: u8 = 1 | (3 << 1) | (2 << 4);

/// verbose argument builder, independent of adlt's serializer
#[derive(Clone)]
struct A {
    b: Vec<u8>,
    n: u8,
    be: bool,
}
impl A {
    fn new(be: bool) -> A {
        A { b: vec![], n: 0, be }
    }
    fn p16(&mut self, v: u16) {
        if self.be {
            self.b.extend_from_slice(&v.to_be_bytes())
        } else {
            self.b.extend_from_slice(&v.to_le_bytes())
        }
    }
    fn p32(&mut self, v: u32) {
        if self.be {
            self.b.extend_from_slice(&v.to_be_bytes())
        } else {
            self.b.extend_from_slice(&v.to_le_bytes())
        }
    }
    /// ascii string (zero terminator added)
    fn s(mut self, s: &[u8]) -> A {
        self.p32(0x200);
        self.p16(s.len() as u16 + 1);
        self.b.extend_from_slice(s);
        self.b.push(0);
        self.n += 1;
        self
    }
    fn utf8(mut self, s: &[u8]) -> A {
        self.p32(0x200 | 0x8000);
        self.p16(s.len() as u16 + 1);
        self.b.extend_from_slice(s);
        self.b.push(0);
        self.n += 1;
        self
    }
    fn raw(mut self, d: &[u8]) -> A {
        self.p32(0x400);
        self.p16(d.len() as u16);
        self.b.extend_from_slice(d);
        self.n += 1;
        self
    }
    fn u8v(mut self, v: u8) -> A {
        self.p32(0x40 | 1);
        self.b.push(v);
        self.n += 1;
        self
    }
    fn u16v(mut self, v: u16) -> A {
        self.p32(0x40 | 2);
        self.p16(v);
        self.n += 1;
        self
    }
    fn u64v(mut self, v: u64) -> A {
        self.p32(0x40 | 4);
        if self.be {
            self.b.extend_from_slice(&v.to_be_bytes());
        } else {
            self.b.extend_from_slice(&v.to_le_bytes());
        }
        self.n += 1;
        self
    }
    fn u32v(mut self, v: u32) -> A {
        self.p32(0x40 | 3);
        self.p32(v);
        self.n += 1;
        self
    }
    fn i32v(mut self, v: i32) -> A {
        self.p32(0x20 | 3);
        self.p32(v as u32);
        self.n += 1;
        self
    }
    fn boolv(mut self, v: bool) -> A {
        self.p32(0x10 | 1);
        self.b.push(v as u8);
        self.n += 1;
        self
    }
    fn rawbytes(mut self, d: &[u8]) -> A {
        self.b.extend_from_slice(d);
        self
    }
}

/// message template (everything but the per-position fields index / times / mcnt / lifecycle)
#[derive(Clone, Debug)]
pub struct T {
    tag: String,
    ecu: [u8; 4],
    be: bool,
    ext: Option<(u8, u8, [u8; 4], [u8; 4])>,
    payload: Vec<u8>,
    text: Option<String>,
    with_tmsp: bool,
}
fn t(tag: &str, ecu: &[u8; 4], ext: Option<(u8, u8, &[u8; 4], &[u8; 4])>, payload: Vec<u8>) -> T {
    T {
        tag: tag.into(),
        ecu: *ecu,
        be: false,
        ext: ext.map(|(a, b, c, d)| (a, b, *c, *d)),
        payload,
        text: None,
        with_tmsp: true,
    }
}
/// verbose message from an argument builder
fn tv(tag: &str, ecu: &[u8; 4], vmm: u8, apid: &[u8; 4], ctid: &[u8; 4], a: A) -> T {
    let mut x = t(tag, ecu, Some((vmm, a.n, apid, ctid)), a.b.clone());
    x.be = a.be;
    x
}

const RX_BASE: u64 = 1_700_000_000_000_000;
pub fn build(tp: &T, pos: usize) -> DltMessage {
    let mut htyp = VERS1 | WEID;
    let mut len = 8usize;
    if tp.with_tmsp {
        htyp |= WTMS;
        len += 4;
    }
    if tp.ext.is_some() {
        htyp |= UEH;
        len += 10;
    }
    if tp.be {
        htyp |= MSBF;
    }
    len += tp.payload.len();
    DltMessage {
        index: 7 + 3 * pos as u32,
        reception_time_us: RX_BASE + 1_000 * pos as u64 + 17,
        ecu: DltChar4::from_buf(&tp.ecu),
        timestamp_dms: 50_000 + 10 * pos as u32,
        standard_header: DltStandardHeader { htyp, mcnt: ((pos * 7 + 3) & 0xff) as u8, len: len as u16 },
        extended_header: tp.ext.map(|(v, n, a, c)| DltExtendedHeader {
            verb_mstp_mtin: v,
            noar: n,
            apid: DltChar4::from_buf(&a),
            ctid: DltChar4::from_buf(&c),
        }),
        payload: tp.payload.clone(),
        payload_text: tp.text.clone(),
        lifecycle: 1 + (pos as u32 % 3),
    }
}
pub fn compose(ts: &[&T]) -> (Vec<String>, Vec<DltMessage>) {
    (ts.iter().map(|x| x.tag.clone()).collect(), ts.iter().enumerate().map(|(i, x)| build(x, i)).collect())
}

fn c4s(c: &DltChar4) -> String {
    let mut s = String::new();
    for b in c.as_buf() {
        if (0x20..0x7f).contains(b) && *b != b'%' {
            s.push(*b as char)
        } else {
            s.push_str(&format!("%{:02x}", b))
        }
    }
    s
}
fn c4p(s: &str) -> DltChar4 {
    let b = s.as_bytes();
    let mut out = vec![];
    let mut i = 0;
    while i < b.len() {
        if b[i] == b'%' {
            out.push(u8::from_str_radix(&s[i + 1..i + 3], 16).expect("c4 escape"));
            i += 3;
        } else {
            out.push(b[i]);
            i += 1;
        }
    }
    assert_eq!(out.len(), 4, "char4 '{s}'");
    DltChar4::from_buf(&out)
}
fn msg_to_json(tag: &str, m: &DltMessage) -> Value {
    json!({
        "tag": tag, "index": m.index, "rt": m.reception_time_us, "ecu": c4s(&m.ecu), "ts": m.timestamp_dms,
        "htyp": m.standard_header.htyp, "mcnt": m.standard_header.mcnt, "len": m.standard_header.len,
        "ext": m.extended_header.as_ref().map(|e| json!([e.verb_mstp_mtin, e.noar, c4s(&e.apid), c4s(&e.ctid)])),
        "payload": hex(&m.payload), "text": m.payload_text, "lc": m.lifecycle,
    })
}
fn msg_from_json(v: &Value) -> (String, DltMessage) {
    let ext = if v["ext"].is_array() {
        let e = &v["ext"];
        Some(DltExtendedHeader {
            verb_mstp_mtin: e[0].as_u64().unwrap() as u8,
            noar: e[1].as_u64().unwrap() as u8,
            apid: c4p(e[2].as_str().unwrap()),
            ctid: c4p(e[3].as_str().unwrap()),
        })
    } else {
        None
    };
    (
        v["tag"].as_str().unwrap_or("").to_string(),
        DltMessage {
            index: v["index"].as_u64().unwrap() as u32,
            reception_time_us: v["rt"].as_u64().unwrap(),
            ecu: c4p(v["ecu"].as_str().unwrap()),
            timestamp_dms: v["ts"].as_u64().unwrap() as u32,
            standard_header: DltStandardHeader {
                htyp: v["htyp"].as_u64().unwrap() as u8,
                mcnt: v["mcnt"].as_u64().unwrap() as u8,
                len: v["len"].as_u64().unwrap() as u16,
            },
            extended_header: ext,
            payload: unhex(v["payload"].as_str().unwrap()),
            payload_text: v["text"].as_str().map(|s| s.to_string()),
            lifecycle: v["lc"].as_u64().unwrap() as u32,
        },
    )
}

fn someip(service: u16, method: u16, mtype: u8, rc: u8, payload: &[u8]) -> Vec<u8> {
    let mut v = vec![];
    v.extend_from_slice(&service.to_be_bytes());
    v.extend_from_slice(&method.to_be_bytes());
    v.extend_from_slice(&(8 + payload.len() as u32).to_be_bytes());
    v.extend_from_slice(&0x0102u16.to_be_bytes()); // client
    v.extend_from_slice(&0x0304u16.to_be_bytes()); // session
    v.push(1); // protocol version
    v.push(1); // interface (major) version
    v.push(mtype);
    v.push(rc);
    v.extend_from_slice(payload);
    v
}

const NV_ID_STATIC: u32 = 805312382; // byte length 0, HLD/MAIN
const NV_ID_ARGS: u32 = 805834673; // byte length 11, HLD/ERR
const NV_ID_NOCTX: u32 = 800000000; // SYST, no context id
const MUNIIC_IFACE: u32 = 1228779599;
const MUNIIC_ATTR: u32 = 3478824001;

fn muniic_args(iface: A, payload: &[u8]) -> A {
    iface.s(b"C/LC:").u8v(2).u8v(0).raw(payload)
}
fn muniic_head() -> A {
    A::new(false).s(b"HmiP").u32v(5711).u32v(83029).u32v(7).u32v(0).s(b"InitialData...").s(b"[Hmi]")
}

/// the message pool: for every decoding plugin messages that hit it, that narrowly miss it, odd / truncated ones
pub fn pool() -> Vec<T> {
    let tc = b"TC\0\0";
    let mut v: Vec<T> = vec![];
    // ---- non-verbose (FIBEX: ECU "Ecu1", frames ID_805312382 / ID_805834673 / ID_800000000)
    let nv_args: Vec<u8> = NV_ID_ARGS
        .to_le_bytes()
        .iter()
        .copied()
        .chain(12345678u32.to_le_bytes())
        .chain((-23456789i32).to_le_bytes())
        .chain(4711u16.to_le_bytes())
        .chain([42u8])
        .collect();
    v.push(t("nv_hit_static", b"Ecu1", None, NV_ID_STATIC.to_le_bytes().to_vec()));
    v.push(t("nv_hit_args_ext", b"Ecu1", Some((NV_LOG_INFO, 0, b"HLD\0", b"ERR\0")), nv_args.clone()));
    v.push(t("nv_hit_noctx", b"Ecu1", None, NV_ID_NOCTX.to_le_bytes().to_vec()));
    let mut x = t("nv_hit_be", b"Ecu1", None, NV_ID_STATIC.to_be_bytes().to_vec());
    x.be = true;
    v.push(x);
    v.push(t("nv_short_args", b"Ecu1", None, nv_args[..9].to_vec()));
    let mut long = nv_args.clone();
    long.extend_from_slice(&[0xaa; 9]);
    v.push(t("nv_long_args", b"Ecu1", None, long));
    v.push(t("nv_miss_id", b"Ecu1", None, 4711u32.to_le_bytes().to_vec()));
    v.push(t("nv_miss_ecu", b"ECU2", None, NV_ID_STATIC.to_le_bytes().to_vec()));
    v.push(t("nv_tiny3", b"Ecu1", None, vec![0xfe, 0x0f, 0x00]));
    v.push(t("nv_empty", b"Ecu1", None, vec![]));
    // ---- SOME/IP (FIBEX: service 64098 v1, method 1000); nw trace ipc, ctid TC, >= 2 args
    let ip12 = [10u8, 0, 0, 1, 10, 0, 0, 2, 0, 0, 0, 1];
    let sip = |tag: &str, a: A| tv(tag, b"SIP1", V_NW_IPC, b"SIPA", tc, a);
    v.push(sip("sip_req", A::new(false).raw(&ip12).raw(&someip(64098, 1000, 0, 0, &[42]))));
    v.push(sip("sip_resp", A::new(false).raw(&ip12).raw(&someip(64098, 1000, 0x80, 0, &[1]))));
    v.push(sip("sip_unknown_service", A::new(false).raw(&ip12).raw(&someip(0x1234, 1, 2, 0, &[1, 2, 3]))));
    v.push(sip("sip_inst9", A::new(false).raw(&ip12[..9]).raw(&someip(64098, 1000, 0, 0, &[255]))));
    v.push(sip("sip_inst10", A::new(false).raw(&ip12[..10]).raw(&someip(64098, 1000, 0x81, 1, &[]))));
    v.push(sip("sip_short_hdr", A::new(false).raw(&ip12).raw(&someip(64098, 1000, 0, 0, &[])[..7])));
    v.push(sip("sip_arg0_len5", A::new(false).raw(&ip12[..5]).raw(&someip(64098, 1000, 0, 0, &[42]))));
    v.push(tv("sip_wrong_ctid", b"SIP1", V_NW_IPC, b"SIPA", b"XX\0\0", A::new(false).raw(&ip12).raw(&someip(64098, 1000, 0, 0, &[42]))));
    let mut x = sip("sip_noar1", A::new(false).raw(&ip12).raw(&someip(64098, 1000, 0, 0, &[42])));
    x.ext.as_mut().unwrap().1 = 1;
    v.push(x);
    let mut x = sip("sip_noar2_one_arg", A::new(false).raw(&ip12));
    x.ext.as_mut().unwrap().1 = 2;
    v.push(x);
    let seg = someip(64098, 1000, 0, 0, &[42, 0, 0, 0]); // 20 bytes = 2 chunks of 10
    v.push(sip("sip_nwst", A::new(false).s(b"NWST").u32v(7).raw(&ip12).u32v(0).u16v(2).u16v(10)));
    v.push(sip("sip_nwch0", A::new(false).s(b"NWCH").u32v(7).u16v(0).raw(&seg[..10])));
    v.push(sip("sip_nwch1", A::new(false).s(b"NWCH").u32v(7).u16v(1).raw(&seg[10..])));
    v.push(sip("sip_nwen", A::new(false).s(b"NWEN").u32v(7)));
    v.push(sip("sip_nwch_unknown", A::new(false).s(b"NWCH").u32v(99).u16v(0).raw(&seg[..10])));
    v.push(sip("sip_nwen_unknown", A::new(false).s(b"NWEN").u32v(98)));
    v.push(sip("sip_nwch_oos", A::new(false).s(b"NWCH").u32v(7).u16v(5).raw(&seg[..10])));
    v.push(sip("sip_nwst_zero_size", A::new(false).s(b"NWST").u32v(8).raw(&ip12).u32v(0).u16v(2).u16v(0)));
    // chunks / end for the announcement with chunk size 0 (id 8)
    v.push(sip("sip_nwch_for_zero_size", A::new(false).s(b"NWCH").u32v(8).u16v(0).raw(&seg[..10])));
    v.push(sip("sip_nwen_for_zero_size", A::new(false).s(b"NWEN").u32v(8)));
    v.push(sip("sip_nwst_bad_hdr", A::new(false).s(b"NWST").u32v(9).raw(&ip12[..3]).u32v(0).u16v(1).u16v(16)));
    v.push(t("sip_nonverbose", b"SIP1", Some((NV_NW_IPC, 2, b"SIPA", tc)), ip12.iter().copied().chain(someip(64098, 1000, 0, 0, &[42])).collect()));
    // ---- CAN: nw trace can, ctid TC, frame id + data (adlt's own .asc importer emits them non-verbose, apid CAN)
    let can_nv = |tag: &str, id: u32, data: &[u8]| {
        t(tag, b"CAN1", Some((NV_NW_CAN, 2, b"CAN\0", tc)), id.to_le_bytes().iter().copied().chain(data.iter().copied()).collect())
    };
    v.push(can_nv("can_nv_frame", 0x123, &[1, 2, 3, 4, 5, 6, 7, 8]));
    v.push(tv("can_v_frame", b"CAN1", V_NW_CAN, b"CAN\0", tc, A::new(false).u32v(0x123).raw(&[1, 2, 3, 4, 5, 6, 7, 8])));
    v.push(can_nv("can_frame0", 0, &[1, 2]));
    v.push(tv("can_v_id16", b"CAN1", V_NW_CAN, b"CAN\0", tc, A::new(false).u16v(0x123).raw(&[1, 2, 3])));
    let loginfo: Vec<u8> = 3u32
        .to_le_bytes()
        .iter()
        .copied()
        .chain([7u8])
        .chain(1u16.to_le_bytes())
        .chain(*b"CAN\0")
        .chain(0u16.to_le_bytes())
        .chain(5u16.to_le_bytes())
        .chain(*b"CAN 1")
        .collect();
    v.push(t("can_loginfo", b"CAN1", Some((NV_CTRL_RESP, 2, b"CAN\0", tc)), loginfo.clone()));
    v.push(t("can_loginfo_short5", b"CAN1", Some((NV_CTRL_RESP, 2, b"CAN\0", tc)), loginfo[..5].to_vec()));
    v.push(t("can_loginfo_trunc", b"CAN1", Some((NV_CTRL_RESP, 2, b"CAN\0", tc)), loginfo[..10].to_vec()));
    v.push(tv("can_wrong_mstp", b"CAN1", V_NW_FLEXRAY, b"CAN\0", tc, A::new(false).u32v(0x123).raw(&[1, 2, 3])));
    v.push(can_nv("can_nv_only_id", 0x123, &[]));
    let mut x = can_nv("can_err_preset_text", 0, &[]);
    x.text = Some("ErrorFrame".into());
    v.push(x);
    let mut x = t("can_be_frame", b"CAN1", Some((NV_NW_CAN, 2, b"CAN\0", tc)), 0x7ffu32.to_be_bytes().iter().copied().chain([9u8, 8, 7]).collect());
    x.be = true;
    v.push(x);
    // ---- Muniic: verbose, ctid MMSG, 13 args (interface id = arg 7, message id = arg 8, payload = arg 12); config: ctid MDLT
    let mu = |tag: &str, ctid: &[u8; 4], a: A| tv(tag, b"ECU1", V_LOG_INFO, b"MUNI", ctid, a);
    v.push(mu("mu_hit", b"MMSG", muniic_args(muniic_head().u32v(MUNIIC_IFACE).u32v(MUNIIC_ATTR), &[1])));
    v.push(mu("mu_unknown_iface", b"MMSG", muniic_args(muniic_head().u32v(1).u32v(MUNIIC_ATTR), &[1])));
    v.push(mu("mu_unknown_msgid", b"MMSG", muniic_args(muniic_head().u32v(MUNIIC_IFACE).u32v(2), &[1])));
    let mut x = mu("mu_noar12", b"MMSG", muniic_args(muniic_head().u32v(MUNIIC_IFACE).u32v(MUNIIC_ATTR), &[1]));
    x.ext.as_mut().unwrap().1 = 12;
    v.push(x);
    // interface / message id logged as 64-bit unsigned arguments (legal DLT, not the usual layout)
    v.push(mu("mu_iface_as_u64", b"MMSG", muniic_args(muniic_head().u64v(MUNIIC_IFACE as u64).u32v(MUNIIC_ATTR), &[1])));
    v.push(mu("mu_msgid_as_u64", b"MMSG", muniic_args(muniic_head().u32v(MUNIIC_IFACE).u64v(MUNIIC_ATTR as u64), &[1])));
    v.push(mu("mu_iface_as_string", b"MMSG", muniic_args(muniic_head().s(b"1228779599").u32v(MUNIIC_ATTR), &[1])));
    v.push(mu("mu_empty_payload", b"MMSG", muniic_args(muniic_head().u32v(MUNIIC_IFACE).u32v(MUNIIC_ATTR), &[])));
    v.push(mu("mu_long_payload", b"MMSG", muniic_args(muniic_head().u32v(MUNIIC_IFACE).u32v(MUNIIC_ATTR), &[0, 9, 9, 9])));
    let full = muniic_args(muniic_head().u32v(MUNIIC_IFACE).u32v(MUNIIC_ATTR), &[1]);
    let mut x = mu("mu_hit_truncated", b"MMSG", A { b: full.b[..full.b.len() - 9].to_vec(), n: 13, be: false });
    x.ext.as_mut().unwrap().1 = 13;
    v.push(x);
    v.push(mu("mu_cfg_known", b"MDLT", A::new(false).utf8(b"Version: 20.48, git: 123, model hash: 2874425776")));
    v.push(mu("mu_cfg_other", b"MDLT", A::new(false).utf8(b"Version: 21.01, git: abc, model hash: 2944352002")));
    v.push(mu("mu_cfg_unknown_hash", b"MDLT", A::new(false).utf8(b"Version: 20.48, git: 123, model hash: 2874425775")));
    v.push(mu("mu_cfg_nomatch", b"MDLT", A::new(false).utf8(b"no version here")));
    // ---- Rewrite (tests/rewrite.cfg): apid SYS ctid JOUR, "^.*? .*? (?<timeStamp>\d+\.\d+) (?<text>.*)$"
    let rw = |tag: &str, ctid: &[u8; 4], a: A| tv(tag, b"ECU1", V_LOG_INFO, b"SYS\0", ctid, a);
    v.push(rw("rw_hit", b"JOUR", A::new(false).utf8(b"2024/01/01 10:00:00 12.345678 wanted text")));
    v.push(rw("rw_hit_args", b"JOUR", A::new(false).s(b"a").s(b"b").s(b"0.5").s(b"rest of it")));
    v.push(rw("rw_nomatch", b"JOUR", A::new(false).utf8(b"nothing to see here")));
    v.push(rw("rw_wrong_ctid", b"JOUX", A::new(false).utf8(b"a b 12.345678 wanted text")));
    v.push(rw("rw_huge_ts", b"JOUR", A::new(false).utf8(b"a b 99999999999.5 text")));
    v.push(rw("rw_empty_text", b"JOUR", A::new(false).utf8(b"a b 1.0 ")));
    v.push(t("rw_nonverbose", b"ECU1", Some((NV_LOG_INFO, 0, b"SYS\0", b"JOUR")), vec![1, 0, 0, 0, b' ', b'1', b'.', b'5', b' ', b'x']));
    // ---- cross-plugin
    v.push(t("x_nv_can", b"Ecu1", Some((NV_NW_CAN, 2, b"CAN\0", tc)), nv_args.clone()));
    v.push(t("x_nv_sysjour", b"Ecu1", Some((NV_LOG_INFO, 0, b"SYS\0", b"JOUR")), NV_ID_STATIC.to_le_bytes().to_vec()));
    // without NonVerbose the raw text "[805834673]  1.5 xyzabc|.." matches rewrite.cfg, after NonVerbose it does not: order matters
    v.push(t("x_nv_rw_order", b"Ecu1", Some((NV_LOG_INFO, 0, b"SYS\0", b"JOUR")), NV_ID_ARGS.to_le_bytes().iter().copied().chain(*b" 1.5 xyzabc").collect()));
    v.push(t("x_nv_mmsg", b"Ecu1", Some((NV_LOG_INFO, 13, b"MUNI", b"MMSG")), nv_args.clone()));
    v.push(tv("x_can_sip_same_ecu", b"Ecu1", V_NW_IPC, b"CAN\0", tc, A::new(false).u32v(0x123).raw(&someip(64098, 1000, 0, 0, &[42]))));
    // ---- generic / odd
    v.push(tv("g_plain", b"ECU1", V_LOG_INFO, b"APP\0", b"CTX\0", A::new(false).utf8(b"hello world")));
    v.push(tv("g_empty_verbose", b"ECU1", V_LOG_INFO, b"APP\0", b"CTX\0", A::new(false)));
    v.push(t("g_noext_empty", b"ECU1", None, vec![]));
    let mut x = tv("g_trunc_string", b"ECU1", V_LOG_INFO, b"APP\0", b"CTX\0", A::new(false).rawbytes(&[0x00, 0x02, 0, 0, 100, 0, b'a', b'b', b'c']));
    x.ext.as_mut().unwrap().1 = 1;
    v.push(x);
    let mut x = tv("g_noar_mismatch", b"ECU1", V_LOG_INFO, b"APP\0", b"CTX\0", A::new(false).u8v(1));
    x.ext.as_mut().unwrap().1 = 3;
    v.push(x);
    v.push(tv("g_nonutf8", b"ECU1", V_LOG_INFO, b"APP\0", b"CTX\0", A::new(false).utf8(&[0xff, 0xfe, b'a', 0xc3])));
    v.push(tv("g_big_raw", b"ECU1", V_LOG_INFO, b"APP\0", b"CTX\0", A::new(false).raw(&vec![0x5a; 2000])));
    v.push(t("g_ctrl_req_nv", b"ECU1", Some((NV_CTRL_REQ, 1, b"DA1\0", b"DC1\0")), vec![3, 0, 0, 0, 7, 0, 0, 0, 0]));
    v.push(tv("g_ctrl_resp_v_bool", b"ECU1", V_CTRL_RESP, b"DA1\0", b"DC1\0", A::new(false).boolv(true)));
    let mut x = tv("g_ctrl_resp_v_bool_be", b"ECU1", V_CTRL_RESP, b"DA1\0", b"DC1\0", A::new(true).boolv(true));
    x.be = true;
    v.push(x);
    v.push(tv("g_ctrl_resp_v_u32_swver", b"ECU1", V_CTRL_RESP, b"DA1\0", b"DC1\0", A::new(false).u32v(19).u8v(0).utf8(b"v1")));
    v.push(t("g_ctrl_resp_nv_swver", b"ECU1", Some((NV_CTRL_RESP, 1, b"DA1\0", b"DC1\0")), vec![19, 0, 0, 0, 0, 2, 0, 0, 0, b'v', b'1']));
    v.push(t("g_ctrl_resp_nv_2bytes", b"ECU1", Some((NV_CTRL_RESP, 1, b"DA1\0", b"DC1\0")), vec![19, 0]));
    let mut x = tv("g_notmsp", b"ECU1", V_LOG_INFO, b"APP\0", b"CTX\0", A::new(false).utf8(b"no timestamp"));
    x.with_tmsp = false;
    v.push(x);
    let mut x = tv("g_vari", b"ECU1", V_LOG_INFO, b"APP\0", b"CTX\0", A::new(false).rawbytes(&[0x43, 0x08, 0, 0, 1, 0, b'x', 0, 1, 0, 0, 0]));
    x.ext.as_mut().unwrap().1 = 1;
    v.push(x);
    v.push(tv("g_nw_ipc_other_ctid", b"ECU1", V_NW_IPC, b"APP\0", b"CTX\0", A::new(false).raw(&ip12).raw(&[1, 2, 3])));
    let mut x = tv("g_be_verbose", b"ECU1", V_LOG_INFO, b"APP\0", b"CTX\0", A::new(true).utf8(b"big endian").u32v(1));
    x.be = true;
    v.push(x);
    v
}

/// templates whose payload is swept by the truncation / byte-mutation families, with the messages that must precede them
fn sweep_targets() -> Vec<(&'static str, Vec<&'static str>)> {
    vec![
        ("nv_hit_args_ext", vec![]),
        ("nv_hit_static", vec![]),
        ("x_nv_can", vec![]),
        ("sip_req", vec![]),
        ("sip_inst9", vec![]),
        ("sip_nwst", vec![]),
        ("sip_nwch0", vec!["sip_nwst"]),
        ("sip_nwch1", vec!["sip_nwst", "sip_nwch0"]),
        ("sip_nwen", vec!["sip_nwst", "sip_nwch0", "sip_nwch1"]),
        ("can_nv_frame", vec!["can_loginfo"]),
        ("can_v_frame", vec![]),
        ("can_loginfo", vec![]),
        ("mu_hit", vec![]),
        ("mu_hit", vec!["mu_cfg_known"]),
        ("mu_cfg_known", vec![]),
        ("rw_hit", vec![]),
        ("rw_hit_args", vec![]),
        ("g_ctrl_resp_nv_swver", vec![]),
    ]
}

/// all ordered subsets of the five decoding plugins, smallest first (1+5+20+60+120+120 = 326)
pub fn ordered_subsets() -> Vec<Vec<Pk>> {
    let mut out: Vec<Vec<Pk>> = vec![];
    for size in 0..=5usize {
        for mask in 0u32..32 {
            if mask.count_ones() as usize != size {
                continue;
            }
            let members: Vec<Pk> = (0..5).filter(|i| mask & (1 << i) != 0).map(|i| ALL_PK[i]).collect();
            enumr::permutations(size, |p| {
                out.push(p.iter().map(|i| members[*i]).collect());
                true
            });
        }
    }
    out
}
/// the 7 chains used by the sweeps: each plugin alone, all five in declaration order and reversed
fn sweep_chains() -> Vec<Vec<Pk>> {
    let mut v: Vec<Vec<Pk>> = ALL_PK.iter().map(|p| vec![*p]).collect();
    v.push(ALL_PK.to_vec());
    v.push(ALL_PK.iter().rev().copied().collect());
    v
}

// ------------------------------------------------------------------------------------------------ reference: FLDA shape
/// independent recogniser of a file-transfer data package: verbose log-info message (or one with a reserved message type,
/// see below) with 5 arguments whose first and
/// last argument are the 5-byte ASCII strings "FLDA\0"
fn ref_is_flda(m: &DltMessage) -> bool {
    let e = match &m.extended_header {
        Some(e) => e,
        None => return false,
    };
    // verbose, type-info 'info', message type 'log'. The four reserved message-type values (4..7) are decoded as logs by
    // the library; whether such a message is a data package is not defined by the statement: accepted either way
    let (verbose, mstp, mtin) = (e.verb_mstp_mtin & 1, (e.verb_mstp_mtin >> 1) & 7, e.verb_mstp_mtin >> 4);
    if verbose != 1 || mtin != 4 || !(mstp == 0 || mstp >= 4) || e.noar != 5 {
        return false;
    }
    let be = m.standard_header.htyp & MSBF != 0;
    let p = &m.payload;
    let rd32 = |o: usize| -> Option<u32> {
        let b: [u8; 4] = p.get(o..o + 4)?.try_into().ok()?;
        Some(if be { u32::from_be_bytes(b) } else { u32::from_le_bytes(b) })
    };
    let rd16 = |o: usize| -> Option<u16> {
        let b: [u8; 2] = p.get(o..o + 2)?.try_into().ok()?;
        Some(if be { u16::from_be_bytes(b) } else { u16::from_le_bytes(b) })
    };
    let mut o = 0usize;
    let mut args: Vec<(u32, &[u8])> = vec![];
    while o < p.len() {
        let ti = match rd32(o) {
            Some(t) => t,
            None => return false,
        };
        o += 4;
        let len = if ti & 0x600 != 0 {
            let l = match rd16(o) {
                Some(l) => l as usize,
                None => return false,
            };
            o += 2;
            l
        } else {
            match ti & 0xf {
                1 => 1,
                2 => 2,
                3 => 4,
                4 => 8,
                5 => 16,
                _ => return false,
            }
        };
        match p.get(o..o + len) {
            Some(d) => args.push((ti, d)),
            None => return false,
        }
        o += len;
    }
    if args.len() < 2 {
        return false;
    }
    let is = |a: &(u32, &[u8])| a.0 & 0x200 != 0 && a.0 & 0x38000 == 0 && a.1 == b"FLDA\0";
    is(&args[0]) && is(args.last().unwrap())
}

// ------------------------------------------------------------------------------------------------ a chain case
pub struct Case {
    family: String,
    chain: Vec<PSpec>,
    tags: Vec<String>,
    msgs: Vec<DltMessage>,
}
impl Case {
    fn to_json(&self) -> Value {
        json!({
            "family": self.family,
            "chain": self.chain.iter().map(|p| p.to_json()).collect::<Vec<_>>(),
            "msgs": self.msgs.iter().zip(self.tags.iter()).map(|(m, t)| msg_to_json(t, m)).collect::<Vec<_>>(),
        })
    }
    fn from_json(v: &Value) -> Case {
        let (tags, msgs): (Vec<String>, Vec<DltMessage>) =
            v["msgs"].as_array().expect("msgs").iter().map(msg_from_json).unzip();
        Case {
            family: v["family"].as_str().unwrap_or("replay").into(),
            chain: v["chain"].as_array().expect("chain").iter().map(|p| PSpec::from_json(p).expect("plugin")).collect(),
            tags,
            msgs,
        }
    }
}

fn describe(tag: &str, a: &DltMessage, b: &DltMessage) -> String {
    format!("message '{tag}': in={:?} out={:?}", a, b)
}

/// oracle for chains of decoding plugins (+ optionally FileTransfer)
fn judge_cons(ctx: &mut Ctx, c: &Case, res: &Result<Vec<DltMessage>, Panicked>) -> bool {
    let cj = || c.to_json();
    let out = match res {
        Err(p) => {
            ctx.violation("panic", &p.loc, cj, format!("plugin chain panicked: {}", p.msg));
            return true;
        }
        Ok(o) => o,
    };
    let input = &c.msgs;
    let may_drop = c.chain.iter().any(|p| p.ft_may_drop());
    let has_rewrite = c.chain.contains(&PSpec::Dec(Pk::Rewrite));
    let single: Option<Pk> = match c.chain.as_slice() {
        [PSpec::Dec(p)] => Some(*p),
        _ => None,
    };
    // ---- landmarks first (they describe what the case exercised, whatever the verdict is)
    {
        let by_index: BTreeMap<u32, &DltMessage> = input.iter().map(|m| (m.index, m)).collect();
        let mut untouched_any = false;
        for b in out.iter() {
            if let Some(a) = by_index.get(&b.index) {
                if a.payload_text != b.payload_text {
                    if let Some(p) = single {
                        ctx.landmark(&format!("decoded:{}", p.name()));
                    }
                }
                if a.timestamp_dms != b.timestamp_dms && has_rewrite {
                    ctx.landmark("rewrite_timestamp_changed");
                }
                if a.extended_header.is_none() && b.extended_header.is_some() {
                    ctx.landmark("ext_header_filled");
                }
                if *a == b {
                    untouched_any = true;
                }
            }
        }
        if let (Some(p), true) = (single, untouched_any) {
            ctx.landmark(&format!("not_matching:{}", p.name()));
        }
        let has_ft = c.chain.iter().any(|p| matches!(p, PSpec::Ft(_)));
        if has_ft && input.iter().any(ref_is_flda) {
            if may_drop && out.len() < input.len() {
                ctx.landmark("ft_flda_dropped");
            }
            if !may_drop {
                ctx.landmark("ft_flda_kept");
            }
        }
    }
    // ---- count / order
    let mut pairs: Vec<(usize, usize)> = Vec::with_capacity(input.len());
    if !may_drop {
        if out.len() != input.len() {
            let lost = out.len() < input.len();
            let who = if lost { blame(&c.chain, input, &|_, _, _, keep| !keep) } else { "?".into() };
            ctx.violation(
                "count",
                &format!("{}:{who}", if lost { "lost" } else { "duplicated" }),
                cj,
                format!("{} forwarded for {} received", out.len(), input.len()),
            );
            return true;
        }
        for i in 0..input.len() {
            pairs.push((i, i));
        }
        // same multiset of indices but another sequence = reordering
        let a: Vec<u32> = input.iter().map(|m| m.index).collect();
        let b: Vec<u32> = out.iter().map(|m| m.index).collect();
        if a != b {
            let (mut sa, mut sb) = (a.clone(), b.clone());
            sa.sort();
            sb.sort();
            if sa == sb {
                ctx.violation("order", "", cj, format!("indices in {:?} out {:?}", a, b));
                return true;
            }
        }
    } else {
        let mut cnt: BTreeMap<u32, i64> = BTreeMap::new();
        for m in input {
            *cnt.entry(m.index).or_default() += 1;
        }
        for m in out {
            let e = cnt.entry(m.index).or_default();
            *e -= 1;
            if *e < 0 {
                ctx.violation("count", "duplicated:?", cj, format!("message with index {} forwarded more often than received ({} forwarded for {} received)", m.index, out.len(), input.len()));
                return true;
            }
        }
        let mut j = 0usize;
        for (i, m) in input.iter().enumerate() {
            if j < out.len() && out[j].index == m.index {
                pairs.push((i, j));
                j += 1;
            } else {
                // dropped: only a file-transfer data package may be
                if ref_is_flda(m) {
                    ctx.landmark("flda_package_dropped");
                }
                if !ref_is_flda(m) {
                    let who = blame(&c.chain, input, &|_, before, _, keep| !keep && !ref_is_flda(before));
                    ctx.violation("dropped_non_flda", &who, cj, format!("message '{}' (index {}) is not a file transfer data package but was not forwarded", c.tags[i], m.index));
                    return true;
                }
            }
        }
        if j != out.len() {
            ctx.violation("order_or_duplicate", "", cj, format!("forwarded message at position {j} (index {}) does not continue the input order", out[j].index));
            return true;
        }
    }
    // ---- fields
    let mut changed_any = false;
    let mut h = String::new();
    for &(i, j) in &pairs {
        let (a, b) = (&input[i], &out[j]);
        macro_rules! untouched {
            ($field:literal, $get:expr) => {
                if $get(a) != $get(b) {
                    let who = blame(&c.chain, input, &|_, x, y, _| $get(x) != $get(y));
                    ctx.violation("untouched", &format!("{}:{}", $field, who), cj, describe(&c.tags[i], a, b));
                    return true;
                }
            };
        }
        untouched!("index", |m: &DltMessage| m.index);
        untouched!("reception_time", |m: &DltMessage| m.reception_time_us);
        untouched!("ecu", |m: &DltMessage| m.ecu);
        untouched!("payload", |m: &DltMessage| m.payload.clone());
        untouched!("lifecycle", |m: &DltMessage| m.lifecycle);
        untouched!("standard_header", |m: &DltMessage| m.standard_header.clone());
        if a.extended_header != b.extended_header {
            if a.extended_header.is_some() {
                let who = blame(&c.chain, input, &|_, x, y, _| x.extended_header.is_some() && x.extended_header != y.extended_header);
                ctx.violation("ext_header_changed", &who, cj, describe(&c.tags[i], a, b));
                return true;
            }
        }
        if a.timestamp_dms != b.timestamp_dms {
            // only Rewrite may do that
            let who = if has_rewrite {
                blame(&c.chain, input, &|p, x, y, _| *p != PSpec::Dec(Pk::Rewrite) && x.timestamp_dms != y.timestamp_dms)
            } else {
                blame(&c.chain, input, &|_, x, y, _| x.timestamp_dms != y.timestamp_dms)
            };
            if !has_rewrite || who != "?" {
                ctx.violation("timestamp_changed", &who, cj, describe(&c.tags[i], a, b));
                return true;
            }
        }
        if a != b {
            changed_any = true;
        }
        h.push_str(&format!("{:?}|{:?}|{}|", b.payload_text, b.extended_header, b.timestamp_dms));
    }
    ctx.outcome(fnv_str(&h));
    changed_any
}

fn run_case(ctx: &mut Ctx, c: &Case) {
    let res = run_chain(&c.chain, &c.msgs);
    ctx.transitions((c.msgs.len() * c.chain.len().max(1)) as u64);
    let nt = if c.chain.contains(&PSpec::Anon) {
        judge_anon(ctx, &c.msgs, &res, &|| c.to_json()).is_some_and(|x| x.1)
    } else {
        judge_cons(ctx, c, &res)
    };
    ctx.eval(nt);
    ctx.sample(|| {
        // samples: keep them short
        json!({"family": c.family, "chain": c.chain.iter().map(|p| p.name()).collect::<Vec<_>>(), "msgs": c.tags})
    });
}

// ------------------------------------------------------------------------------------------------ anonymisation
type EcuMap = BTreeMap<[u8; 4], [u8; 4]>;

/// oracle for [Anonymize]: same count and order, times untouched, pseudonym maps functional and injective
/// (ECU; APID within its ECU; CTID within its ECU+APID). Returns the ECU map and the non-triviality flag.
fn judge_anon(
    ctx: &mut Ctx,
    input: &[DltMessage],
    res: &Result<Vec<DltMessage>, Panicked>,
    cj: &dyn Fn() -> Value,
) -> Option<(EcuMap, bool)> {
    let out = match res {
        Err(p) => {
            ctx.violation("panic", &p.loc, cj, format!("anonymisation panicked: {}", p.msg));
            return None;
        }
        Ok(o) => o,
    };
    if out.len() != input.len() {
        ctx.violation("anon_count", "", cj, format!("{} forwarded for {} received", out.len(), input.len()));
        return None;
    }
    let mut ecu_f: EcuMap = BTreeMap::new();
    let mut ecu_b: EcuMap = BTreeMap::new();
    let mut ap_f: BTreeMap<([u8; 4], [u8; 4]), [u8; 4]> = BTreeMap::new();
    let mut ap_b: BTreeMap<([u8; 4], [u8; 4]), [u8; 4]> = BTreeMap::new();
    let mut ct_f: BTreeMap<([u8; 4], [u8; 4], [u8; 4]), [u8; 4]> = BTreeMap::new();
    let mut ct_b: BTreeMap<([u8; 4], [u8; 4], [u8; 4]), [u8; 4]> = BTreeMap::new();
    for (i, (a, b)) in input.iter().zip(out.iter()).enumerate() {
        if a.index != b.index {
            ctx.violation("anon_order", "", cj, format!("position {i}: index {} -> {}", a.index, b.index));
            return None;
        }
        if a.reception_time_us != b.reception_time_us {
            ctx.violation("anon_time", "reception_time", cj, format!("position {i}: {} -> {}", a.reception_time_us, b.reception_time_us));
            return None;
        }
        if a.timestamp_dms != b.timestamp_dms || (a.standard_header.htyp & WTMS) != (b.standard_header.htyp & WTMS) {
            ctx.violation("anon_time", "timestamp", cj, format!("position {i}: {} -> {}", a.timestamp_dms, b.timestamp_dms));
            return None;
        }
        let (e0, e1) = (*a.ecu.as_buf(), *b.ecu.as_buf());
        if *ecu_f.entry(e0).or_insert(e1) != e1 {
            ctx.violation("anon_functional", "ecu", cj, format!("position {i}: ECU {:?} mapped to {:?} and to {:?}", a.ecu, DltChar4::from_buf(&ecu_f[&e0]), b.ecu));
            return None;
        }
        if *ecu_b.entry(e1).or_insert(e0) != e0 {
            ctx.violation("anon_injective", "ecu", cj, format!("position {i}: ECUs {:?} and {:?} share the pseudonym {:?}", DltChar4::from_buf(&ecu_b[&e1]), a.ecu, b.ecu));
            return None;
        }
        match (&a.extended_header, &b.extended_header) {
            (None, None) => {}
            (Some(x), Some(y)) => {
                let (a0, a1) = (*x.apid.as_buf(), *y.apid.as_buf());
                let (c0, c1) = (*x.ctid.as_buf(), *y.ctid.as_buf());
                if *ap_f.entry((e0, a0)).or_insert(a1) != a1 {
                    ctx.violation("anon_functional", "apid", cj, format!("position {i}: ECU {:?} APID {:?} mapped to {:?} and to {:?}", a.ecu, x.apid, DltChar4::from_buf(&ap_f[&(e0, a0)]), y.apid));
                    return None;
                }
                if *ap_b.entry((e0, a1)).or_insert(a0) != a0 {
                    ctx.violation("anon_injective", "apid", cj, format!("position {i}: ECU {:?}: APIDs {:?} and {:?} share the pseudonym {:?}", a.ecu, DltChar4::from_buf(&ap_b[&(e0, a1)]), x.apid, y.apid));
                    return None;
                }
                if *ct_f.entry((e0, a0, c0)).or_insert(c1) != c1 {
                    ctx.violation("anon_functional", "ctid", cj, format!("position {i}: ECU {:?} APID {:?} CTID {:?} mapped to {:?} and to {:?}", a.ecu, x.apid, x.ctid, DltChar4::from_buf(&ct_f[&(e0, a0, c0)]), y.ctid));
                    return None;
                }
                if *ct_b.entry((e0, a0, c1)).or_insert(c0) != c0 {
                    ctx.violation("anon_injective", "ctid", cj, format!("position {i}: ECU {:?} APID {:?}: CTIDs {:?} and {:?} share the pseudonym {:?}", a.ecu, x.apid, DltChar4::from_buf(&ct_b[&(e0, a0, c1)]), x.ctid, y.ctid));
                    return None;
                }
            }
            _ => {
                ctx.violation("anon_ext_header_presence", "", cj, format!("position {i}: extended header {:?} -> {:?}", a.extended_header, b.extended_header));
                return None;
            }
        }
    }
    let nt = ecu_f.len() > 1 || ap_f.len() > 1 || ct_f.len() > 1;
    Some((ecu_f, nt))
}

fn id_shape(shape: usize, n: usize, total: usize, letter: u8) -> [u8; 4] {
    match shape {
        // the original ids are pseudonym-shaped themselves, in descending order (adversarial for a counter scheme)
        0 => {
            let s = format!("{}{:03}", letter as char, total - n);
            s.as_bytes().try_into().unwrap()
        }
        // binary ids with zero bytes / non-printable bytes
        1 => (n as u32 + 1).to_le_bytes(),
        // letters, same names for ecu / apid / ctid
        _ => [b'A' + ((n / 17576) % 26) as u8, b'A' + ((n / 676) % 26) as u8, b'A' + ((n / 26) % 26) as u8, b'A' + (n % 26) as u8],
    }
}

/// id population stream: every (ecu, apid, ctid) triple is visited twice; every 5th message carries no extended header
fn anon_ids_stream(shape: usize, order: usize, ne: usize, na: usize, nc: usize) -> Vec<DltMessage> {
    let total = ne * na * nc;
    let mut visit: Vec<usize> = Vec::with_capacity(2 * total);
    match order {
        0 => {
            visit.extend(0..total);
            visit.extend(0..total);
        }
        1 => {
            for t in 0..total {
                visit.push(t);
                visit.push(t);
            }
        }
        _ => {
            visit.extend(0..total);
            visit.extend((0..total).rev());
        }
    }
    let payload = A::new(false).utf8(b"secret");
    visit
        .iter()
        .enumerate()
        .map(|(pos, tr)| {
            let (e, a, c) = (tr % ne, (tr / ne) % na, tr / (ne * na));
            let ext = if pos % 5 == 4 {
                None
            } else {
                Some((V_LOG_INFO, payload.n, id_shape(shape, a, na, b'A'), id_shape(shape, c, nc, b'C')))
            };
            let tp = T {
                tag: String::new(),
                ecu: id_shape(shape, e, ne, b'E'),
                be: false,
                ext,
                payload: if ext.is_some() { payload.b.clone() } else { vec![1, 2, 3, 4, 5] },
                text: None,
                with_tmsp: pos % 7 != 6,
            };
            build(&tp, pos)
        })
        .collect()
}

fn anon_ids_case(ctx: &mut Ctx, shape: usize, order: usize, ne: usize, na: usize, nc: usize) {
    let msgs = anon_ids_stream(shape, order, ne, na, nc);
    let res = run_chain(&[PSpec::Anon], &msgs);
    ctx.transitions(msgs.len() as u64);
    let cj = || json!({"family":"anon_ids","shape":shape,"order":order,"n_ecu":ne,"n_apid":na,"n_ctid":nc});
    if ne == 999 {
        ctx.landmark("anon_capacity_999_ecus");
    }
    if na == 999 {
        ctx.landmark("anon_capacity_999_apids");
    }
    if nc == 999 {
        ctx.landmark("anon_capacity_999_ctids");
    }
    let r = judge_anon(ctx, &msgs, &res, &cj);
    if r.is_some() {
        if let Ok(out) = &res {
            let mut s = String::new();
            for m in out.iter().take(64) {
                s.push_str(&format!("{:?}{:?}", m.ecu, m.extended_header));
            }
            ctx.outcome(fnv_str(&s));
        }
    }
    ctx.eval(r.is_some_and(|x| x.1));
    ctx.sample(cj);
}

/// canonical lifecycle view: per-message assignment (ids by first appearance in index order) + table rows
type LcView = (Vec<(u32, u32)>, Vec<(u32, String, u64, u64, u32)>);
fn lc_view(r: &lc::RunResult, ecu_map: Option<&EcuMap>) -> LcView {
    let mut by_index: Vec<(u32, u32)> = r.delivered.iter().map(|(m, _)| (m.index, m.lifecycle)).collect();
    by_index.sort();
    let mut canon: BTreeMap<u32, u32> = BTreeMap::new();
    for (_, l) in &by_index {
        let k = canon.len() as u32 + 1;
        canon.entry(*l).or_insert(k);
    }
    let assign: Vec<(u32, u32)> = by_index.iter().map(|(i, l)| (*i, canon[l])).collect();
    let mut rows: Vec<(u32, String, u64, u64, u32)> = r
        .table
        .values()
        .map(|l| {
            let ecu = match ecu_map {
                Some(m) => m.get(&l.ecu).copied().unwrap_or(l.ecu),
                None => l.ecu,
            };
            (canon.get(&l.id).copied().unwrap_or(0), c4s(&DltChar4::from_buf(&ecu)), l.start, l.end, l.nr_msgs)
        })
        .collect();
    rows.sort();
    (assign, rows)
}

const N_DECO: usize = 5;
/// turn one message of a lifecycle stream into a shape that takes another branch of the anonymiser
fn decorate(m: &mut DltMessage, kind: usize) {
    let hdr = |m: &mut DltMessage, vmm: Option<u8>, payload: Vec<u8>| {
        match vmm {
            Some(v) => {
                if let Some(e) = m.extended_header.as_mut() {
                    e.verb_mstp_mtin = v;
                }
            }
            None => {
                m.extended_header = None;
                m.standard_header.htyp &= !UEH;
            }
        }
        let mut len = 8 + payload.len();
        if m.standard_header.htyp & WTMS != 0 {
            len += 4;
        }
        if m.extended_header.is_some() {
            len += 10;
        }
        m.standard_header.len = len as u16;
        m.payload = payload;
    };
    match kind {
        0 => hdr(m, Some(NV_CTRL_RESP), vec![19, 0, 0, 0, 0, 4, 0, 0, 0, b'v', b'1', b'.', b'2']),
        1 => hdr(m, Some(NV_CTRL_RESP), vec![3, 0, 0, 0, 7, 1, 0, b'A', b'P', b'I', b'D', 0, 0, 0, 0]),
        2 => hdr(m, Some(NV_LOG_INFO), vec![1, 2, 3, 4, 5, 6, 7, 8]),
        3 => hdr(m, None, vec![1, 2, 3, 4, 5, 6]),
        _ => hdr(m, Some(V_CTRL_RESP), A::new(false).u32v(19).u8v(0).utf8(b"v1").b),
    }
}

/// write the messages as a DLT file image with adlt's writer and parse them back (what `convert -o` + re-open do)
fn write_and_reparse(msgs: &[DltMessage]) -> Result<Vec<DltMessage>, String> {
    let r = catch(|| -> Result<Vec<DltMessage>, String> {
        let mut out = Vec::with_capacity(msgs.len());
        for m in msgs {
            let mut buf: Vec<u8> = Vec::with_capacity(64);
            m.to_write(&mut buf).map_err(|e| format!("write: {e}"))?;
            let (used, p) = adlt::dlt::parse_dlt_with_storage_header(m.index, &buf).map_err(|e| format!("parse: {e}"))?;
            if used != buf.len() {
                return Err(format!("parse consumed {used} of {} bytes", buf.len()));
            }
            out.push(p);
        }
        Ok(out)
    });
    match r {
        Ok(x) => x,
        Err(p) => Err(format!("panic at {}: {}", p.loc, p.msg)),
    }
}

fn anon_lc_case(ctx: &mut Ctx, family: &str, uptime0: u64, syms: &[lc::Sym], deco: Option<(usize, usize)>, roundtrip: bool) {
    let mut msgs = lc::gen_stream(syms, uptime0);
    if let Some((pos, kind)) = deco {
        decorate(&mut msgs[pos], kind);
    }
    if roundtrip {
        // the reference is the original trace as a file would hold it
        match write_and_reparse(&msgs) {
            Ok(m) => msgs = m,
            Err(_) => {
                ctx.landmark("roundtrip_original_not_writable(skipped)");
                ctx.eval(false);
                return;
            }
        }
    }
    let cj = || json!({"family": family, "uptime0_ms": uptime0, "deco": deco.map(|(p, k)| vec![p, k]), "roundtrip": roundtrip, "events": syms.iter().map(|s| s.name()).collect::<Vec<_>>()});
    let r0 = lc::run_stage(&[&msgs]);
    let mut nt = false;
    if let Ok(a) = &r0 {
        let mut per_ecu: BTreeMap<[u8; 4], u32> = BTreeMap::new();
        for l in a.table.values() {
            *per_ecu.entry(l.ecu).or_default() += 1;
        }
        if per_ecu.len() >= 2 {
            ctx.landmark("anon_lc_two_ecus");
            nt = true;
        }
        if per_ecu.values().any(|c| *c >= 2) {
            ctx.landmark("anon_lc_multi_lc_one_ecu");
            nt = true;
        }
    }
    let res = run_chain(&[PSpec::Anon], &msgs);
    ctx.transitions(3 * msgs.len() as u64);
    let (ecu_map, _) = match judge_anon(ctx, &msgs, &res, &cj) {
        Some(x) => x,
        None => {
            ctx.eval(true);
            return;
        }
    };
    let mut anon = res.unwrap();
    if roundtrip {
        match write_and_reparse(&anon) {
            Ok(m) => anon = m,
            Err(e) => {
                ctx.violation("anon_lc_differs", "anonymised_not_writable", cj, e);
                ctx.eval(true);
                return;
            }
        }
    }
    let r1 = lc::run_stage(&[&anon]);
    match (&r0, &r1) {
        (Err(a), Err(b)) => {
            // the detector dies on the original already (C05 matter): nothing to compare against
            ctx.landmark("anon_lc_detector_panics_on_both");
            if a.loc != b.loc {
                ctx.violation("anon_lc_differs", "panic_location", cj, format!("original: {} anonymised: {}", a.loc, b.loc));
            }
        }
        (Err(a), Ok(_)) => ctx.violation("anon_lc_differs", "panic_only_original", cj, format!("detector panics at {} on the original only", a.loc)),
        (Ok(_), Err(b)) => ctx.violation("anon_lc_differs", "panic_only_anonymised", cj, format!("detector panics at {} on the anonymised stream only", b.loc)),
        (Ok(a), Ok(b)) => {
            let va = lc_view(a, Some(&ecu_map));
            let vb = lc_view(b, None);
            ctx.outcome(fnv_str(&format!("{:?}", va)));
            if va.0 != vb.0 {
                ctx.violation("anon_lc_differs", "assignment", cj, format!("(index, lifecycle#) original {:?} anonymised {:?}", va.0, vb.0));
            } else if va.1 != vb.1 {
                let d = if va.1.len() != vb.1.len() {
                    "table_size"
                } else if va.1.iter().zip(vb.1.iter()).any(|(x, y)| x.4 != y.4) {
                    "nr_msgs"
                } else {
                    "boundaries"
                };
                ctx.violation("anon_lc_differs", d, cj, format!("(lc#, ecu, start, end, nr_msgs) original(ecu mapped) {:?} anonymised {:?}", va.1, vb.1));
            }
        }
    }
    ctx.eval(nt);
    ctx.sample(cj);
}

// ------------------------------------------------------------------------------------------------ file transfer scenario
fn ft_pool() -> Vec<T> {
    let ft = |tag: &str, apid: &[u8; 4], ctid: &[u8; 4], a: A| tv(tag, b"ECU1", V_LOG_INFO, apid, ctid, a);
    let mut v = vec![
        ft("ft_plain", b"FT\0\0", b"FILE", A::new(false).utf8(b"just a log")),
        ft("ft_flst", b"FT\0\0", b"FILE", A::new(false).s(b"FLST").u32v(1).s(b"a.bin").u32v(6).s(b"2024").u32v(2).u16v(4).s(b"FLST")),
        ft("flda_1", b"FT\0\0", b"FILE", A::new(false).s(b"FLDA").u32v(1).i32v(1).raw(&[1, 2, 3, 4]).s(b"FLDA")),
        // the announcement repeated while the transfer is running (a re-sent announcement is not a data package)
        ft("ft_flst_again", b"FT\0\0", b"FILE", A::new(false).s(b"FLST").u32v(1).s(b"a.bin").u32v(6).s(b"2024").u32v(2).u16v(4).s(b"FLST")),
        ft("flda_2", b"FT\0\0", b"FILE", A::new(false).s(b"FLDA").u32v(1).i32v(2).raw(&[5, 6]).s(b"FLDA")),
        ft("ft_flfi", b"FT\0\0", b"FILE", A::new(false).s(b"FLFI").u32v(1).s(b"FLFI")),
        ft("flda_orphan", b"FT\0\0", b"FILE", A::new(false).s(b"FLDA").u32v(9).i32v(2).raw(&[7]).s(b"FLDA")),
        ft("flda_other_apid", b"APP\0", b"CTX\0", A::new(false).s(b"FLDA").u32v(1).i32v(1).raw(&[1, 2, 3, 4]).s(b"FLDA")),
        ft("ft_text_FLDA", b"FT\0\0", b"FILE", A::new(false).s(b"FLDA")),
    ];
    // looks like FLDA but announces 4 arguments -> not a data package
    let mut x = ft("ft_noar4_lookalike", b"FT\0\0", b"FILE", A::new(false).s(b"FLDA").u32v(1).i32v(1).raw(&[1]).s(b"FLDA"));
    x.ext.as_mut().unwrap().1 = 4;
    v.push(x);
    // messages without an extended header (no APID/CTID at all): never FLDA whatever the plugin's id filter says
    v.push(t("ft_no_ext_header", b"ECU1", None, vec![1, 2, 3, 4, 5]));
    v.push(t("ft_no_ext_header_flda_bytes", b"ECU1", None, A::new(false).s(b"FLDA").u32v(1).i32v(1).raw(&[1, 2, 3, 4]).s(b"FLDA").b.clone()));
    v
}
fn ft_cfgs() -> Vec<Value> {
    let mut v = vec![];
    for keep in [false, true] {
        for save in [false, true] {
            v.push(json!({"keepFLDA": keep, "allowSave": save}));
            v.push(json!({"keepFLDA": keep, "allowSave": save, "apid":"FT", "ctid":"FILE"}));
        }
        // id filter on one of the two ids only
        v.push(json!({"keepFLDA": keep, "allowSave": false, "apid":"FT"}));
        v.push(json!({"keepFLDA": keep, "allowSave": false, "ctid":"FILE"}));
    }
    v
}

// ------------------------------------------------------------------------------------------------ Prop
pub struct C19;

fn dec_chain(c: &[Pk]) -> Vec<PSpec> {
    c.iter().map(|p| PSpec::Dec(*p)).collect()
}

macro_rules! tick {
    ($ctx:expr, $n:expr) => {
        if $ctx.sum.evaluations % $n == 0 && $ctx.out_of_time() {
            $ctx.end_family(false);
            return;
        }
    };
}

/// `adlt convert --anon -o` through the binary: the anonymised export must keep all times and the lifecycle structure
fn cli_anon_family(ctx: &mut Ctx) {
    ctx.begin_family("cli_anon", "adlt convert --anon -o on the 4 generated C14 input files (every 6th file order): re-read, compare times, id maps and the lifecycles detected by the library on original vs anonymised");
    let w = crate::c14::World::build();
    let orig: Vec<DltMessage> = w.merged.iter().enumerate().map(|(i, m)| crate::core::dltgen::mk_msg(i as u32, &m.ecu, m.recv_us, m.ts_dms, true, Some((0x41, 1, m.apid, m.ctid)), crate::rem::verbose_str_payload(&m.text))).collect();
    let mut perms = vec![];
    crate::core::enumr::permutations(4, |p| {
        perms.push(p.to_vec());
        true
    });
    perms.sort();
    for (pi, perm) in perms.iter().enumerate().filter(|(i, _)| i % 6 == 0) {
        if !ctx.mine() {
            continue;
        }
        let out = format!("{}/anon-{pi}.dlt", w.dir);
        let mut c = std::process::Command::new(crate::rem::adlt_bin());
        c.arg("convert").arg("--anon").arg("-o").arg(&out);
        for i in perm {
            c.arg(&w.files[*i]);
        }
        let cj = || json!({"family": "cli_anon", "file_perm": pi});
        let ok = c.output().map(|o| o.status.success()).unwrap_or(false);
        let bytes = std::fs::read(&out).unwrap_or_default();
        ctx.landmark("cli_anon_case");
        ctx.eval(true);
        if !ok || bytes.is_empty() {
            ctx.violation("cli_anon_failed", "", cj, format!("convert --anon -o failed (ok={ok}, {} bytes)", bytes.len()));
            continue;
        }
        let anon: Vec<DltMessage> = adlt::utils::DltMessageIterator::new(0, &bytes[..]).collect();
        if anon.len() != orig.len() {
            ctx.violation("anon_count", "cli", cj, format!("{} messages exported for {}", anon.len(), orig.len()));
            continue;
        }
        let mut emap: EcuMap = BTreeMap::new();
        let mut rev: BTreeMap<[u8; 4], [u8; 4]> = BTreeMap::new();
        let mut bad = None;
        for (o, a) in orig.iter().zip(anon.iter()) {
            if o.reception_time_us != a.reception_time_us || o.timestamp_dms != a.timestamp_dms {
                bad = Some(("anon_time", format!("message {}: times changed", o.index)));
                break;
            }
            let (oe, ae) = (*o.ecu.as_buf(), *a.ecu.as_buf());
            if *emap.entry(oe).or_insert(ae) != ae {
                bad = Some(("anon_functional", format!("ECU {:?} mapped to two pseudonyms", oe)));
                break;
            }
            if *rev.entry(ae).or_insert(oe) != oe {
                bad = Some(("anon_injective", format!("pseudonym {:?} used for two ECUs", ae)));
                break;
            }
        }
        if let Some((c, d)) = bad {
            ctx.violation(c, "cli", cj, d);
            continue;
        }
        let (ro, ra) = (lc::run_stage(&[&orig]), lc::run_stage(&[&anon]));
        match (ro, ra) {
            (Ok(ro), Ok(ra)) => {
                if lc_view(&ro, Some(&emap)) != lc_view(&ra, None) {
                    ctx.violation("anon_lc_differs", "cli", cj, "lifecycles detected on the anonymised export differ from the original".into());
                }
            }
            _ => ctx.violation("panic", "cli_anon_lifecycle", cj, "lifecycle stage panicked".into()),
        }
    }
    ctx.end_family(true);
    let _ = std::fs::remove_dir_all(&w.dir);
}

impl Prop for C19 {
    fn prepare(&self, _t: Tier) -> Result<(), String> {
        crate::rem::build_adlt_bin()
    }
    fn meta(&self, _tier: Tier) -> Meta {
        Meta {
            id: "C19",
            level: "exploration",
            rule: format!("(1) a pool of {} messages built to hit and to miss each decoding plugin (ids from the repository's FIBEX / Muniic JSON / rewrite.cfg; truncated, odd and cross-plugin shapes) as single messages, ordered pairs, tuples within the stateful plugins' groups, whole-pool streams, every payload prefix and single-byte mutations of the matching messages, pushed through plugins_process_msgs for every ordered subset of {{NonVerbose, SomeIp, CAN, Muniic, Rewrite}} (326 chains; sweeps/pairs/tuples: 7 chains = each plugin alone + all five forward and reversed), plugins built by factory::get_plugin. Oracle: same number and order; index, reception time, ECU, payload bytes, lifecycle, standard header identical; extended header identical unless it was missing; timestamp identical unless changed by Rewrite; a panic is a violation. (2) every sub-stream of a file-transfer scenario x 12 FileTransfer configs (no id filter, APID+CTID, APID only, CTID only x keepFLDA x allowSave), and FileTransfer at every position of the 5-plugin chain: only messages of FLDA shape may be missing, none with keepFLDA. (3) AnonymizePlugin: id populations up to 999 ECUs / APIDs per ECU / CTIDs per APID (3 id shapes x 3 visiting orders): pseudonym maps functional and injective, times untouched, count and order kept; every stream of the lifecycle explorer's full-depth family (plus variants with control responses / non-verbose / header-less messages, and a variant where original and anonymised stream are written with DltMessage::to_write and parsed back): lifecycle table (ECU mapped through the pseudonym map, start, end, nr_msgs) and per-message lifecycle assignment identical on original and anonymised stream. Non-trivial = at least one message changed / more than one id / more than one lifecycle or ECU.", pool().len()),
            assumptions: vec![
                "plugin configurations are the ones the repository ships under /repo/tests (fibex1.xml, non_verbose*.xml, muniic/min.json, rewrite.cfg); no CAN channel description exists there, so CAN frames are rendered without signal decoding".into(),
                "pseudonym capacity is 999 per counter (3 digits); from the 1000th id on 'E1000' is cut to 'E100' and collides - recorded as coverage.beyond_capacity, not judged".into(),
                "APID pseudonyms are judged within their ECU and CTID pseudonyms within their ECU+APID (the scheme restarts its counters per ECU / per APID)".into(),
                "lifecycle comparison uses the library's detector (parse_lifecycles_buffered_from_stream) in-process; the written-and-reparsed variant uses DltMessage::to_write + parse_dlt_with_storage_header; the adlt binary (convert --anon -o) itself is not run by this module".into(),
                "if the lifecycle detector panics on the original stream already (C05 matter) the case is counted under anon_lc_detector_panics_on_both and not compared".into(),
            ],
            budget_s: (90, 1200),
            workers: 0,
            required_landmarks: vec!["cli_anon_case", 
                "decoded:NonVerbose", "decoded:SomeIp", "decoded:CAN", "decoded:Muniic", "decoded:Rewrite",
                "not_matching:NonVerbose", "not_matching:SomeIp", "not_matching:CAN", "not_matching:Muniic", "not_matching:Rewrite",
                "rewrite_timestamp_changed", "ext_header_filled", "ft_flda_dropped", "ft_flda_kept",
                "anon_capacity_999_ecus", "anon_capacity_999_apids", "anon_capacity_999_ctids",
                "anon_lc_two_ecus", "anon_lc_multi_lc_one_ecu",
            ],
        }
    }

    fn run(&self, ctx: &mut Ctx) {
        cli_anon_family(ctx);
        let pool = pool();
        if std::env::var("C19_DUMP").is_ok() {
            // diagnostic aid: what each plugin alone makes of each pool message
            if ctx.shard == 0 {
                for tp in &pool {
                    for p in ALL_PK {
                        let (_, msgs) = compose(&[tp]);
                        match run_chain(&[PSpec::Dec(p)], &msgs) {
                            Ok(o) if o.len() == 1 && o[0] == msgs[0] => {}
                            Ok(o) => eprintln!("{:22} {:10} -> text={:?} ext={:?} ts={}", tp.tag, p.name(), o.first().map(|m| m.payload_text.clone()), o.first().map(|m| m.extended_header.clone()), o.first().map(|m| m.timestamp_dms).unwrap_or(0)),
                            Err(e) => eprintln!("{:22} {:10} -> PANIC {} {}", tp.tag, p.name(), e.loc, e.msg),
                        }
                    }
                }
            }
            return;
        }
        let by_tag: BTreeMap<&str, &T> = pool.iter().map(|x| (x.tag.as_str(), x)).collect();
        assert_eq!(by_tag.len(), pool.len(), "pool tags must be unique");
        let chains = ordered_subsets();
        assert_eq!(chains.len(), 326);
        let thorough = ctx.tier == Tier::Thorough;
        let n = pool.len();
        let sweeps = sweep_targets();
        let sch = sweep_chains();
        let sig40 = lc::alphabet(40);

        // cheap families first, then by growing cost; inside a family the smallest bound first

        // ---- (2) file transfer: all sub-streams of the scenario x configs
        let ftp = ft_pool();
        ctx.begin_family("file_transfer", &format!("all 2^{} sub-streams (forward and reversed) x {} FileTransfer configs", ftp.len(), ft_cfgs().len()));
        for cfg in ft_cfgs() {
            for mask in 0u32..(1 << ftp.len()) {
                for rev in [false, true] {
                    if ctx.mine() {
                        let mut sel: Vec<&T> = ftp.iter().enumerate().filter(|(i, _)| mask & (1 << i) != 0).map(|(_, x)| x).collect();
                        if rev {
                            sel.reverse();
                        }
                        let (tags, mut msgs) = compose(&sel);
                        // one lifecycle for the whole scenario: the transfer key is (ecu, lifecycle, serial), with
                        // position-dependent lifecycles no package would ever belong to its announcement
                        msgs.iter_mut().for_each(|m| m.lifecycle = 1);
                        run_case(ctx, &Case { family: "file_transfer".into(), chain: vec![PSpec::Ft(cfg.clone())], tags, msgs });
                        tick!(ctx, 1024);
                    }
                }
            }
        }
        ctx.end_family(true);

        // ---- (2b) file transfer: the message type byte of an announcement / data package / end marker look-alike
        ctx.begin_family("file_transfer_type_byte", &format!("FLST, typed look-alike, FLDA 1, FLDA 2, FLFI: the look-alike = FLST / FLDA / FLFI shaped message with every type byte 0..=255 x {} FileTransfer configs", ft_cfgs().len()));
        {
            let by_tag = |n: &str| ftp.iter().find(|x| x.tag == n).expect("pool element");
            for cfg in ft_cfgs() {
                for shape in ["ft_flst", "flda_1", "ft_flfi"] {
                    for vmm in 0..=255u8 {
                        if ctx.mine() {
                            let mut typed = by_tag(shape).clone();
                            typed.tag = format!("{shape}_type_{vmm:02x}");
                            typed.ext.as_mut().unwrap().0 = vmm;
                            let sel: Vec<&T> = vec![by_tag("ft_flst"), &typed, by_tag("flda_1"), by_tag("flda_2"), by_tag("ft_flfi")];
                            let (tags, mut msgs) = compose(&sel);
                            msgs.iter_mut().for_each(|m| m.lifecycle = 1);
                            if vmm != V_LOG_INFO && shape == "flda_1" {
                                ctx.landmark("flda_shaped_other_type");
                            }
                            run_case(ctx, &Case { family: "file_transfer_type_byte".into(), chain: vec![PSpec::Ft(cfg.clone())], tags, msgs });
                            tick!(ctx, 1024);
                        }
                    }
                }
            }
        }
        ctx.end_family(true);

        // ---- (3a) anonymisation: pool messages and id populations
        ctx.begin_family("anon_pool", "each pool message alone and the whole pool through AnonymizePlugin");
        for tp in &pool {
            if ctx.mine() {
                let (tags, msgs) = compose(&[tp]);
                run_case(ctx, &Case { family: "anon_pool".into(), chain: vec![PSpec::Anon], tags, msgs });
            }
        }
        if ctx.mine() {
            // without the messages that make the plugin panic when alone, so that the rest of the pool is exercised too
            let all: Vec<&T> = pool.iter().filter(|x| !x.tag.starts_with("g_ctrl_resp_v_bool")).collect();
            let (tags, msgs) = compose(&all);
            run_case(ctx, &Case { family: "anon_pool".into(), chain: vec![PSpec::Anon], tags, msgs });
        }
        ctx.end_family(true);

        let sizes: Vec<usize> = if thorough {
            (1..=999).collect()
        } else {
            (1..=24).chain([32, 64, 100, 101, 128, 256, 512, 998, 999]).collect()
        };
        ctx.begin_family("anon_ids", &format!("product 1..=4 ^3, then {} population sizes of 1..=999 per dimension (ECUs | APIDs per ECU | CTIDs per APID) x other dimensions in {{1,2}}; each x 3 id shapes x 3 visiting orders", sizes.len()));
        for shape in 0..3 {
            for order in 0..3 {
                for ne in 1..=4usize {
                    for na in 1..=4usize {
                        for nc in 1..=4usize {
                            if ctx.mine() {
                                anon_ids_case(ctx, shape, order, ne, na, nc);
                            }
                        }
                    }
                }
            }
        }
        // the capacity itself first, then the sizes upward
        for n in [999usize].iter().chain(sizes.iter()) {
            for shape in 0..3 {
                for order in 0..3 {
                    for other in [1usize, 2] {
                        for dim in 0..3 {
                            if ctx.mine() {
                                let (ne, na, nc) = match dim {
                                    0 => (*n, other, other),
                                    1 => (other, *n, other),
                                    _ => (other, other, *n),
                                };
                                anon_ids_case(ctx, shape, order, ne, na, nc);
                                tick!(ctx, 64);
                            }
                        }
                    }
                }
            }
        }
        // beyond the capacity: informational only
        if ctx.mine() {
            let mut note = vec![];
            for (dim, (ne, na, nc)) in [(1000usize, 1usize, 1usize), (1, 1000, 1), (1, 1, 1000)].iter().enumerate() {
                let msgs = anon_ids_stream(2, 1, *ne, *na, *nc);
                if let Ok(out) = run_chain(&[PSpec::Anon], &msgs) {
                    let key = |m: &DltMessage| match dim {
                        0 => Some(*m.ecu.as_buf()),
                        1 => m.extended_header.as_ref().map(|e| *e.apid.as_buf()),
                        _ => m.extended_header.as_ref().map(|e| *e.ctid.as_buf()),
                    };
                    let mut inj: BTreeMap<[u8; 4], [u8; 4]> = BTreeMap::new();
                    let mut coll = None;
                    for (a, b) in msgs.iter().zip(out.iter()) {
                        if let (Some(k0), Some(k1)) = (key(a), key(b)) {
                            if *inj.entry(k1).or_insert(k0) != k0 && coll.is_none() {
                                coll = Some(format!("{:?} and {:?} -> {:?}", DltChar4::from_buf(&inj[&k1]), DltChar4::from_buf(&k0), DltChar4::from_buf(&k1)));
                            }
                        }
                    }
                    let dname = ["ecu", "apid", "ctid"][dim];
                    note.push(json!({"dimension": dname, "ids": 1000, "first_collision": coll}));
                }
            }
            ctx.extra_set("beyond_capacity", json!(note));
        }
        ctx.end_family(true);

        // ---- (3b) anonymisation vs. lifecycle detection: the lifecycle explorer's full-depth family, depth 1..2 here
        let lc_full = |ctx: &mut Ctx, d: usize, up: u64, roundtrip: bool| -> bool {
            let fam = if roundtrip { "anon_lc_roundtrip" } else { "anon_lc_full_depth" };
            ctx.begin_family(fam, &format!("depth={d} sigma=40 uptime0={up}ms"));
            let mut syms = vec![sig40[0]; d];
            let done = enumr::sequences(d, sig40.len(), |ix| {
                if ctx.mine() {
                    for (i, x) in ix.iter().enumerate() {
                        syms[i] = sig40[*x];
                    }
                    anon_lc_case(ctx, fam, up, &syms, None, roundtrip);
                    if ctx.sum.evaluations % 2048 == 0 && ctx.out_of_time() {
                        return false;
                    }
                }
                true
            });
            ctx.end_family(done);
            done
        };
        for d in 1..=2 {
            if !lc_full(ctx, d, 20_000, false) {
                return;
            }
        }

        // ---- (1a) single messages x all 326 chains (chains by growing size)
        ctx.begin_family("chain_single_msg", &format!("326 ordered plugin subsets (by size) x {} pool messages", n));
        for ch in &chains {
            for tp in &pool {
                if ctx.mine() {
                    let (tags, msgs) = compose(&[tp]);
                    run_case(ctx, &Case { family: "chain_single_msg".into(), chain: dec_chain(ch), tags, msgs });
                    tick!(ctx, 256);
                }
            }
        }
        ctx.end_family(true);

        ctx.begin_family("file_transfer_in_chain", "FileTransfer (keepFLDA false/true) at each of the 6 positions of the 5-plugin chain x pool + scenario stream");
        {
            let all: Vec<&T> = pool.iter().chain(ftp.iter()).collect();
            for keep in [false, true] {
                for pos in 0..=5usize {
                    if ctx.mine() {
                        let mut chain = dec_chain(&ALL_PK);
                        chain.insert(pos, PSpec::Ft(json!({"keepFLDA": keep, "allowSave": false})));
                        let (tags, msgs) = compose(&all);
                        run_case(ctx, &Case { family: "file_transfer_in_chain".into(), chain, tags, msgs });
                    }
                }
            }
        }
        ctx.end_family(true);

        // ---- (3b cont.) depth 3 (thorough: 4, two initial uptimes), written-and-reparsed variant, decorated variant
        let maxd = ctx.tier.pick(3, 4);
        for d in 3..=maxd {
            if !lc_full(ctx, d, 20_000, false) {
                return;
            }
        }
        if thorough {
            for d in 1..=maxd {
                if !lc_full(ctx, d, 500, false) {
                    return;
                }
            }
        }
        for d in 1..=ctx.tier.pick(2, 3) {
            if !lc_full(ctx, d, 20_000, true) {
                return;
            }
        }
        for d in 1..=ctx.tier.pick(2, 3) {
            ctx.begin_family("anon_lc_decorated", &format!("depth={d} sigma=40 uptime0=20000ms x every position x {N_DECO} message shapes (ctrl responses sw-version / log-info, non-verbose, no extended header, verbose ctrl response)"));
            let mut syms = vec![sig40[0]; d];
            let done = enumr::sequences(d, sig40.len(), |ix| {
                for pos in 0..d {
                    for kind in 0..N_DECO {
                        if ctx.mine() {
                            for (i, x) in ix.iter().enumerate() {
                                syms[i] = sig40[*x];
                            }
                            anon_lc_case(ctx, "anon_lc_decorated", 20_000, &syms, Some((pos, kind)), false);
                        }
                    }
                }
                !(ctx.sum.evaluations % 2048 == 0 && ctx.out_of_time())
            });
            ctx.end_family(done);
            if !done {
                return;
            }
        }

        // ---- (1b) truncation sweep: every payload prefix of the matching messages x 7 chains
        ctx.begin_family("chain_truncation", &format!("{} target messages (with their prerequisite messages) x every payload prefix x 7 chains", sweeps.len()));
        for (tag, pre) in &sweeps {
            let tp = by_tag[tag];
            for cut in 0..tp.payload.len() {
                for ch in &sch {
                    if ctx.mine() {
                        let mut x = (*tp).clone();
                        x.payload.truncate(cut);
                        x.tag = format!("{tag}[..{cut}]");
                        let mut sel: Vec<&T> = pre.iter().map(|p| by_tag[p]).collect();
                        sel.push(&x);
                        let (tags, msgs) = compose(&sel);
                        run_case(ctx, &Case { family: "chain_truncation".into(), chain: dec_chain(ch), tags, msgs });
                        tick!(ctx, 256);
                    }
                }
            }
        }
        ctx.end_family(true);

        // ---- (1c) whole-pool streams x all 326 chains
        let mut orders: Vec<(String, Vec<usize>)> = vec![
            ("forward".into(), (0..n).collect()),
            ("reversed".into(), (0..n).rev().collect()),
        ];
        // a permutation by a prime stride that does not divide the pool size
        let stride = [7usize, 11, 13, 17].into_iter().find(|p| n % p != 0).expect("stride");
        orders.push((format!("stride{stride}"), (0..n).map(|i| (i * stride) % n).collect()));
        if thorough {
            for r in 1..n {
                orders.push((format!("rot{r}"), (0..n).map(|i| (i + r) % n).collect()));
            }
        }
        ctx.begin_family("chain_pool_stream", &format!("{} orders (forward, reversed, prime stride{}) of the {}-message pool x 326 ordered plugin subsets", orders.len(), if thorough { ", every rotation" } else { "" }, n));
        for (_name, ord) in &orders {
            for ch in &chains {
                if ctx.mine() {
                    let sel: Vec<&T> = ord.iter().map(|i| &pool[*i]).collect();
                    let (tags, msgs) = compose(&sel);
                    run_case(ctx, &Case { family: "chain_pool_stream".into(), chain: dec_chain(ch), tags, msgs });
                    tick!(ctx, 64);
                }
            }
        }
        ctx.end_family(true);

        // ---- (1d) triples (thorough: quadruples) within each stateful plugin's message group x 7 chains
        let tuple_len = ctx.tier.pick(3, 4);
        let groups: Vec<(&str, Vec<&T>)> = ["sip_nw", "can_", "mu_"].iter().map(|pre| (*pre, pool.iter().filter(|x| x.tag.starts_with(pre)).collect())).collect();
        ctx.begin_family("chain_group_tuples", &format!("all {tuple_len}-tuples within the groups {:?} x 7 chains", groups.iter().map(|(p, g)| format!("{p}*:{}", g.len())).collect::<Vec<_>>()));
        for (_, g) in &groups {
            let done = enumr::sequences(tuple_len, g.len(), |ix| {
                for ch in &sch {
                    if ctx.mine() {
                        let sel: Vec<&T> = ix.iter().map(|i| g[*i]).collect();
                        let (tags, msgs) = compose(&sel);
                        run_case(ctx, &Case { family: "chain_group_tuples".into(), chain: dec_chain(ch), tags, msgs });
                    }
                }
                !(ctx.sum.evaluations % 256 == 0 && ctx.out_of_time())
            });
            if !done {
                ctx.end_family(false);
                return;
            }
        }
        ctx.end_family(true);

        // ---- (1e) ordered pairs of pool messages x 7 chains (state carried from one message to the next)
        ctx.begin_family("chain_pairs", &format!("{}^2 ordered pairs of pool messages x 7 chains", n));
        for a in &pool {
            for b in &pool {
                for ch in &sch {
                    if ctx.mine() {
                        let (tags, msgs) = compose(&[a, b]);
                        run_case(ctx, &Case { family: "chain_pairs".into(), chain: dec_chain(ch), tags, msgs });
                        tick!(ctx, 256);
                    }
                }
            }
        }
        ctx.end_family(true);

        // ---- (1f) single-byte mutations of the matching messages x 7 chains
        let muts: &[u8] = ctx.tier.pick(&[0x00, 0xff][..], &[0x00, 0xff, 0x01, 0x80, 0x7f][..]);
        ctx.begin_family("chain_byte_mutation", &format!("{} target messages x every payload byte x set to 00/ff{} x 7 chains", sweeps.len(), if thorough { ", xor 01/80/7f" } else { "" }));
        for (tag, pre) in &sweeps {
            let tp = by_tag[tag];
            for pos in 0..tp.payload.len() {
                for (mi, mv) in muts.iter().enumerate() {
                    // first two are absolute values, the others are xor masks
                    let nb = if mi < 2 { *mv } else { tp.payload[pos] ^ *mv };
                    if nb == tp.payload[pos] {
                        continue;
                    }
                    for ch in &sch {
                        if ctx.mine() {
                            let mut x = (*tp).clone();
                            x.payload[pos] = nb;
                            x.tag = format!("{tag}[{pos}]={nb:02x}");
                            let mut sel: Vec<&T> = pre.iter().map(|p| by_tag[p]).collect();
                            sel.push(&x);
                            let (tags, msgs) = compose(&sel);
                            run_case(ctx, &Case { family: "chain_byte_mutation".into(), chain: dec_chain(ch), tags, msgs });
                            tick!(ctx, 256);
                        }
                    }
                }
            }
        }
        ctx.end_family(true);

        // ---- thorough only: deviation-bounded lifecycle family through the anonymiser
        if thorough {
            let sig48 = lc::alphabet(48);
            for (len, ks) in [(10usize, vec![0usize, 1, 2]), (8, vec![3])] {
                for k in ks {
                    ctx.begin_family("anon_lc_deviation_bounded", &format!("L={len} k={k} sigma=48 uptime0=20000ms"));
                    let mut syms = vec![sig48[0]; len];
                    let done = enumr::deviations_exact(len, k, sig48.len(), 0, &mut |ix| {
                        if ctx.mine() {
                            for (i, x) in ix.iter().enumerate() {
                                syms[i] = sig48[*x];
                            }
                            anon_lc_case(ctx, "anon_lc_deviation_bounded", 20_000, &syms, None, false);
                            if ctx.sum.evaluations % 2048 == 0 && ctx.out_of_time() {
                                return false;
                            }
                        }
                        true
                    });
                    ctx.end_family(done);
                    if !done {
                        return;
                    }
                }
            }
        }
    }

    fn replay(&self, case: &Value, ctx: &mut Ctx) {
        let fam = case["family"].as_str().unwrap_or("");
        ctx.mine();
        if fam == "anon_ids" {
            let g = |k: &str| case[k].as_u64().expect("anon_ids field") as usize;
            anon_ids_case(ctx, g("shape"), g("order"), g("n_ecu"), g("n_apid"), g("n_ctid"));
        } else if fam.starts_with("anon_lc") {
            let syms: Vec<lc::Sym> = case["events"]
                .as_array()
                .expect("events")
                .iter()
                .map(|s| lc::Sym::parse(s.as_str().unwrap()).expect("symbol"))
                .collect();
            let up = case["uptime0_ms"].as_u64().unwrap_or(20_000);
            let deco = case["deco"].as_array().map(|d| (d[0].as_u64().unwrap() as usize, d[1].as_u64().unwrap() as usize));
            anon_lc_case(ctx, fam, up, &syms, deco, case["roundtrip"].as_bool().unwrap_or(false));
        } else {
            let c = Case::from_json(case);
            run_case(ctx, &c);
        }
    }
}
