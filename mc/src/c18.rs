//! C18 — verbose payload encode/decode agreement, canonical text, prefix property under truncation / corruption.
//!
//! Every case is executed on the real adlt code: the encoders `adlt::utils::payload_from_args` (both byte orders),
//! the serde `Serializer` (`add_to_serializer`/`to_payload`) and the `dlt_args!` macro (native order), the decoder
//! `for arg in &msg` (DltMessageArgIterator) and `DltMessage::payload_as_text`.
//! The reference model (expected type-info / raw bytes / canonical text matcher) is written here from the
//! property statement and the DLT wire format; it shares no code or constants with adlt.
use crate::core::dltgen::{mk_msg, MSBF};
use crate::core::*;
use adlt::dlt::{DltArg, DltMessage};
use adlt::dlt_args;
use adlt::serde_verb_payload::{add_to_serializer, to_payload, DltVerbArgTypeWrapper, Serializer};
use adlt::utils::payload_from_args;
use serde_json::{json, Value};

// ------------------------------------------------------------------ wire constants (own copy, from the DLT PRS)
const TI_BOOL: u32 = 0x10;
const TI_SINT: u32 = 0x20;
const TI_UINT: u32 = 0x40;
const TI_FLOA: u32 = 0x80;
const TI_STRG: u32 = 0x200;
const TI_RAWD: u32 = 0x400;
const TI_SCOD_UTF8: u32 = 0x8000;
const TYLE_8: u32 = 1;
const TYLE_16: u32 = 2;
const TYLE_32: u32 = 3;
const TYLE_64: u32 = 4;

// ------------------------------------------------------------------ values
/// a byte string given as `fill` repeated `n` times followed by `tail` (keeps long strings short in case JSON)
#[derive(Clone, Debug, PartialEq, Eq)]
pub struct BStr {
    pub fill: u8,
    pub n: usize,
    pub tail: Vec<u8>,
}
impl BStr {
    fn lit(b: &[u8]) -> BStr {
        BStr { fill: 0, n: 0, tail: b.to_vec() }
    }
    fn rep(fill: u8, n: usize, tail: &[u8]) -> BStr {
        BStr { fill, n, tail: tail.to_vec() }
    }
    fn len(&self) -> usize {
        self.n + self.tail.len()
    }
    fn bytes(&self) -> Vec<u8> {
        let mut v = vec![self.fill; self.n];
        v.extend_from_slice(&self.tail);
        v
    }
    fn to_json(&self) -> Value {
        if self.n == 0 {
            json!({ "hex": hex(&self.tail) })
        } else {
            json!({"fill": self.fill, "n": self.n, "tail": hex(&self.tail)})
        }
    }
    fn from_json(v: &Value) -> Option<BStr> {
        if let Some(h) = v.get("hex") {
            return Some(BStr::lit(&unhex(h.as_str()?)));
        }
        Some(BStr {
            fill: v.get("fill")?.as_u64()? as u8,
            n: v.get("n")?.as_u64()? as usize,
            tail: unhex(v.get("tail")?.as_str()?),
        })
    }
}

#[derive(Clone, Debug, PartialEq)]
pub enum Val {
    Bool(bool),
    I8(i8),
    I16(i16),
    I32(i32),
    I64(i64),
    U8(u8),
    U16(u16),
    U32(u32),
    U64(u64),
    /// floats are carried as bit patterns (NaN payloads, -0.0 survive JSON)
    F32(u32),
    F64(u64),
    /// string content; payload_from_args puts it on the wire as is, the serde serializer appends the NUL terminator
    Utf8(BStr),
    Ascii(BStr),
    Raw(BStr),
    /// serde only: a char is serialized as a UTF-8 string
    Char(char),
}

impl Val {
    fn tname(&self) -> &'static str {
        match self {
            Val::Bool(_) => "bool",
            Val::I8(_) => "i8",
            Val::I16(_) => "i16",
            Val::I32(_) => "i32",
            Val::I64(_) => "i64",
            Val::U8(_) => "u8",
            Val::U16(_) => "u16",
            Val::U32(_) => "u32",
            Val::U64(_) => "u64",
            Val::F32(_) => "f32",
            Val::F64(_) => "f64",
            Val::Utf8(_) => "utf8",
            Val::Ascii(_) => "ascii",
            Val::Raw(_) => "raw",
            Val::Char(_) => "char",
        }
    }
    fn to_json(&self) -> Value {
        match self {
            Val::Bool(b) => json!({"t": "bool", "v": b.to_string()}),
            Val::I8(v) => json!({"t": "i8", "v": v.to_string()}),
            Val::I16(v) => json!({"t": "i16", "v": v.to_string()}),
            Val::I32(v) => json!({"t": "i32", "v": v.to_string()}),
            Val::I64(v) => json!({"t": "i64", "v": v.to_string()}),
            Val::U8(v) => json!({"t": "u8", "v": v.to_string()}),
            Val::U16(v) => json!({"t": "u16", "v": v.to_string()}),
            Val::U32(v) => json!({"t": "u32", "v": v.to_string()}),
            Val::U64(v) => json!({"t": "u64", "v": v.to_string()}),
            Val::F32(b) => json!({"t": "f32", "bits": format!("{:08x}", b), "approx": format!("{:e}", f32::from_bits(*b))}),
            Val::F64(b) => json!({"t": "f64", "bits": format!("{:016x}", b), "approx": format!("{:e}", f64::from_bits(*b))}),
            Val::Utf8(s) => json!({"t": "utf8", "s": s.to_json()}),
            Val::Ascii(s) => json!({"t": "ascii", "s": s.to_json()}),
            Val::Raw(s) => json!({"t": "raw", "s": s.to_json()}),
            Val::Char(c) => json!({"t": "char", "v": (*c as u32).to_string()}),
        }
    }
    fn from_json(j: &Value) -> Option<Val> {
        let t = j.get("t")?.as_str()?;
        let v = || j.get("v").and_then(|x| x.as_str());
        Some(match t {
            "bool" => Val::Bool(v()? == "true"),
            "i8" => Val::I8(v()?.parse().ok()?),
            "i16" => Val::I16(v()?.parse().ok()?),
            "i32" => Val::I32(v()?.parse().ok()?),
            "i64" => Val::I64(v()?.parse().ok()?),
            "u8" => Val::U8(v()?.parse().ok()?),
            "u16" => Val::U16(v()?.parse().ok()?),
            "u32" => Val::U32(v()?.parse().ok()?),
            "u64" => Val::U64(v()?.parse().ok()?),
            "f32" => Val::F32(u32::from_str_radix(j.get("bits")?.as_str()?, 16).ok()?),
            "f64" => Val::F64(u64::from_str_radix(j.get("bits")?.as_str()?, 16).ok()?),
            "utf8" => Val::Utf8(BStr::from_json(j.get("s")?)?),
            "ascii" => Val::Ascii(BStr::from_json(j.get("s")?)?),
            "raw" => Val::Raw(BStr::from_json(j.get("s")?)?),
            "char" => Val::Char(char::from_u32(v()?.parse().ok()?)?),
            _ => return None,
        })
    }
    fn is_long(&self) -> bool {
        match self {
            Val::Utf8(s) | Val::Ascii(s) | Val::Raw(s) => s.len() > 1000,
            _ => false,
        }
    }
    fn is_empty_strg_rawd(&self) -> bool {
        match self {
            Val::Utf8(s) | Val::Ascii(s) | Val::Raw(s) => s.len() == 0,
            _ => false,
        }
    }
}

/// serde view of a value: dispatches to the matching `serialize_*` of whatever serializer it is given
impl serde::Serialize for Val {
    fn serialize<S: serde::Serializer>(&self, s: S) -> Result<S::Ok, S::Error> {
        match self {
            Val::Bool(v) => s.serialize_bool(*v),
            Val::I8(v) => s.serialize_i8(*v),
            Val::I16(v) => s.serialize_i16(*v),
            Val::I32(v) => s.serialize_i32(*v),
            Val::I64(v) => s.serialize_i64(*v),
            Val::U8(v) => s.serialize_u8(*v),
            Val::U16(v) => s.serialize_u16(*v),
            Val::U32(v) => s.serialize_u32(*v),
            Val::U64(v) => s.serialize_u64(*v),
            Val::F32(b) => s.serialize_f32(f32::from_bits(*b)),
            Val::F64(b) => s.serialize_f64(f64::from_bits(*b)),
            Val::Utf8(b) => {
                let bytes = b.bytes();
                match std::str::from_utf8(&bytes) {
                    Ok(st) => s.serialize_str(st),
                    Err(_) => Err(serde::ser::Error::custom("harness: not a str")),
                }
            }
            Val::Ascii(b) => {
                let bytes = b.bytes();
                DltVerbArgTypeWrapper::DltScodAscii(serde_bytes::Bytes::new(&bytes)).serialize(s)
            }
            Val::Raw(b) => {
                let bytes = b.bytes();
                serde_bytes::Bytes::new(&bytes).serialize(s)
            }
            Val::Char(c) => s.serialize_char(*c),
        }
    }
}

// ------------------------------------------------------------------ encoders
#[derive(Clone, Copy, Debug, PartialEq, Eq)]
pub enum Enc {
    PfaLe,
    PfaBe,
    Serde,
    DltArgs,
}
impl Enc {
    fn name(&self) -> &'static str {
        match self {
            Enc::PfaLe => "payload_from_args_le",
            Enc::PfaBe => "payload_from_args_be",
            Enc::Serde => "serde_serializer",
            Enc::DltArgs => "dlt_args_macro",
        }
    }
    fn parse(s: &str) -> Option<Enc> {
        Some(match s {
            "payload_from_args_le" => Enc::PfaLe,
            "payload_from_args_be" => Enc::PfaBe,
            "serde_serializer" => Enc::Serde,
            "dlt_args_macro" => Enc::DltArgs,
            _ => return None,
        })
    }
    fn is_pfa(&self) -> bool {
        matches!(self, Enc::PfaLe | Enc::PfaBe)
    }
    fn big_endian(&self) -> bool {
        match self {
            Enc::PfaLe => false,
            Enc::PfaBe => true,
            _ => cfg!(target_endian = "big"),
        }
    }
    /// can this encoder express the value at all (API level)?
    fn expressible(&self, v: &Val) -> bool {
        match (self.is_pfa(), v) {
            (true, Val::Char(_)) => false,
            // payload_from_args has no error path: values that do not fit the 16 bit length are outside its domain
            (true, Val::Utf8(s)) | (true, Val::Ascii(s)) | (true, Val::Raw(s)) => s.len() <= 0xffff,
            (false, Val::Utf8(s)) => std::str::from_utf8(&s.bytes()).is_ok(), // a &str cannot hold anything else
            _ => true,
        }
    }
}

/// what must come out of the decoder for `v` encoded by `enc`: (type_info, raw bytes in wire order);
/// None = the value has no wire representation (the encoder has to refuse it)
fn expected_arg(v: &Val, enc: Enc) -> Option<(u32, Vec<u8>)> {
    let be = enc.big_endian();
    macro_rules! num {
        ($x:expr) => {
            if be {
                $x.to_be_bytes().to_vec()
            } else {
                $x.to_le_bytes().to_vec()
            }
        };
    }
    let strg = |ti: u32, s: &BStr, add_nul: bool| {
        let mut b = s.bytes();
        if add_nul {
            b.push(0);
        }
        if b.len() > 0xffff {
            None
        } else {
            Some((ti, b))
        }
    };
    match v {
        Val::Bool(b) => Some((TI_BOOL | TYLE_8, vec![*b as u8])),
        Val::I8(x) => Some((TI_SINT | TYLE_8, num!(x))),
        Val::I16(x) => Some((TI_SINT | TYLE_16, num!(x))),
        Val::I32(x) => Some((TI_SINT | TYLE_32, num!(x))),
        Val::I64(x) => Some((TI_SINT | TYLE_64, num!(x))),
        Val::U8(x) => Some((TI_UINT | TYLE_8, num!(x))),
        Val::U16(x) => Some((TI_UINT | TYLE_16, num!(x))),
        Val::U32(x) => Some((TI_UINT | TYLE_32, num!(x))),
        Val::U64(x) => Some((TI_UINT | TYLE_64, num!(x))),
        Val::F32(x) => Some((TI_FLOA | TYLE_32, num!(x))),
        Val::F64(x) => Some((TI_FLOA | TYLE_64, num!(x))),
        // the serde serializer documents that it NUL-terminates str values ("shall be null terminated")
        Val::Utf8(s) => strg(TI_STRG | TI_SCOD_UTF8, s, !enc.is_pfa()),
        Val::Ascii(s) => strg(TI_STRG, s, false),
        Val::Raw(s) => strg(TI_RAWD, s, false),
        Val::Char(c) => {
            let mut b = c.to_string().into_bytes();
            b.push(0);
            Some((TI_STRG | TI_SCOD_UTF8, b))
        }
    }
}

/// run the real encoder. Ok((noar, payload)) or the encoder's error text
fn encode(vals: &[Val], enc: Enc) -> Result<Result<(usize, Vec<u8>), String>, Panicked> {
    match enc {
        Enc::PfaLe | Enc::PfaBe => {
            let be = enc.big_endian();
            let exp: Vec<(u32, Vec<u8>)> = vals.iter().map(|v| expected_arg(v, enc).expect("pfa domain")).collect();
            let args: Vec<DltArg> = exp
                .iter()
                .map(|(ti, raw)| DltArg { type_info: *ti, is_big_endian: be, payload_raw: raw })
                .collect();
            catch(|| Ok((args.len(), payload_from_args(&args))))
        }
        Enc::Serde => catch(|| {
            if vals.len() == 1 {
                // the single-value entry point
                return to_payload(&vals[0]).map(|p| (1, p)).map_err(|e| e.to_string());
            }
            let mut ser = Serializer { output: Vec::default() };
            for v in vals {
                add_to_serializer(&mut ser, v).map_err(|e| e.to_string())?;
            }
            Ok((vals.len(), ser.output))
        }),
        Enc::DltArgs => catch(|| {
            let r = match vals {
                [] => dlt_args!(),
                [a] => dlt_args!(a),
                [a, b] => dlt_args!(a, b),
                [a, b, c] => dlt_args!(a, b, c),
                [a, b, c, d] => dlt_args!(a, b, c, d),
                _ => panic!("harness: dlt_args arity"),
            };
            r.map(|(n, p)| (n as usize, p)).map_err(|e| e.to_string())
        }),
    }
}

fn make_msg(payload: Vec<u8>, noar: usize, big_endian: bool) -> DltMessage {
    let mut m = mk_msg(1, b"ECU1", 1_000_000, 10, true, Some((0x41, noar.min(255) as u8, *b"APID", *b"CTID")), payload);
    if big_endian {
        m.standard_header.htyp |= MSBF;
    }
    m
}

/// one decoded argument: type-info, byte order flag, position of its data inside msg.payload
#[derive(Clone, Debug, PartialEq, Eq)]
struct Lay {
    ti: u32,
    be: bool,
    off: usize,
    len: usize,
}

/// `for arg in &msg` on the real decoder; the bool tells whether every returned slice lies inside msg.payload
fn decode_layout(m: &DltMessage) -> Result<(Vec<Lay>, bool), Panicked> {
    catch(|| {
        let lo = m.payload.as_ptr() as usize;
        let hi = lo + m.payload.len();
        let mut inside = true;
        let mut v = Vec::with_capacity(4);
        for arg in m {
            let a = arg.payload_raw.as_ptr() as usize;
            let l = arg.payload_raw.len();
            if l > 0 && !(a >= lo && a + l <= hi) {
                inside = false;
            }
            v.push(Lay { ti: arg.type_info, be: arg.is_big_endian, off: if l > 0 { a.wrapping_sub(lo) } else { 0 }, len: l });
        }
        (v, inside)
    })
}

// ------------------------------------------------------------------ canonical text (independent matcher)
/// pattern items the rendering has to match in order
enum Pat {
    Lit(String),
    /// zero or more non-ASCII characters (how bytes outside the string's character set are shown is not stated)
    NonAscii,
    F32(f32),
    F64(f64),
    /// lower-case hex byte pairs, optionally separated by single blanks
    Hex(Vec<u8>),
}

fn ctrl_to_space(s: &str) -> String {
    s.chars().map(|c| if c == '\r' || c == '\n' || c == '\t' { ' ' } else { c }).collect()
}

/// pattern for the decoded-level argument (type_info, raw) — derived from the property statement only
fn text_pattern(exp: &[(u32, Vec<u8>)], vals: &[Val]) -> Vec<(usize, Pat)> {
    let mut p: Vec<(usize, Pat)> = vec![];
    for (i, ((_, raw), v)) in exp.iter().zip(vals.iter()).enumerate() {
        if i > 0 {
            p.push((i, Pat::Lit(" ".into())));
        }
        match v {
            Val::Bool(b) => p.push((i, Pat::Lit(if *b { "true" } else { "false" }.into()))),
            Val::I8(x) => p.push((i, Pat::Lit(x.to_string()))),
            Val::I16(x) => p.push((i, Pat::Lit(x.to_string()))),
            Val::I32(x) => p.push((i, Pat::Lit(x.to_string()))),
            Val::I64(x) => p.push((i, Pat::Lit(x.to_string()))),
            Val::U8(x) => p.push((i, Pat::Lit(x.to_string()))),
            Val::U16(x) => p.push((i, Pat::Lit(x.to_string()))),
            Val::U32(x) => p.push((i, Pat::Lit(x.to_string()))),
            Val::U64(x) => p.push((i, Pat::Lit(x.to_string()))),
            Val::F32(b) => p.push((i, Pat::F32(f32::from_bits(*b)))),
            Val::F64(b) => p.push((i, Pat::F64(f64::from_bits(*b)))),
            Val::Raw(_) => p.push((i, Pat::Hex(raw.clone()))),
            Val::Utf8(_) | Val::Ascii(_) | Val::Char(_) => {
                // the string as it is on the wire, one trailing NUL removed
                let mut b: &[u8] = raw;
                if let Some((0, rest)) = b.split_last() {
                    b = rest;
                }
                let is_utf8 = !matches!(v, Val::Ascii(_));
                match (is_utf8, std::str::from_utf8(b)) {
                    (true, Ok(s)) => p.push((i, Pat::Lit(ctrl_to_space(s)))),
                    _ => {
                        // ASCII runs are binding, runs of bytes >= 0x80 are free
                        let mut cur = String::new();
                        let mut in_high = false;
                        for &c in b {
                            if c < 0x80 {
                                in_high = false;
                                cur.push(c as char);
                            } else if !in_high {
                                in_high = true;
                                if !cur.is_empty() {
                                    p.push((i, Pat::Lit(ctrl_to_space(&cur))));
                                    cur.clear();
                                }
                                p.push((i, Pat::NonAscii));
                            }
                        }
                        if !cur.is_empty() {
                            p.push((i, Pat::Lit(ctrl_to_space(&cur))));
                        }
                    }
                }
            }
        }
    }
    p
}

fn float_token_ok(tok: &str, is_nan: bool, is_inf: bool) -> bool {
    if is_nan || is_inf {
        // no decimal form exists; any spelling the parser below accepts is fine
        return !tok.is_empty();
    }
    !tok.is_empty() && tok.bytes().all(|c| c.is_ascii_digit() || matches!(c, b'.' | b'-' | b'+' | b'e' | b'E'))
}

/// match `text` against the pattern; Err(description) on the first mismatch
fn match_text(text: &str, pat: &[(usize, Pat)]) -> Result<(), (Option<usize>, String)> {
    let tb = text.as_bytes();
    let mut pos = 0usize;
    for (k, it) in pat.iter() {
        let k = *k;
        match it {
            Pat::Lit(s) => {
                if !text[pos..].starts_with(s.as_str()) {
                    let got: String = text[pos..].chars().take(40).collect();
                    let want: String = s.chars().take(40).collect();
                    return Err((Some(k), format!("arg {k} at byte {pos}: expected {:?}, got {:?}", want, got)));
                }
                pos += s.len();
            }
            Pat::NonAscii => {
                // how bytes outside the character set are shown is free, but they do not vanish and do not turn into ASCII
                let start = pos;
                while pos < tb.len() && tb[pos] >= 0x80 {
                    pos += 1;
                }
                if pos == start {
                    let got: String = text[pos..].chars().take(40).collect();
                    return Err((Some(k), format!("arg {k} at byte {pos}: a run of bytes >= 0x80 of the string is not shown at all (next: {:?})", got)));
                }
            }
            Pat::F32(_) | Pat::F64(_) => {
                let end = text[pos..].find(' ').map(|e| pos + e).unwrap_or(text.len());
                let tok = &text[pos..end];
                let ok = match it {
                    Pat::F32(v) => {
                        float_token_ok(tok, v.is_nan(), v.is_infinite())
                            && match tok.parse::<f32>() {
                                // the same value, the sign of a zero included (the token must identify the raw value)
                                Ok(p) => (v.is_nan() && p.is_nan()) || (p == *v && p.to_bits() == v.to_bits()),
                                Err(_) => false,
                            }
                    }
                    Pat::F64(v) => {
                        float_token_ok(tok, v.is_nan(), v.is_infinite())
                            && match tok.parse::<f64>() {
                                Ok(p) => (v.is_nan() && p.is_nan()) || (p == *v && p.to_bits() == v.to_bits()),
                                Err(_) => false,
                            }
                    }
                    _ => unreachable!(),
                };
                if !ok {
                    let t: String = tok.chars().take(60).collect();
                    return Err((Some(k), format!("arg {k} at byte {pos}: float token {:?} does not denote the value", t)));
                }
                pos = end;
            }
            Pat::Hex(bytes) => {
                const HD: &[u8; 16] = b"0123456789abcdef";
                // whether the bytes of one raw argument are separated by a blank is not prescribed, but a canonical
                // form separates all of them or none
                let mut sep: Option<bool> = None;
                for (i, b) in bytes.iter().enumerate() {
                    if i > 0 {
                        let blank = pos < tb.len() && tb[pos] == b' ';
                        if blank {
                            pos += 1;
                        }
                        if *sep.get_or_insert(blank) != blank {
                            return Err((Some(k), format!("arg {k}: raw bytes are not uniformly separated: byte {i} ({:02x}) at text byte {pos} is {} by a blank, the earlier ones are{}", b, if blank { "preceded" } else { "not preceded" }, if blank { " not" } else { "" })));
                        }
                    }
                    if pos + 2 > tb.len() || tb[pos] != HD[(b >> 4) as usize] || tb[pos + 1] != HD[(b & 15) as usize] {
                        return Err((Some(k), format!("arg {k}: raw byte {i} ({:02x}) not rendered as lower-case hex at byte {pos}", b)));
                    }
                    pos += 2;
                }
            }
        }
    }
    if pos != text.len() {
        let rest: String = text[pos..].chars().take(40).collect();
        return Err((None, format!("{} trailing bytes after the last argument: {:?}", text.len() - pos, rest)));
    }
    Ok(())
}

// ------------------------------------------------------------------ alphabets
const LONG: usize = 65000;

/// all value symbols. `core` = one or two per type/width (used for the deepest sequences)
fn symbols() -> Vec<(Val, bool /*core*/)> {
    let mut v: Vec<(Val, bool)> = vec![];
    let mut add = |x: Val, core: bool| v.push((x, core));
    add(Val::Bool(false), true);
    add(Val::Bool(true), true);
    for (i, x) in [0i8, 1, -1, i8::MIN, i8::MAX].into_iter().enumerate() {
        add(Val::I8(x), i == 3);
    }
    for (i, x) in [0i16, 1, -1, i16::MIN, i16::MAX].into_iter().enumerate() {
        add(Val::I16(x), i == 3);
    }
    for (i, x) in [0i32, 1, -1, i32::MIN, i32::MAX].into_iter().enumerate() {
        add(Val::I32(x), i == 3);
    }
    for (i, x) in [0i64, 1, -1, i64::MIN, i64::MAX].into_iter().enumerate() {
        add(Val::I64(x), i == 3);
    }
    for (i, x) in [0u8, 1, u8::MAX - 1, u8::MAX].into_iter().enumerate() {
        add(Val::U8(x), i == 3);
    }
    for (i, x) in [0u16, 1, u16::MAX - 1, u16::MAX, 0x0102].into_iter().enumerate() {
        add(Val::U16(x), i == 4);
    }
    for (i, x) in [0u32, 1, u32::MAX - 1, u32::MAX, 0x7fff_ffff, 0x8000_0000].into_iter().enumerate() {
        add(Val::U32(x), i == 3);
    }
    for (i, x) in [0u64, 1, u64::MAX - 1, u64::MAX].into_iter().enumerate() {
        add(Val::U64(x), i == 3);
    }
    for (i, x) in [
        0.0f32,
        -0.0,
        1.0,
        -1.1,
        f32::MIN,
        f32::MAX,
        f32::MIN_POSITIVE,
        f32::from_bits(1), // smallest subnormal
        f32::EPSILON,
        f32::NAN,
        f32::INFINITY,
        f32::NEG_INFINITY,
    ]
    .into_iter()
    .enumerate()
    {
        add(Val::F32(x.to_bits()), i == 3 || i == 9);
    }
    for (i, x) in [
        0.0f64,
        -0.0,
        1.0,
        -1.1,
        f64::MIN,
        f64::MAX,
        f64::MIN_POSITIVE,
        f64::from_bits(1),
        f64::EPSILON,
        f64::NAN,
        f64::INFINITY,
        f64::NEG_INFINITY,
    ]
    .into_iter()
    .enumerate()
    {
        add(Val::F64(x.to_bits()), i == 4 || i == 11);
    }
    // strings: (content, core)
    let strs: Vec<(BStr, bool)> = vec![
        (BStr::lit(b""), true),
        (BStr::lit(b"a"), false),
        (BStr::lit(b"a\0"), true),
        (BStr::lit(b"\0"), false),
        (BStr::lit(b"\0\0"), false),
        (BStr::lit(b"ab\0\0"), false),
        (BStr::lit(b"a\0b"), false),
        (BStr::lit(b"a b"), false),
        (BStr::lit(b"a\rb\nc\td"), true),
        // each control character alone (a fast path keyed on one of them must not skip the others)
        (BStr::lit(b"a\tb"), true),
        (BStr::lit(b"a\rb"), true),
        (BStr::lit(b"a\nb"), true),
        (BStr::lit(b"\r\n\t\0"), false),
        (BStr::lit(b"\x01\x7f~"), false),
        (BStr::lit("\u{e4}\u{20ac}\u{1f600}".as_bytes()), false),
        (BStr::lit(b"\x80"), false),
        (BStr::lit(b"a\xffb\0"), true),
        (BStr::lit(b"\xc3"), false), // truncated 2-byte sequence
        // byte-order-mark look-alikes at the start (a decoder that sniffs for a BOM would switch encodings / drop them)
        (BStr::lit(b"\xff\xfeab\0"), true),
        (BStr::lit(b"\xfe\xffab"), false),
        (BStr::lit(b"\xef\xbb\xbfhi\0"), true),
        (BStr::rep(b'x', LONG, b""), false),
        (BStr::rep(b'x', LONG - 1, b"\0"), false),
        (BStr::rep(b'y', 0xfffe, b""), false), // longest str the serde serializer can take (plus NUL = 0xffff)
        (BStr::rep(b'y', 0xffff, b""), false), // longest on the wire
        (BStr::rep(b'y', 0x10000, b""), false), // not representable
    ];
    for (s, core) in &strs {
        add(Val::Utf8(s.clone()), *core);
    }
    for (s, core) in &strs {
        add(Val::Ascii(s.clone()), *core);
    }
    let raws: Vec<(BStr, bool)> = vec![
        (BStr::lit(b""), true),
        (BStr::lit(b"\0"), false),
        (BStr::lit(b"\xfe"), false),
        (BStr::lit(b"\x0f\x00"), false),
        (BStr::lit(b"\x00\x01\xff"), true),
        (BStr::lit(b"\xab\xcd\xef\x01\x23\x45\x67\x89\xab\xcd\xef\x01\x23\x45\x67\x89"), false),
        (BStr::lit(b"\x41\x00\x00\x00"), false), // looks like a type-info
        (BStr::rep(0xc3, 64, b"\xca"), false), // 65 bytes: one more than a typical block size
        (BStr::rep(0x3c, 256, b"\xac"), false),
        (BStr::rep(0xa5, LONG, b""), false),
        (BStr::rep(0x5a, 0xffff, b""), false),
        (BStr::rep(0x5a, 0x10000, b""), false),
    ];
    for (s, core) in &raws {
        add(Val::Raw(s.clone()), *core);
    }
    add(Val::Char('c'), true);
    add(Val::Char('\u{20ac}'), false);
    add(Val::Char('\n'), false);
    add(Val::Char('\0'), false);
    v
}

#[derive(Clone, Copy, PartialEq, Eq, Debug)]
enum Alpha {
    Full,
    Short,
    Core,
}
impl Alpha {
    fn name(&self) -> &'static str {
        match self {
            Alpha::Full => "full",
            Alpha::Short => "short(no strings/raw > 1000 bytes)",
            Alpha::Core => "core",
        }
    }
}
fn alphabet(enc: Enc, a: Alpha) -> Vec<Val> {
    symbols()
        .into_iter()
        .filter(|(v, core)| {
            enc.expressible(v)
                && match a {
                    Alpha::Full => true,
                    Alpha::Short => !v.is_long(),
                    Alpha::Core => *core,
                }
        })
        .map(|(v, _)| v)
        .collect()
}

// ------------------------------------------------------------------ oracle
fn enc_class(enc: Enc) -> &'static str {
    if enc.is_pfa() {
        "pfa"
    } else {
        "serde"
    }
}

fn case_json(family: &str, enc: Enc, vals: &[Val], cut: Option<usize>, corrupt: Option<(usize, &str, u32)>) -> Value {
    let mut j = json!({
        "family": family,
        "enc": enc.name(),
        "args": vals.iter().map(|v| v.to_json()).collect::<Vec<_>>(),
    });
    if let Some(c) = cut {
        j["cut"] = json!(c);
    }
    if let Some((a, f, v)) = corrupt {
        j["corrupt"] = json!({"arg": a, "field": f, "value": v});
    }
    j
}

/// a clean encode/decode round trip: what truncation and corruption build on
struct Base {
    exp: Vec<(u32, Vec<u8>)>,
    payload: Vec<u8>,
    be: bool,
    lay: Vec<Lay>,
}

fn short_text(t: &str) -> String {
    let s: String = t.chars().take(80).collect();
    if s.len() < t.len() {
        format!("{s}...({} bytes)", t.len())
    } else {
        s
    }
}

/// encode with the real encoder, decode with the real decoder, compare with the model, (optionally) check the text.
/// Returns the clean base or None (violation recorded / encoder rightfully refused).
fn judge_roundtrip(
    ctx: &mut Ctx,
    vals: &[Val],
    enc: Enc,
    check_text: bool,
    case: &dyn Fn() -> Value,
) -> Option<Base> {
    let be = enc.big_endian();
    let exp_opt: Vec<Option<(u32, Vec<u8>)>> = vals.iter().map(|v| expected_arg(v, enc)).collect();
    let oversize = exp_opt.iter().position(|e| e.is_none());
    let (noar, payload) = if enc.is_pfa() && oversize.is_some() {
        // outside the domain of payload_from_args (it has no way to refuse); only reachable via replay files
        ctx.landmark("premise_rejected_oversize_pfa");
        return None;
    } else {
        match encode(vals, enc) {
            Err(p) => {
                ctx.violation("panic", &p.loc, case, format!("encoder {} panicked: {}", enc.name(), p.msg));
                return None;
            }
            Ok(Err(e)) => {
                if oversize.is_some() {
                    ctx.landmark("oversize_refused_by_encoder");
                } else {
                    ctx.violation("encode_refused", &format!("{}:{}", enc_class(enc), e), case, format!("encoder {} refused representable values: {e}", enc.name()));
                }
                return None;
            }
            Ok(Ok(x)) => x,
        }
    };
    if let Some(i) = oversize {
        ctx.violation(
            "oversize_accepted",
            &format!("{}:{}", enc_class(enc), vals[i].tname()),
            case,
            format!("argument {i} does not fit a 16 bit length but encoder {} returned a payload of {} bytes", enc.name(), payload.len()),
        );
        return None;
    }
    let exp: Vec<(u32, Vec<u8>)> = exp_opt.into_iter().map(|e| e.unwrap()).collect();
    if noar != vals.len() {
        ctx.violation("roundtrip", &format!("{}:noar", enc_class(enc)), case, format!("encoder reports {noar} arguments for {} values", vals.len()));
        return None;
    }
    let m = make_msg(payload, noar, be);
    let (lay, inside) = match decode_layout(&m) {
        Err(p) => {
            ctx.violation("panic", &p.loc, case, format!("decoder panicked: {}", p.msg));
            return None;
        }
        Ok(x) => x,
    };
    if !inside {
        ctx.violation("reads_outside", "full_payload", case, "a decoded slice is not inside msg.payload".into());
        return None;
    }
    // same count, types, raw values, byte order
    let mut bad: Option<(usize, &'static str, String)> = None;
    for (i, (ti, raw)) in exp.iter().enumerate() {
        match lay.get(i) {
            None => {
                bad = Some((i, "count_short", format!("decoded {} of {} arguments", lay.len(), exp.len())));
                break;
            }
            Some(l) => {
                if l.ti != *ti {
                    bad = Some((i, "type_info", format!("argument {i}: type_info {:#x} != {:#x}", l.ti, ti)));
                    break;
                }
                let got = &m.payload[l.off..l.off + l.len];
                if got != raw.as_slice() {
                    let g = hex(&got[..got.len().min(24)]);
                    let w = hex(&raw[..raw.len().min(24)]);
                    bad = Some((i, "raw", format!("argument {i}: raw ({} bytes) {g}.. != expected ({} bytes) {w}..", got.len(), raw.len())));
                    break;
                }
                if l.be != be {
                    bad = Some((i, "byte_order", format!("argument {i}: is_big_endian {} != {}", l.be, be)));
                    break;
                }
            }
        }
    }
    if bad.is_none() && lay.len() > exp.len() {
        bad = Some((exp.len(), "count_long", format!("decoded {} arguments from {} values", lay.len(), exp.len())));
    }
    if let Some((i, kind, detail)) = bad {
        let upto = i.min(vals.len().saturating_sub(1));
        let n_empty = vals.iter().filter(|v| v.is_empty_strg_rawd()).count();
        let model_size: usize = exp.iter().map(wire_size).sum();
        let disc = if enc.is_pfa()
            && vals[..=upto].iter().any(|v| v.is_empty_strg_rawd())
            && m.payload.len() + 2 * n_empty == model_size
        {
            // predicate on the case: payload_from_args was given an empty string / raw argument at or before the
            // first argument that came back wrong, and its output is exactly 2 bytes short per empty argument
            "pfa_empty_strg_rawd".to_string()
        } else {
            format!("{}:{}:{}", enc_class(enc), kind, vals.get(i).map(|v| v.tname()).unwrap_or("end"))
        };
        ctx.violation("roundtrip", &disc, case, detail);
        return None;
    }
    if check_text {
        let text = match catch(|| m.payload_as_text().map(|c| c.into_owned())) {
            Err(p) => {
                ctx.violation("panic", &p.loc, case, format!("payload_as_text panicked: {}", p.msg));
                return None;
            }
            Ok(Err(_)) => {
                ctx.violation("text", "fmt_error", case, "payload_as_text returned Err for a well-formed payload".into());
                return None;
            }
            Ok(Ok(t)) => t,
        };
        let pat = text_pattern(&exp, vals);
        if let Err((arg, d)) = match_text(&text, &pat) {
            let disc = match arg {
                Some(a) => format!("{}:{}", enc_class(enc), vals[a].tname()),
                None => "trailing".to_string(),
            };
            ctx.violation("text", &disc, case, format!("{d}; text={:?}", short_text(&text)));
            return None;
        }
        let tb = text.as_bytes();
        ctx.outcome(fnv(&tb[..tb.len().min(256)]) ^ (tb.len() as u64).wrapping_mul(0x9e3779b97f4a7c15) ^ ((be as u64) << 63));
    }
    let payload = m.payload;
    Some(Base { exp, payload, be, lay })
}

fn roundtrip_landmarks(ctx: &mut Ctx, vals: &[Val], enc: Enc) {
    ctx.landmark(match enc {
        Enc::PfaLe => "rt_payload_from_args_le",
        Enc::PfaBe => "rt_payload_from_args_be",
        Enc::Serde => "rt_serde_serializer",
        Enc::DltArgs => "rt_dlt_args_macro",
    });
    let mut kinds = 0u32;
    for (i, v) in vals.iter().enumerate() {
        kinds |= match v {
            Val::Bool(_) => 1,
            Val::I8(_) | Val::I16(_) | Val::I32(_) | Val::I64(_) => 2,
            Val::U8(_) | Val::U16(_) | Val::U32(_) | Val::U64(_) => 4,
            Val::F32(_) | Val::F64(_) => 8,
            Val::Utf8(_) | Val::Char(_) => 16,
            Val::Ascii(_) => 32,
            Val::Raw(_) => 64,
        };
        match v {
            Val::F32(b) if f32::from_bits(*b).is_nan() => ctx.landmark("float_nan"),
            Val::F64(b) if f64::from_bits(*b).is_nan() => ctx.landmark("float_nan"),
            Val::F32(b) if f32::from_bits(*b).is_infinite() => ctx.landmark("float_inf"),
            Val::F64(b) if f64::from_bits(*b).is_infinite() => ctx.landmark("float_inf"),
            Val::Utf8(s) | Val::Ascii(s) | Val::Raw(s) => {
                if s.len() == 0 && i + 1 < vals.len() {
                    ctx.landmark("empty_strg_rawd_followed_by_arg");
                }
                if s.len() >= 0xfffe {
                    ctx.landmark("maximal_length_strg_rawd");
                } else if s.len() > 1000 {
                    ctx.landmark("long_strg_rawd");
                }
                if !matches!(v, Val::Raw(_)) {
                    let t = &s.tail;
                    if t.last() == Some(&0) {
                        ctx.landmark("string_trailing_nul");
                    }
                    if t.iter().any(|c| matches!(c, b'\r' | b'\n' | b'\t')) {
                        ctx.landmark("string_cr_lf_tab");
                    }
                    if t.iter().any(|c| *c >= 0x80) && std::str::from_utf8(t).is_err() {
                        ctx.landmark("string_non_utf8");
                    }
                }
            }
            _ => {}
        }
    }
    if kinds.count_ones() >= 3 {
        ctx.landmark("three_type_classes_mixed");
    }
}

fn run_roundtrip(ctx: &mut Ctx, vals: &[Val], enc: Enc) {
    let cj = || case_json("roundtrip", enc, vals, None, None);
    // landmarks describe the explored input space; they are counted whether or not the oracle passes
    roundtrip_landmarks(ctx, vals, enc);
    if judge_roundtrip(ctx, vals, enc, true, &cj).is_some() {
        ctx.landmark("roundtrip_clean");
    }
    ctx.transitions(vals.len() as u64);
    ctx.eval(!vals.is_empty());
    ctx.sample(cj);
}

/// size of argument i on the wire according to the model: 4 (type-info) [+ 2 (length)] + data
fn wire_size(e: &(u32, Vec<u8>)) -> usize {
    4 + if e.0 & (TI_STRG | TI_RAWD) != 0 { 2 } else { 0 } + e.1.len()
}

/// every truncation point (or only `only_cut`) of the clean payload: the decoded list must be a prefix of the original
fn run_truncate(ctx: &mut Ctx, vals: &[Val], enc: Enc, only_cut: Option<usize>) {
    let cj0 = || case_json("truncate", enc, vals, None, None);
    let base = match judge_roundtrip(ctx, vals, enc, false, &cj0) {
        None => {
            ctx.landmark("base_not_available(skipped)");
            ctx.eval(false);
            return;
        }
        Some(b) => b,
    };
    // model of the wire layout: start offset of every argument
    let mut starts = Vec::with_capacity(base.exp.len() + 1);
    let mut o = 0usize;
    for e in &base.exp {
        starts.push(o);
        o += wire_size(e);
    }
    starts.push(o);
    debug_assert_eq!(o, base.payload.len());
    let total = base.payload.len();
    let mut m = make_msg(base.payload, vals.len(), base.be);
    let (mut c_ti, mut c_len, mut c_data, mut c_bound, mut c_lost, mut c_kept) = (0u64, 0u64, 0u64, 0u64, 0u64, 0u64);
    let mut h: u64 = 0xcbf29ce484222325;
    let nargs = base.exp.len();
    let mut ai = nargs.saturating_sub(1); // index of the argument containing the cut
    let cuts: Box<dyn Iterator<Item = usize>> = match only_cut {
        Some(c) => Box::new(std::iter::once(c.min(total))),
        None => Box::new((0..total).rev()),
    };
    let mut ncuts = 0u64;
    for cut in cuts {
        ncuts += 1;
        m.payload.truncate(cut);
        while ai > 0 && starts[ai] > cut {
            ai -= 1;
        }
        let ai_c = ai;
        let region = if nargs == 0 || cut >= total || cut == starts[ai_c] {
            c_bound += 1;
            "boundary"
        } else if cut < starts[ai_c] + 4 {
            c_ti += 1;
            "type_info"
        } else if base.exp[ai_c].0 & (TI_STRG | TI_RAWD) != 0 && cut < starts[ai_c] + 6 {
            c_len += 1;
            "len"
        } else {
            c_data += 1;
            "data"
        };
        let cj = || case_json("truncate", enc, vals, Some(cut), None);
        match decode_layout(&m) {
            Err(p) => {
                ctx.violation("panic", &p.loc, &cj, format!("decoder panicked on payload truncated to {cut} of {total} bytes: {}", p.msg));
                break;
            }
            Ok((lay, inside)) => {
                if !inside {
                    ctx.violation("reads_outside", "truncated", &cj, format!("cut {cut}: a decoded slice is not inside msg.payload"));
                    break;
                }
                // truncated payload is a byte prefix of the clean payload: same (type, position, length) <=> same argument
                let is_prefix = lay.len() <= base.lay.len() && lay.iter().zip(base.lay.iter()).all(|(a, b)| a == b);
                if !is_prefix {
                    let tn = vals.get(ai_c).map(|v| v.tname()).unwrap_or("none");
                    ctx.violation(
                        "trunc_prefix",
                        &format!("{}:{}:{}", enc_class(enc), tn, region),
                        &cj,
                        format!("payload truncated to {cut} of {total} bytes decodes to {} argument(s) that are not a prefix of the original {}: {:?}", lay.len(), base.lay.len(), lay.iter().take(4).collect::<Vec<_>>()),
                    );
                    break;
                }
                if lay.len() < base.lay.len() {
                    c_lost += 1;
                }
                if !lay.is_empty() {
                    c_kept += 1;
                }
                h = (h ^ lay.len() as u64).wrapping_mul(0x100000001b3);
            }
        }
    }
    ctx.outcome(h);
    ctx.transitions(ncuts);
    ctx.landmark_n("cut_inside_type_info", c_ti);
    ctx.landmark_n("cut_inside_length_field", c_len);
    ctx.landmark_n("cut_inside_data", c_data);
    ctx.landmark_n("cut_at_arg_boundary", c_bound);
    ctx.landmark_n("cut_decodes_fewer_args", c_lost);
    ctx.landmark_n("cut_keeps_nonempty_prefix", c_kept);
    ctx.eval(total > 0);
    ctx.sample(cj0);
}

// ------------------------------------------------------------------ corruption
/// replacement values for a type-info field (boundary table, single bit flips, every TYLE, every other known type)
fn typeinfo_corruptions(orig: u32) -> Vec<u32> {
    let mut v: Vec<u32> = vec![0, 1, 2, 0xffff_fffe, 0xffff_ffff, 0x7fff_ffff, 0x8000_0000];
    for b in 0..32 {
        v.push(orig ^ (1 << b));
    }
    for t in 0..16 {
        v.push((orig & !0xf) | t);
    }
    v.extend_from_slice(&[
        0x10, 0x11, 0x12, 0x21, 0x22, 0x23, 0x24, 0x25, 0x41, 0x42, 0x43, 0x44, 0x45, 0x81, 0x82, 0x83, 0x84, 0x85, 0x200,
        0x8200, 0x1_0200, 0x1_8200, 0x2_0200, 0x3_8200, 0x400, 0x600, 0x100 | 0x41, 0x800 | 0x41, 0x800 | 0x200, 0x1000 | 0x83,
        0x2000, 0x4000, 0x60, 0x30, 0x90,
    ]);
    v.sort();
    v.dedup();
    v.retain(|x| *x != orig);
    v
}

/// replacement values for a 16 bit length field; `rest` = bytes following the field up to the end of the payload
fn len_corruptions(orig: usize, rest: usize) -> Vec<u32> {
    let mut v: Vec<i64> = vec![0, 1, 2, orig as i64 - 1, orig as i64 + 1, rest as i64 - 1, rest as i64, rest as i64 + 1, 0x7fff, 0x8000, 0xfffe, 0xffff];
    v.retain(|x| *x >= 0 && *x <= 0xffff && *x != orig as i64);
    v.sort();
    v.dedup();
    v.into_iter().map(|x| x as u32).collect()
}

struct CorruptPlan {
    base: Base,
    /// (arg index, field name, field offset, field width, replacement values)
    fields: Vec<(usize, &'static str, usize, usize, Vec<u32>)>,
}

fn corrupt_plan(base: Base) -> CorruptPlan {
    let mut fields = vec![];
    let mut o = 0usize;
    let total = base.payload.len();
    for (j, e) in base.exp.iter().enumerate() {
        fields.push((j, "type_info", o, 4, typeinfo_corruptions(e.0)));
        if e.0 & (TI_STRG | TI_RAWD) != 0 {
            fields.push((j, "len", o + 4, 2, len_corruptions(e.1.len(), total - (o + 6))));
        }
        o += wire_size(e);
    }
    CorruptPlan { base, fields }
}

/// one corruption of one field of argument j: arguments before j must come out unchanged; no panic (decoder and text)
#[allow(clippy::too_many_arguments)]
fn run_one_corruption(ctx: &mut Ctx, vals: &[Val], enc: Enc, plan: &CorruptPlan, j: usize, field: &'static str, off: usize, width: usize, value: u32) {
    let base = &plan.base;
    let cj = || case_json("corrupt", enc, vals, None, Some((j, field, value)));
    let mut payload = base.payload.clone();
    if width == 4 {
        let b = if base.be { value.to_be_bytes() } else { value.to_le_bytes() };
        payload[off..off + 4].copy_from_slice(&b);
    } else {
        let b = if base.be { (value as u16).to_be_bytes() } else { (value as u16).to_le_bytes() };
        payload[off..off + 2].copy_from_slice(&b);
    }
    let m = make_msg(payload, vals.len(), base.be);
    ctx.transitions(1);
    ctx.landmark(if width == 4 { "corrupt_type_info_field" } else { "corrupt_length_field" });
    let lay = match decode_layout(&m) {
        Err(p) => {
            ctx.violation("panic", &p.loc, &cj, format!("decoder panicked: {}", p.msg));
            ctx.eval(true);
            return;
        }
        Ok((lay, inside)) => {
            if !inside {
                ctx.violation("reads_outside", "corrupted", &cj, "a decoded slice is not inside msg.payload".into());
            }
            lay
        }
    };
    let intact = lay.len() >= j && lay[..j] == base.lay[..j];
    if !intact {
        ctx.violation(
            "corrupt_prefix",
            &format!("{}:{}:{}", enc_class(enc), field, vals[j].tname()),
            &cj,
            format!("{field} of argument {j} set to {value:#x}: the {j} argument(s) before it decode as {:?} instead of {:?}", lay.iter().take(j).collect::<Vec<_>>(), &base.lay[..j]),
        );
    }
    if lay.len() == j {
        ctx.landmark("corrupt_decoding_stops_at_arg");
    } else if lay.len() > j {
        if lay.len() >= base.lay.len() && lay.get(j) != base.lay.get(j) {
            ctx.landmark("corrupt_arg_reinterpreted_decoding_continues");
        } else {
            ctx.landmark("corrupt_decoding_continues");
        }
    }
    let text = match catch(|| m.payload_as_text().map(|c| c.into_owned())) {
        Err(p) => {
            ctx.violation("panic", &p.loc, &cj, format!("payload_as_text panicked: {}", p.msg));
            ctx.eval(true);
            return;
        }
        Ok(t) => t.unwrap_or_else(|_| "<fmt error>".into()),
    };
    let mut h: u64 = fnv(&text.as_bytes()[..text.len().min(128)]);
    for l in lay.iter().skip(j) {
        h = (h ^ l.ti as u64).wrapping_mul(0x100000001b3);
        h = (h ^ l.len as u64).wrapping_mul(0x100000001b3);
    }
    ctx.outcome(h);
    ctx.eval(true);
    ctx.sample(cj);
}

/// a value symbol with everything the enumerators need precomputed
struct Sym {
    val: Val,
    exp: Option<(u32, Vec<u8>)>,
    ti_corr: Vec<u32>,
}
fn sym_table(enc: Enc, a: Alpha) -> Vec<Sym> {
    alphabet(enc, a)
        .into_iter()
        .map(|val| {
            let exp = expected_arg(&val, enc);
            let ti_corr = exp.as_ref().map(|e| typeinfo_corruptions(e.0)).unwrap_or_default();
            Sym { val, exp, ti_corr }
        })
        .collect()
}

/// all corruptions of (syms, enc); each single corruption is one case (one `ctx.mine()`). `only` = replay of one
fn run_corrupt(ctx: &mut Ctx, syms: &[&Sym], enc: Enc, only: Option<(usize, String, u32)>) {
    let vals: Vec<Val> = if only.is_some() { syms.iter().map(|s| s.val.clone()).collect() } else { vec![] };
    let mk_plan = |ctx: &mut Ctx, vals: &[Val]| -> Option<CorruptPlan> {
        let cj0 = || case_json("corrupt", enc, vals, None, None);
        judge_roundtrip(ctx, vals, enc, false, &cj0).map(corrupt_plan)
    };
    if let Some((j, f, value)) = only {
        ctx.mine();
        if let Some(p) = mk_plan(ctx, &vals) {
            for (fj, name, off, width, _) in &p.fields {
                if *fj == j && *name == f {
                    run_one_corruption(ctx, &vals, enc, &p, j, name, *off, *width, value);
                }
            }
        }
        return;
    }
    // the list of corruptions is derived from the model alone, so that every worker enumerates the same cases
    if syms.iter().any(|s| s.exp.is_none()) {
        return; // not representable: nothing to corrupt (the round trip family judges the refusal)
    }
    let total: usize = syms.iter().map(|s| wire_size(s.exp.as_ref().unwrap())).sum();
    let mut state: Option<(Vec<Val>, Option<CorruptPlan>)> = None;
    let mut o = 0usize;
    for (j, s) in syms.iter().enumerate() {
        let e = s.exp.as_ref().unwrap();
        let lens;
        let mut flds: Vec<(&'static str, usize, usize, &[u32])> = vec![("type_info", o, 4, &s.ti_corr)];
        if e.0 & (TI_STRG | TI_RAWD) != 0 {
            lens = len_corruptions(e.1.len(), total - (o + 6));
            flds.push(("len", o + 4, 2, &lens));
        }
        for (name, off, width, values) in flds {
            for &value in values {
                if ctx.mine() {
                    if state.is_none() {
                        let vals: Vec<Val> = syms.iter().map(|s| s.val.clone()).collect();
                        let plan = mk_plan(ctx, &vals);
                        state = Some((vals, plan));
                    }
                    let (vals, plan) = state.as_ref().unwrap();
                    match plan {
                        None => {
                            ctx.landmark("base_not_available(skipped)");
                            ctx.eval(false);
                        }
                        Some(p) => run_one_corruption(ctx, vals, enc, p, j, name, off, width, value),
                    }
                }
            }
        }
        o += wire_size(e);
    }
}

// ------------------------------------------------------------------ the property
pub struct C18;

const ENC_ALL: [Enc; 4] = [Enc::PfaLe, Enc::PfaBe, Enc::Serde, Enc::DltArgs];
const ENC_BYTES: [Enc; 3] = [Enc::PfaLe, Enc::PfaBe, Enc::Serde]; // dlt_args! produces the serializer's bytes

#[derive(Clone, Copy, PartialEq, Eq)]
enum Fam {
    Roundtrip,
    Truncate,
    Corrupt,
}

/// enumerate all sequences of length `len` over the alphabet for every encoder; returns false when out of time
fn explore(ctx: &mut Ctx, fam: Fam, alpha: Alpha, len: usize) -> bool {
    let encs: Vec<Enc> = if fam == Fam::Roundtrip { ENC_ALL.to_vec() } else { ENC_BYTES.to_vec() };
    // dlt_args! is a macro: the harness instantiates it for 0..=4 arguments
    let encs: Vec<Enc> = encs.into_iter().filter(|e| *e != Enc::DltArgs || len <= 4).collect();
    let name = match fam {
        Fam::Roundtrip => "roundtrip",
        Fam::Truncate => "truncate_every_cut",
        Fam::Corrupt => "corrupt_every_field",
    };
    let sizes: Vec<String> = encs.iter().map(|e| alphabet(*e, alpha).len().to_string()).collect();
    ctx.begin_family(name, &format!("len={len} alphabet={} |sigma| per encoder={} encoders={}", alpha.name(), sizes.join("/"), encs.len()));
    let mut complete = true;
    let t0 = ctx.elapsed_s();
    for &enc in &encs {
        let table = sym_table(enc, alpha);
        let mut last_check = 0u64;
        let done = enumr::sequences(len, table.len(), |ix| {
            match fam {
                Fam::Roundtrip | Fam::Truncate => {
                    if ctx.mine() {
                        let vals: Vec<Val> = ix.iter().map(|i| table[*i].val.clone()).collect();
                        if fam == Fam::Roundtrip {
                            run_roundtrip(ctx, &vals, enc);
                        } else {
                            run_truncate(ctx, &vals, enc, None);
                        }
                    }
                }
                Fam::Corrupt => {
                    let syms: Vec<&Sym> = ix.iter().map(|i| &table[*i]).collect();
                    run_corrupt(ctx, &syms, enc, None);
                }
            }
            if ctx.sum.evaluations >= last_check + 1024 {
                last_check = ctx.sum.evaluations;
                if ctx.out_of_time() {
                    return false;
                }
            }
            true
        });
        if !done {
            complete = false;
            break;
        }
    }
    ctx.end_family(complete);
    // per-family cost (summed over the workers by the parent)
    ctx.extra_add(&format!("cpu_ms {name} len={len} {}", alpha.name()), ((ctx.elapsed_s() - t0) * 1000.0) as u64);
    complete
}

impl Prop for C18 {
    fn meta(&self, _tier: Tier) -> Meta {
        Meta {
            id: "C18",
            level: "exploration",
            rule: "every sequence of typed values up to the stated length over the stated value alphabet (bool, i8..i64, u8..u64 with 0/+-1/min/max, f32/f64 with +-0, extremes, subnormal, NaN, +-inf, UTF-8 / ASCII strings and raw data: empty, 1 char, NUL-terminated, double NUL, embedded NUL, CR/LF/TAB, non-UTF-8, 65000 / 65534 / 65535 / 65536 bytes) is encoded by the real encoders (payload_from_args in both byte orders; serde Serializer via to_payload/add_to_serializer and dlt_args! in native order), decoded by `for arg in &msg` and rendered by payload_as_text. Clauses: roundtrip (same count, type_info, raw bytes, byte order flag), text (independent matcher: decimal integers, true/false, float token that parses back to the value, lower-case hex for raw, one trailing NUL removed, CR/LF/TAB as blanks, runs of bytes >= 0x80 shown as at least one non-ASCII character, otherwise free; incl. strings that start with byte-order-mark look-alikes), encode_refused / oversize_accepted (a value is refused iff it does not fit the 16 bit length), trunc_prefix (every truncation point of the clean payload decodes to a prefix of the original list), corrupt_prefix (every replacement of one type-info or length field of argument j by a boundary value / single bit flip / other TYLE / other type leaves the arguments before j intact), reads_outside (every returned slice lies inside msg.payload), panic. A case is non-trivial when it has at least one argument / one byte.".into(),
            assumptions: vec![
                "value alphabet and sequence lengths as listed under coverage.families; sequences longer than the bound and values outside the alphabet are not explored".into(),
                "the serde Serializer NUL-terminates str/char values (documented in its source): expected raw value = UTF-8 bytes + NUL; ASCII strings and raw data are passed through as given".into(),
                "native byte order of the host (little endian) for the serde Serializer / dlt_args!; big endian only via payload_from_args".into(),
                "float text is judged numerically (token must be a decimal number that parses back to the same f32/f64, the sign of a zero included; NaN/inf by any spelling the Rust parser accepts); how bytes outside the string's character set are displayed is not judged; a blank between the bytes of a raw argument is optional but must be used uniformly (all or none) within the argument".into(),
                "messages are built as DltMessage structs (verbose, noar = number of arguments); header parsing is C01/C02".into(),
            ],
            budget_s: (90, 1200),
            workers: 0,
            required_landmarks: vec![
                "roundtrip_clean",
                "rt_payload_from_args_le",
                "rt_payload_from_args_be",
                "rt_serde_serializer",
                "rt_dlt_args_macro",
                "float_nan",
                "float_inf",
                "maximal_length_strg_rawd",
                "long_strg_rawd",
                "string_trailing_nul",
                "string_cr_lf_tab",
                "string_non_utf8",
                "three_type_classes_mixed",
                "oversize_refused_by_encoder",
                "cut_inside_type_info",
                "cut_inside_length_field",
                "cut_inside_data",
                "cut_at_arg_boundary",
                "cut_decodes_fewer_args",
                "cut_keeps_nonempty_prefix",
                "corrupt_type_info_field",
                "corrupt_length_field",
                "corrupt_decoding_stops_at_arg",
                "corrupt_decoding_continues",
                "corrupt_arg_reinterpreted_decoding_continues",
            ],
        }
    }

    fn run(&self, ctx: &mut Ctx) {
        use Alpha::*;
        use Fam::*;
        // bounds grow: smallest sequences first, across the three families
        let plan: Vec<(Fam, Alpha, usize)> = match ctx.tier {
            Tier::Quick => vec![
                (Roundtrip, Full, 0),
                (Roundtrip, Full, 1),
                (Truncate, Full, 1),
                (Corrupt, Full, 1),
                (Roundtrip, Full, 2),
                (Truncate, Full, 2),
                (Corrupt, Short, 2),
                (Roundtrip, Short, 3),
                (Truncate, Core, 3),
                (Corrupt, Core, 3),
                (Roundtrip, Core, 4),
            ],
            Tier::Thorough => vec![
                (Roundtrip, Full, 0),
                (Roundtrip, Full, 1),
                (Truncate, Full, 1),
                (Corrupt, Full, 1),
                (Roundtrip, Full, 2),
                (Truncate, Full, 2),
                (Corrupt, Full, 2),
                (Roundtrip, Full, 3),
                (Truncate, Short, 3),
                (Corrupt, Core, 3),
                (Roundtrip, Core, 4),
                (Roundtrip, Core, 5),
                (Truncate, Core, 4),
                (Corrupt, Core, 4),
                (Corrupt, Short, 3),
                (Truncate, Full, 3),
            ],
        };
        for (fam, alpha, len) in plan {
            if !explore(ctx, fam, alpha, len) {
                return;
            }
        }
    }

    fn replay(&self, case: &Value, ctx: &mut Ctx) {
        let enc = Enc::parse(case["enc"].as_str().expect("enc")).expect("encoder name");
        let vals: Vec<Val> = case["args"].as_array().expect("args").iter().map(|j| Val::from_json(j).expect("arg")).collect();
        match case["family"].as_str().unwrap_or("roundtrip") {
            "truncate" => {
                ctx.mine();
                run_truncate(ctx, &vals, enc, case.get("cut").and_then(|c| c.as_u64()).map(|c| c as usize));
            }
            "corrupt" => {
                let syms: Vec<Sym> = vals
                    .iter()
                    .map(|v| {
                        let exp = expected_arg(v, enc);
                        let ti_corr = exp.as_ref().map(|e| typeinfo_corruptions(e.0)).unwrap_or_default();
                        Sym { val: v.clone(), exp, ti_corr }
                    })
                    .collect();
                let refs: Vec<&Sym> = syms.iter().collect();
                let only = case.get("corrupt").and_then(|c| {
                    Some((c.get("arg")?.as_u64()? as usize, c.get("field")?.as_str()?.to_string(), c.get("value")?.as_u64()? as u32))
                });
                match only {
                    Some(o) => run_corrupt(ctx, &refs, enc, Some(o)),
                    None => {
                        // a base round trip failure recorded from this family: re-judge the base
                        ctx.mine();
                        let cj = || case_json("corrupt", enc, &vals, None, None);
                        let _ = judge_roundtrip(ctx, &vals, enc, false, &cj);
                    }
                }
            }
            _ => {
                ctx.mine();
                run_roundtrip(ctx, &vals, enc);
            }
        }
    }
}
