//! Event alphabet and deterministic stream generator for the lifecycle explorers (shared by mc and mc-sched).
use crate::core::dltgen::{mk_msg, CTRL_REQUEST_NV, CTRL_RESPONSE_NV, MTIN_LOG_INFO_V};
use adlt::dlt::DltMessage;

const S: u64 = 1_000_000;
const BASE: u64 = 100_000 * S; // reception base (us): below u32::MAX dms so that "ts > reception" is expressible

#[derive(Clone, Copy, Debug, PartialEq, Eq)]
pub enum Mode {
    Cont,
    New,
    Early3,
    Early30,
    Late3,
    /// from now on the ECU's timestamps are 30 s / 3 s larger (boot reference moves earlier for good)
    ShiftEarly30,
    ShiftEarly3,
    Overlap,
    Suspend,
    Ts0,
    TsMax,
    NoTmsp,
    CtrlReq,
    /// control response GET_SOFTWARE_VERSION: non-verbose with a version string
    SwVersNv,
    /// ... verbose: service id as UINT32 argument, version as string argument
    SwVersV,
    /// ... verbose with an empty string argument
    SwVersVEmpty,
    /// ... verbose with the service id argument only
    SwVersVNoArg,
}
#[derive(Clone, Copy, Debug, PartialEq, Eq)]
pub struct Sym {
    pub ecu: u8,
    /// reception advance in ms (may be negative)
    pub adv_ms: i64,
    pub mode: Mode,
}
impl Sym {
    pub fn name(&self) -> String {
        format!("{}{:+}ms:{:?}", (b'A' + self.ecu) as char, self.adv_ms, self.mode)
    }
    pub fn parse(s: &str) -> Option<Sym> {
        let ecu = s.as_bytes().first()?.checked_sub(b'A')?;
        let (adv, mode) = s[1..].split_once("ms:")?;
        let adv_ms: i64 = adv.parse().ok()?;
        let mode = match mode {
            "Cont" => Mode::Cont,
            "New" => Mode::New,
            "Early3" => Mode::Early3,
            "Early30" => Mode::Early30,
            "Late3" => Mode::Late3,
            "ShiftEarly30" => Mode::ShiftEarly30,
            "ShiftEarly3" => Mode::ShiftEarly3,
            "Overlap" => Mode::Overlap,
            "Suspend" => Mode::Suspend,
            "Ts0" => Mode::Ts0,
            "TsMax" => Mode::TsMax,
            "NoTmsp" => Mode::NoTmsp,
            "CtrlReq" => Mode::CtrlReq,
            "SwVersNv" => Mode::SwVersNv,
            "SwVersV" => Mode::SwVersV,
            "SwVersVEmpty" => Mode::SwVersVEmpty,
            "SwVersVNoArg" => Mode::SwVersVNoArg,
            _ => return None,
        };
        Some(Sym { ecu, adv_ms, mode })
    }
}

/// the alphabet; index 0 is the default symbol of the deviation-bounded families.
/// Advances approach the code's thresholds (1 s check interval, 2 s overlap window, 10 s resume gap,
/// 30 s resume slack, 60 s max buffering delay) from both sides.
pub fn alphabet(n: usize) -> Vec<Sym> {
    use Mode::*;
    let s = |ecu: u8, adv_ms: i64, mode: Mode| Sym { ecu, adv_ms, mode };
    let mut v = vec![
        s(0, 2000, Cont), // default
        s(0, 0, Cont),
        s(0, 12000, Cont),
        s(0, 59600, Cont),
        s(0, 65000, Cont),
        s(0, -1000, Cont),
        s(0, 2000, New),
        s(0, 12000, New),
        s(0, 65000, New),
        s(0, 0, New),
        s(0, 2000, Early3),
        s(0, 2000, Early30),
        s(0, 2000, Late3),
        s(0, 2000, Overlap),
        s(0, 12000, Overlap),
        s(0, 2000, Ts0),
        s(0, 2000, TsMax),
        s(0, 2000, NoTmsp),
        s(0, 2000, CtrlReq),
        s(0, 65000, CtrlReq),
        s(0, 12000, Suspend),
        s(0, 65000, Suspend),
        s(0, 59600, New),
        s(0, 65000, Early3),
        s(1, 2000, Cont),
        s(1, 0, Cont),
        s(1, 12000, Cont),
        s(1, 59600, Cont),
        s(1, 65000, Cont),
        s(1, 2000, New),
        s(1, 65000, New),
        s(1, 2000, Early3),
        s(1, 2000, Late3),
        s(1, 2000, Overlap),
        s(1, 2000, Ts0),
        s(1, 2000, CtrlReq),
        s(1, 2000, NoTmsp),
        s(1, -1000, Cont),
        s(1, 12000, New),
        s(1, 12000, Suspend),
        // 40 .. 47: extended
        s(0, 12000, Late3),
        s(0, 30500, Cont),
        s(0, 10500, Suspend),
        s(0, 2000, TsMax),
        s(1, 2000, Early30),
        s(1, 65000, Suspend),
        s(2, 2000, Cont),
        s(2, 65000, New),
    ];
    v[43] = s(0, 900, Cont);
    v.truncate(n);
    v
}

/// software-version control responses (they are looked into by the lifecycle detection) among normal messages
pub fn sw_version_alphabet() -> Vec<Sym> {
    use Mode::*;
    let s = |ecu: u8, adv_ms: i64, mode: Mode| Sym { ecu, adv_ms, mode };
    vec![s(0, 2000, Cont), s(0, 2000, New), s(0, 2000, SwVersNv), s(0, 2000, SwVersV), s(0, 2000, SwVersVEmpty), s(0, 2000, SwVersVNoArg), s(1, 2000, Cont), s(1, 2000, SwVersVEmpty)]
}

/// small alphabet around suspend/resume detection and start-estimate drift (full-depth family "resume_chains")
pub fn resume_alphabet() -> Vec<Sym> {
    use Mode::*;
    let s = |ecu: u8, adv_ms: i64, mode: Mode| Sym { ecu, adv_ms, mode };
    vec![
        s(0, 2000, Cont),
        s(0, 12000, Suspend),
        s(0, 65000, Suspend),
        s(0, 2000, ShiftEarly30),
        s(0, 2000, ShiftEarly3),
        s(0, 2000, Early3),
        s(0, 2000, Late3),
        s(0, 2000, New),
        s(1, 2000, Cont),
        s(1, 65000, New),
    ]
}

#[derive(Clone, Copy)]
struct EcuGen {
    known: bool,
    boot: u64,
    lc_start_est: u64,
    max_ts: u64,
}

/// deterministic stream generator: symbols -> messages
pub fn gen_stream(syms: &[Sym], uptime0_ms: u64) -> Vec<DltMessage> {
    let mut now = BASE;
    let mut ecus = [EcuGen { known: false, boot: 0, lc_start_est: 0, max_ts: 0 }; 3];
    let mut out = Vec::with_capacity(syms.len());
    for (i, sy) in syms.iter().enumerate() {
        if sy.adv_ms >= 0 {
            now += sy.adv_ms as u64 * 1000;
        } else {
            now -= (-sy.adv_ms) as u64 * 1000;
        }
        let e = &mut ecus[sy.ecu as usize];
        if !e.known {
            e.known = true;
            e.boot = now - uptime0_ms * 1000;
            e.lc_start_est = e.boot;
            e.max_ts = 0;
        }
        let mut with_tmsp = true;
        let mut ext = Some((MTIN_LOG_INFO_V, 0u8, *b"APID", *b"CTID"));
        let mut new_lc = false;
        let mut payload_override: Option<Vec<u8>> = None;
        let ts_us: u64 = match sy.mode {
            Mode::Cont => now.saturating_sub(e.boot),
            Mode::New => {
                e.boot = now - S / 2;
                new_lc = true;
                S / 2
            }
            Mode::Early3 => now.saturating_sub(e.boot) + 3 * S,
            Mode::Early30 => now.saturating_sub(e.boot) + 30 * S,
            Mode::Late3 => now.saturating_sub(e.boot).saturating_sub(3 * S),
            Mode::ShiftEarly30 => {
                e.boot = e.boot.saturating_sub(30 * S);
                now.saturating_sub(e.boot)
            }
            Mode::ShiftEarly3 => {
                e.boot = e.boot.saturating_sub(3 * S);
                now.saturating_sub(e.boot)
            }
            Mode::Overlap => {
                let end = e.lc_start_est + e.max_ts;
                let nb = end.saturating_sub(S / 2);
                if nb <= now {
                    e.boot = nb;
                    new_lc = true;
                }
                now.saturating_sub(e.boot)
            }
            Mode::Suspend => {
                // the ECU clock stood still during (almost) the whole reception gap
                let gap = if sy.adv_ms > 100 { sy.adv_ms as u64 * 1000 - 100_000 } else { 0 };
                e.boot += gap;
                now.saturating_sub(e.boot)
            }
            Mode::Ts0 => 0,
            Mode::TsMax => u32::MAX as u64 * 100,
            Mode::NoTmsp => {
                with_tmsp = false;
                0
            }
            Mode::CtrlReq => {
                ext = Some((CTRL_REQUEST_NV, 0u8, *b"APID", *b"CTID"));
                now.saturating_sub(e.boot)
            }
            Mode::SwVersNv | Mode::SwVersV | Mode::SwVersVEmpty | Mode::SwVersVNoArg => {
                let (vmm, noar, pl): (u8, u8, Vec<u8>) = match sy.mode {
                    Mode::SwVersNv => {
                        let mut p = vec![19, 0, 0, 0, 0, 5, 0, 0, 0];
                        p.extend_from_slice(b"SW1.0");
                        (CTRL_RESPONSE_NV, 0, p)
                    }
                    m => {
                        // UINT32 argument (type info 0x43) = service id 19
                        let mut p = vec![0x43, 0, 0, 0, 19, 0, 0, 0];
                        let noar = match m {
                            Mode::SwVersV => {
                                p.extend_from_slice(&[0x00, 0x02, 0, 0, 6, 0]);
                                p.extend_from_slice(b"SW2.0\0");
                                2
                            }
                            Mode::SwVersVEmpty => {
                                p.extend_from_slice(&[0x00, 0x02, 0, 0, 0, 0]);
                                2
                            }
                            _ => 1,
                        };
                        (CTRL_RESPONSE_NV | 1, noar, p)
                    }
                };
                ext = Some((vmm, noar, *b"APID", *b"CTID"));
                payload_override = Some(pl);
                now.saturating_sub(e.boot)
            }
        };
        let ts_dms = (ts_us / 100).min(u32::MAX as u64) as u32;
        if with_tmsp && sy.mode != Mode::CtrlReq && sy.mode != Mode::TsMax {
            let calc = now.saturating_sub(ts_dms as u64 * 100);
            if new_lc {
                e.lc_start_est = calc;
                e.max_ts = ts_dms as u64 * 100;
            } else {
                e.lc_start_est = e.lc_start_est.min(calc);
                e.max_ts = e.max_ts.max(ts_dms as u64 * 100);
            }
        }
        let ecu_name = [b'E', b'C', b'U', b'A' + sy.ecu];
        out.push(mk_msg(
            i as u32,
            &ecu_name,
            now,
            ts_dms,
            with_tmsp,
            ext,
            payload_override.unwrap_or_else(|| vec![i as u8, (i >> 8) as u8]),
        ));
    }
    out
}

