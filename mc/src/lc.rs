//! Lifecycle stage explorer: C05 (completeness/assignment), C06 (publication before delivery),
//! C07 (final table consistency + listing). Stateless exhaustive exploration of event sequences,
//! each executed on the real `parse_lifecycles_buffered_from_stream`.
use crate::core::*;
use adlt::dlt::DltMessage;
use adlt::lifecycle::{
    get_sorted_lifecycles_as_vec, parse_lifecycles_buffered_from_stream, Lifecycle, LifecycleId,
};
use serde_json::{json, Value};
use std::cell::RefCell;
use std::collections::BTreeMap;

pub use crate::lcgen::*;

#[derive(Clone, Debug)]
pub struct LcSnap {
    pub id: LifecycleId,
    pub ecu: [u8; 4],
    pub nr_msgs: u32,
    pub start: u64,
    pub end: u64,
    pub is_resume: bool,
    pub origin: Option<LifecycleId>,
}
fn snap(lc: &Lifecycle) -> LcSnap {
    LcSnap {
        id: lc.id(),
        ecu: *lc.ecu.as_buf(),
        nr_msgs: lc.nr_msgs,
        start: lc.start_time,
        end: if lc.nr_msgs > 0 { lc.end_time() } else { 0 },
        is_resume: lc.is_resume(),
        origin: lc.verif_resume_origin(),
    }
}

pub struct RunResult {
    /// delivered messages and, per delivery, what a table lookup of msg.lifecycle returned at that moment
    pub delivered: Vec<(DltMessage, Option<LcSnap>)>,
    /// first (j, i): the lifecycle of delivered message j was visible at its delivery but is gone from the table when
    /// message i is delivered (i = number of delivered messages: at the end of the run). A consumer that drains slowly
    /// looks message j's lifecycle up at that later moment.
    pub revoked: Option<(usize, usize)>,
    /// what a consumer ends up with that follows the table by refresh index the way the remote server does (at every
    /// delivery and once more after the stage has returned: entries whose lcs_w_refresh_idx is above the last one seen)
    /// None when the stage was run in several phases on one table: the refresh index restarts with every run of the stage
    pub followed: Option<BTreeMap<LifecycleId, LcSnap>>,
    /// final table (by id)
    pub table: BTreeMap<LifecycleId, LcSnap>,
    /// listing (ids in listing order) or the panic
    pub listing: Result<Vec<LifecycleId>, Panicked>,
}

type Lw = evmap::WriteHandle<
    LifecycleId,
    adlt::lifecycle::LifecycleItem,
    (),
    nohash_hasher::BuildNoHashHasher<LifecycleId>,
>;

/// run the real stage on one or more phases sharing the table
pub fn run_stage(phases: &[&[DltMessage]]) -> Result<RunResult, Panicked> {
    let (lcs_r, lcs_w) = evmap::Options::default()
        .with_hasher(nohash_hasher::BuildNoHashHasher::<LifecycleId>::default())
        .construct::<LifecycleId, adlt::lifecycle::LifecycleItem>();
    let delivered: RefCell<Vec<(DltMessage, Option<LcSnap>)>> = RefCell::new(Vec::new());
    let revoked: std::cell::Cell<Option<(usize, usize)>> = Default::default();
    let mut lw: Option<Lw> = Some(lcs_w);
    let follower: RefCell<(u32, BTreeMap<LifecycleId, LcSnap>)> = RefCell::new((0, BTreeMap::new()));
    let follow = || {
        let mut f = follower.borrow_mut();
        if let Some(rd) = lcs_r.read() {
            let last = f.0;
            for (id, b) in &rd {
                if let Some(lc) = b.get_one() {
                    if lc.lcs_w_refresh_idx > last {
                        f.0 = f.0.max(lc.lcs_w_refresh_idx);
                        f.1.insert(*id, snap(lc));
                    }
                }
            }
        }
    };
    for ph in phases {
        let (tx, rx) = std::sync::mpsc::channel();
        for m in ph.iter() {
            tx.send(m.clone()).unwrap();
        }
        drop(tx);
        let w = lw.take().unwrap();
        let r = catch(|| {
            parse_lifecycles_buffered_from_stream(w, rx, &|m: DltMessage| {
                let look = lcs_r.get_one(&m.lifecycle).map(|g| snap(&g));
                follow();
                let mut d = delivered.borrow_mut();
                if revoked.get().is_none() {
                    let i = d.len();
                    if let Some(j) = d.iter().position(|(pm, pl)| pl.is_some() && lcs_r.get_one(&pm.lifecycle).is_none()) {
                        revoked.set(Some((j, i)));
                    }
                }
                d.push((m, look));
                Ok(())
            })
        });
        match r {
            Ok(w) => lw = Some(w),
            Err(p) => return Err(p),
        }
    }
    let mut table = BTreeMap::new();
    let listing;
    {
        let rd = lcs_r.read();
        match rd {
            Some(rd) => {
                for (id, b) in &rd {
                    if let Some(lc) = b.get_one() {
                        table.insert(*id, snap(lc));
                    }
                }
                listing = catch(|| get_sorted_lifecycles_as_vec(&rd).iter().map(|l| l.id()).collect::<Vec<_>>());
            }
            None => {
                listing = Ok(vec![]);
            }
        }
    }
    follow();
    let delivered = delivered.into_inner();
    if revoked.get().is_none() {
        if let Some(j) = delivered.iter().position(|(pm, pl)| pl.is_some() && !table.contains_key(&pm.lifecycle)) {
            revoked.set(Some((j, delivered.len())));
        }
    }
    drop(lw);
    let followed = if phases.len() == 1 { Some(follower.into_inner().1) } else { None };
    Ok(RunResult { delivered, revoked: revoked.get(), followed, table, listing })
}

#[derive(Clone, Copy, PartialEq, Eq)]
pub enum Which {
    C05,
    C06,
    C07,
}

fn same_but_lifecycle(a: &DltMessage, b: &DltMessage) -> bool {
    a.index == b.index
        && a.reception_time_us == b.reception_time_us
        && a.ecu == b.ecu
        && a.timestamp_dms == b.timestamp_dms
        && a.standard_header == b.standard_header
        && a.extended_header == b.extended_header
        && a.payload == b.payload
        && a.payload_text == b.payload_text
}

/// evaluate the oracles of `which` on one case. Returns true if the case was non-trivial.
pub fn judge(
    ctx: &mut Ctx,
    which: Which,
    input: &[DltMessage],
    res: &Result<RunResult, Panicked>,
    case: &dyn Fn() -> Value,
) -> bool {
    let res = match res {
        Err(p) => {
            // the stage died: nothing further is forwarded -> completeness (C05) is violated.
            if which == Which::C05 {
                ctx.violation("panic", &p.loc, case, format!("stage panicked: {}", p.msg));
            } else {
                ctx.landmark("stage_panic_not_judged_here");
            }
            return true;
        }
        Ok(r) => r,
    };
    let n = input.len();
    // canonical numbering of ids by first appearance
    let mut canon: BTreeMap<LifecycleId, u32> = BTreeMap::new();
    for (m, _) in &res.delivered {
        let k = canon.len() as u32 + 1;
        canon.entry(m.lifecycle).or_insert(k);
    }
    // landmarks
    let mut nontrivial = false;
    let listed: Vec<&LcSnap> = res.table.values().collect();
    if let (Some(min), Some(max)) = (res.table.keys().next(), res.table.keys().last()) {
        if (max - min + 1) as usize > listed.len() {
            ctx.landmark("ids_consumed_not_listed(merge)");
            nontrivial = true;
        }
    }
    let mut per_ecu: BTreeMap<[u8; 4], u32> = BTreeMap::new();
    for l in &listed {
        *per_ecu.entry(l.ecu).or_default() += 1;
    }
    if per_ecu.values().any(|c| *c >= 2) {
        ctx.landmark("multi_lc_one_ecu");
        nontrivial = true;
    }
    if per_ecu.len() >= 2 {
        ctx.landmark("two_ecus");
        nontrivial = true;
    }
    if listed.iter().any(|l| l.is_resume) {
        ctx.landmark("resume_lc");
        nontrivial = true;
    }
    if listed.iter().any(|l| l.is_resume && l.origin.and_then(|o| res.table.get(&o)).map(|o| o.is_resume).unwrap_or(false)) {
        ctx.landmark("resume_of_resume");
    }
    if listed.iter().any(|l| l.is_resume && l.origin.and_then(|o| res.table.get(&o)).map(|o| l.start < o.start).unwrap_or(false)) {
        ctx.landmark("resume_start_before_origin_start");
    }
    if res
        .delivered
        .iter()
        .any(|(m, look)| match (look, res.table.get(&m.lifecycle)) {
            (Some(l), Some(f)) => l.nr_msgs < f.nr_msgs || l.start != f.start,
            _ => false,
        })
    {
        ctx.landmark("delivered_before_final_state");
        nontrivial = true;
    }
    // outcome hash
    {
        let mut s = String::new();
        for (m, _) in &res.delivered {
            s.push_str(&format!("{},", canon.get(&m.lifecycle).copied().unwrap_or(0)));
        }
        for l in &listed {
            s.push_str(&format!(
                "|{}:{:?}:{}:{}:{}",
                canon.get(&l.id).copied().unwrap_or(0),
                l.ecu,
                l.nr_msgs,
                l.start,
                l.is_resume
            ));
        }
        ctx.outcome(fnv_str(&s));
    }

    match which {
        Which::C05 => {
            if res.delivered.len() != n {
                ctx.violation(
                    "count",
                    if res.delivered.len() < n { "lost" } else { "duplicated" },
                    case,
                    format!("{} delivered for {} received", res.delivered.len(), n),
                );
                return true;
            }
            for (i, (m, _)) in res.delivered.iter().enumerate() {
                if !same_but_lifecycle(m, &input[i]) {
                    ctx.violation("order_or_content", "", case, format!("position {i}: {:?} != {:?}", m, input[i]));
                    return true;
                }
                if m.lifecycle == 0 {
                    ctx.violation("unassigned", "", case, format!("message {i} has lifecycle 0"));
                    return true;
                }
                match res.table.get(&m.lifecycle) {
                    None => {
                        ctx.violation("id_unknown", "", case, format!("message {i}: id {} not in final table", m.lifecycle));
                        return true;
                    }
                    Some(l) => {
                        if &l.ecu != m.ecu.as_buf() {
                            ctx.violation("id_wrong_ecu", "", case, format!("message {i}: lifecycle ecu {:?} != {:?}", l.ecu, m.ecu));
                            return true;
                        }
                    }
                }
            }
        }
        Which::C06 => {
            for (i, (m, look)) in res.delivered.iter().enumerate() {
                match look {
                    None => {
                        ctx.violation("not_published_at_delivery", "", case, format!("message {i} (lc {}) delivered before its lifecycle is visible", m.lifecycle));
                        return true;
                    }
                    Some(l) => {
                        if &l.ecu != m.ecu.as_buf() {
                            ctx.violation("published_wrong_ecu", "", case, format!("message {i}: visible lifecycle ecu {:?} != {:?}", l.ecu, m.ecu));
                            return true;
                        }
                    }
                }
            }
            // a consumer that drains slowly looks the lifecycle up later: the entry must still be there
            if let Some((j, i)) = res.revoked {
                let when = if i >= res.delivered.len() { "at the end of the run".to_string() } else { format!("when message {i} is delivered") };
                ctx.violation("publication_revoked", "", case, format!("message {j} (lc {}) was delivered with its lifecycle visible, but {when} that lifecycle is no longer in the table (a slower consumer finds none)", res.delivered[j].0.lifecycle));
                return true;
            }
        }
        Which::C07 => {
            let mut counts: BTreeMap<LifecycleId, u32> = BTreeMap::new();
            for (m, _) in &res.delivered {
                *counts.entry(m.lifecycle).or_default() += 1;
            }
            for l in &listed {
                if l.nr_msgs == 0 {
                    ctx.violation("a_merged_listed", "", case, format!("invalidated lifecycle {} listed", canon.get(&l.id).copied().unwrap_or(0)));
                    return true;
                }
                let c = counts.get(&l.id).copied().unwrap_or(0);
                if c == 0 {
                    ctx.violation("a_unreferenced", "", case, format!("listed lifecycle id {} (ecu {:?}, nr_msgs {}) carried by no delivered message", l.id, l.ecu, l.nr_msgs));
                    return true;
                }
                if c != l.nr_msgs {
                    ctx.violation("b_count", "", case, format!("lifecycle #{} nr_msgs {} but {} delivered", canon[&l.id], l.nr_msgs, c));
                    return true;
                }
            }
            let sum: u64 = listed.iter().map(|l| l.nr_msgs as u64).sum();
            if sum != res.delivered.len() as u64 {
                ctx.violation("c_sum", "", case, format!("sum of nr_msgs {} != {} messages", sum, res.delivered.len()));
                return true;
            }
            // the table as a consumer knows it that follows it by refresh index (what the remote server sends to clients)
            for l in listed.iter().filter(|_| res.followed.is_some()) {
                match res.followed.as_ref().unwrap().get(&l.id) {
                    None => {
                        ctx.violation("h_followed_missing", "", case, format!("a consumer following the table by refresh index never saw lifecycle #{} (nr_msgs {})", canon[&l.id], l.nr_msgs));
                        return true;
                    }
                    Some(f) => {
                        if f.nr_msgs != l.nr_msgs || f.start != l.start || f.end != l.end {
                            ctx.violation("h_followed_stale", "", case, format!("a consumer following the table by refresh index ends with lifecycle #{} as (nr_msgs {}, start {}, end {}), the table has ({}, {}, {})", canon[&l.id], f.nr_msgs, f.start, f.end, l.nr_msgs, l.start, l.end));
                            return true;
                        }
                    }
                }
            }
            match &res.listing {
                Err(p) => {
                    ctx.violation("d_listing_panic", &p.loc, case, p.msg.clone());
                    return true;
                }
                Ok(ids) => {
                    let mut sorted = ids.clone();
                    sorted.sort();
                    sorted.dedup();
                    let mut tids: Vec<_> = res.table.keys().copied().collect();
                    tids.sort();
                    if sorted.len() != ids.len() || sorted != tids {
                        ctx.violation("e_listing_set", "", case, format!("listing {:?} vs table {:?}", ids, tids));
                        return true;
                    }
                    let pos: BTreeMap<LifecycleId, usize> = ids.iter().enumerate().map(|(i, id)| (*id, i)).collect();
                    let mut any_resume = false;
                    for l in &listed {
                        if l.is_resume {
                            any_resume = true;
                            if let Some(o) = l.origin {
                                if let Some(po) = pos.get(&o) {
                                    if pos[&l.id] < *po {
                                        ctx.violation("f_resume_before_origin", "", case, format!("listing {:?}: resumed {} before origin {}", ids, l.id, o));
                                        return true;
                                    }
                                }
                            }
                        }
                    }
                    if !any_resume {
                        for w in ids.windows(2) {
                            if res.table[&w[0]].start > res.table[&w[1]].start {
                                ctx.violation("g_not_sorted", "", case, format!("listing not ordered by start time: {:?}", ids));
                                return true;
                            }
                        }
                    }
                }
            }
        }
    }
    nontrivial
}

pub struct LcProp(pub Which);

fn case_json(family: &str, uptime0: u64, syms: &[Sym], split: Option<usize>) -> Value {
    json!({"family": family, "uptime0_ms": uptime0, "split": split,
        "events": syms.iter().map(|s| s.name()).collect::<Vec<_>>() })
}

fn run_case(ctx: &mut Ctx, which: Which, family: &str, uptime0: u64, syms: &[Sym], split: Option<usize>, stride: u32) {
    let mut msgs = gen_stream(syms, uptime0);
    // index gaps: the detector schedules its regular table refresh by message index (every 100 000);
    // a stride lets short sequences cross that boundary. The judge sees positions again.
    if stride > 1 {
        msgs.iter_mut().for_each(|m| m.index *= stride);
    }
    let mut res = match split {
        None => run_stage(&[&msgs]),
        Some(k) => run_stage(&[&msgs[..k], &msgs[k..]]),
    };
    if stride > 1 {
        msgs.iter_mut().for_each(|m| m.index /= stride);
        if let Ok(r) = res.as_mut() {
            r.delivered.iter_mut().for_each(|(m, _)| m.index /= stride);
        }
    }
    ctx.transitions(syms.len() as u64);
    let cj = || {
        let mut j = case_json(family, uptime0, syms, split);
        j["index_stride"] = json!(stride);
        j
    };
    let nt = judge(ctx, which, &msgs, &res, &cj);
    ctx.eval(nt);
    ctx.sample(cj);
}

impl Prop for LcProp {
    fn meta(&self, _tier: Tier) -> Meta {
        let (id, what) = match self.0 {
            Which::C05 => ("C05", "every message forwarded once, in order, unchanged, with a non-zero lifecycle id of its own ECU; a panic of the stage counts as loss"),
            Which::C06 => ("C06", "at every call of the downstream sender a table lookup of the message's lifecycle id succeeds and names the message's ECU, and the entry of every message delivered earlier is still in the table (a slowly draining consumer looks it up then) (same-thread reader; cross-thread readers are covered by the scheduler engine under C13/C06-sched)"),
            Which::C07 => ("C07", "final table vs delivered messages (referenced, counts, sum, no merged entry), the table as known to a consumer that follows it by refresh index at every delivery and once at the end (the protocol of the remote server) equals the final table, and the listing (producible, each id once, resume after origin, start-time order without resumes)"),
        };
        Meta {
            id,
            level: "model_checking",
            rule: format!("stateless exhaustive exploration of event sequences over a {}-symbol alphabet derived from the detector's thresholds, each executed on the real parse_lifecycles_buffered_from_stream: (1) all sequences up to depth d, (2) all sequences of length L with <= k deviations from the default event, (3) all prefix/suffix splits run as two detector calls sharing the table. Oracle: {}. A case is non-trivial when it shows >= 1 landmark (merge, >= 2 lifecycles on one ECU, two ECUs, resume, delivery before the final table state).", alphabet(48).len(), what),
            assumptions: vec![
                "event alphabet and bounds as listed under coverage.families; timestamps/receptions outside the alphabet are not explored".into(),
                "lifecycle ids are canonicalised by order of first appearance (global id counter)".into(),
            ],
            budget_s: (90, 1500),
            workers: 0,
            required_landmarks: vec!["ids_consumed_not_listed(merge)", "multi_lc_one_ecu", "two_ecus", "delivered_before_final_state", "resume_lc", "resume_of_resume", "resume_start_before_origin_start"],
        }
    }

    fn run(&self, ctx: &mut Ctx) {
        let which = self.0;
        let sig40 = alphabet(40);
        let sig48 = alphabet(48);
        let uptimes: &[u64] = ctx.tier.pick(&[20_000][..], &[20_000, 500][..]);
        // (1) full depth
        let maxd = ctx.tier.pick(3, 5);
        for &up in uptimes {
            for d in 1..=maxd {
                if d == 5 && up != 20_000 {
                    continue; // depth 5 (102 M sequences) for one initial uptime only
                }
                ctx.begin_family("full_depth", &format!("depth={d} sigma=40 uptime0={up}ms"));
                let mut syms = vec![sig40[0]; d];
                let done = enumr::sequences(d, sig40.len(), |ix| {
                    if ctx.mine() {
                        for (i, x) in ix.iter().enumerate() {
                            syms[i] = sig40[*x];
                        }
                        run_case(ctx, which, "full_depth", up, &syms, None, 1);
                        if ctx.sum.evaluations % 4096 == 0 && ctx.out_of_time() {
                            return false;
                        }
                    }
                    true
                });
                ctx.end_family(done);
                if !done {
                    return;
                }
            }
        }
        // (1b) resume chains: full depth over the suspend/resume alphabet (chains of resumed lifecycles whose
        // start estimates drift below their origins)
        let ra = resume_alphabet();
        let rd = ctx.tier.pick(6, 8);
        for d in 2..=rd {
            ctx.begin_family("resume_chains", &format!("depth={d} sigma={} (suspend/resume + start drift) uptime0=20000ms", ra.len()));
            let mut syms = vec![ra[0]; d];
            let done = enumr::sequences(d, ra.len(), |ix| {
                if ctx.mine() {
                    for (i, x) in ix.iter().enumerate() {
                        syms[i] = ra[*x];
                    }
                    run_case(ctx, which, "resume_chains", 20_000, &syms, None, 1);
                    if ctx.sum.evaluations % 4096 == 0 && ctx.out_of_time() {
                        return false;
                    }
                }
                true
            });
            ctx.end_family(done);
            if !done {
                return;
            }
        }
        // (1b2) software-version control responses (non-verbose, verbose, verbose with an empty / a missing version
        // argument): the stage looks into their payload
        {
            let sa = sw_version_alphabet();
            let sd = ctx.tier.pick(4, 5);
            for d in 1..=sd {
                ctx.begin_family("sw_version_responses", &format!("depth={d} sigma={} (normal, new boot, 4 shapes of GET_SOFTWARE_VERSION responses, second ECU) uptime0=20000ms", sa.len()));
                let mut syms = vec![sa[0]; d];
                let done = enumr::sequences(d, sa.len(), |ix| {
                    if ctx.mine() {
                        for (i, x) in ix.iter().enumerate() {
                            syms[i] = sa[*x];
                        }
                        ctx.landmark("sw_version_response");
                        run_case(ctx, which, "sw_version_responses", 20_000, &syms, None, 1);
                        if ctx.sum.evaluations % 4096 == 0 && ctx.out_of_time() {
                            return false;
                        }
                    }
                    true
                });
                ctx.end_family(done);
                if !done {
                    return;
                }
            }
        }
        // (1c) index gaps: the same sequences with message indices 100 001 (50 001) apart, so that a regular
        // refresh of the published table falls after every (every second) directly forwarded message
        for &(stride, d40, dr) in ctx.tier.pick(&[(100_001u32, 3usize, 5usize), (50_001, 2, 5)][..], &[(100_001u32, 4usize, 7usize), (50_001, 3, 6)][..]) {
            for (name, sig, maxd) in [("sigma40", &sig40, d40), ("resume", &ra, dr)] {
                ctx.begin_family("index_gaps", &format!("depth=1..{maxd} alphabet={name}({}) index stride={stride} uptime0=20000ms", sig.len()));
                let mut done = true;
                for d in 1..=maxd {
                    let mut syms = vec![sig[0]; d];
                    done = enumr::sequences(d, sig.len(), |ix| {
                        if ctx.mine() {
                            for (i, x) in ix.iter().enumerate() {
                                syms[i] = sig[*x];
                            }
                            run_case(ctx, which, "index_gaps", 20_000, &syms, None, stride);
                            if ctx.sum.evaluations % 4096 == 0 && ctx.out_of_time() {
                                return false;
                            }
                        }
                        true
                    });
                    if !done {
                        break;
                    }
                }
                ctx.end_family(done);
                if !done {
                    return;
                }
            }
        }
        // (3) two-phase (pre-populated table)
        let maxd2 = ctx.tier.pick(3, 4);
        for d in 2..=maxd2 {
            ctx.begin_family("two_phase", &format!("depth={d} sigma=40 all splits"));
            let mut syms = vec![sig40[0]; d];
            let done = enumr::sequences(d, sig40.len(), |ix| {
                for k in 1..d {
                    if ctx.mine() {
                        for (i, x) in ix.iter().enumerate() {
                            syms[i] = sig40[*x];
                        }
                        run_case(ctx, which, "two_phase", 20_000, &syms, Some(k), 1);
                    }
                }
                !(ctx.sum.evaluations % 4096 == 0 && ctx.out_of_time())
            });
            ctx.end_family(done);
            if !done {
                return;
            }
        }
        // (3b) two-phase over the suspend/resume alphabet (the table handed to the second call holds merged, resumed
        // and emptied lifecycles): all splits up to depth 5, the last two splits at depth 6, the last split at depth 7 (thorough 8)
        let rd2 = ctx.tier.pick(7, 8);
        for d in 2..=rd2 {
            // number of trailing split positions explored at this depth
            let nsplits = if d <= 5 { d } else if d == 6 { 2 } else { 1 };
            ctx.begin_family("two_phase_resume", &format!("depth={d} sigma={} (suspend/resume + start drift) splits={}", ra.len(), if d <= 5 { "all".to_string() } else { format!("last {nsplits}") }));
            let mut syms = vec![ra[0]; d];
            let done = enumr::sequences(d, ra.len(), |ix| {
                for k in 1..d {
                    if k + nsplits < d {
                        continue;
                    }
                    if ctx.mine() {
                        for (i, x) in ix.iter().enumerate() {
                            syms[i] = ra[*x];
                        }
                        run_case(ctx, which, "two_phase_resume", 20_000, &syms, Some(k), 1);
                    }
                }
                !(ctx.sum.evaluations % 4096 == 0 && ctx.out_of_time())
            });
            ctx.end_family(done);
            if !done {
                return;
            }
        }
        // (2) deviation bounded
        let plans: &[(usize, usize)] = ctx.tier.pick(&[(10, 2), (8, 3)][..], &[(10, 3), (12, 3), (9, 4)][..]);
        for &(len, kmax) in plans {
            for &up in uptimes {
                for k in 0..=kmax {
                    ctx.begin_family("deviation_bounded", &format!("L={len} k={k} sigma=48 uptime0={up}ms"));
                    let mut syms = vec![sig48[0]; len];
                    let done = enumr::deviations_exact(len, k, sig48.len(), 0, &mut |ix| {
                        if ctx.mine() {
                            for (i, x) in ix.iter().enumerate() {
                                syms[i] = sig48[*x];
                            }
                            run_case(ctx, which, "deviation_bounded", up, &syms, None, 1);
                            if ctx.sum.evaluations % 4096 == 0 && ctx.out_of_time() {
                                return false;
                            }
                        }
                        true
                    });
                    ctx.end_family(done);
                    if !done {
                        return;
                    }
                }
            }
        }
    }

    fn replay(&self, case: &Value, ctx: &mut Ctx) {
        let syms: Vec<Sym> = case["events"]
            .as_array()
            .expect("events")
            .iter()
            .map(|s| Sym::parse(s.as_str().unwrap()).expect("symbol"))
            .collect();
        let up = case["uptime0_ms"].as_u64().unwrap_or(20_000);
        let split = case["split"].as_u64().map(|x| x as usize);
        let fam = case["family"].as_str().unwrap_or("replay").to_string();
        ctx.mine();
        let stride = case["index_stride"].as_u64().unwrap_or(1) as u32;
        run_case(ctx, self.0, &fam, up, &syms, split, stride);
    }
}
