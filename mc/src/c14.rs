//! C14 — `adlt convert` selects exactly what its options say and writes what it selected.
//! Full product of option combinations x file-argument permutations against the freshly built binary;
//! the reference selection is computed in the harness from the generated input.
use crate::core::dltgen::*;
use crate::core::*;
use crate::rem::{build_adlt_bin, scratch_dir, verbose_str_payload, adlt_bin};
use adlt::dlt::DltMessage;
use adlt::utils::DltMessageIterator;
use serde_json::{json, Value};
use std::process::Command;

pub struct C14;

#[derive(Clone, Debug)]
pub struct Gm {
    pub file: usize,
    pub ecu: [u8; 4],
    pub apid: [u8; 4],
    pub ctid: [u8; 4],
    pub recv_us: u64,
    pub ts_dms: u32,
    pub mcnt: u8,
    pub text: String,
}

/// four input files: f0 = ECU1 (two boots), f1 = ECU2, f2 = continuation of ECU1's second boot, f3 = both ECUs.
/// All reception times are distinct and increasing inside a file; garbage sits between messages of f0.
fn gen_inputs() -> Vec<Vec<Gm>> {
    let base: u64 = 1_640_000_000_000_000;
    let s = 1_000_000u64;
    let mut f0 = vec![];
    let mut f1 = vec![];
    let mut f2 = vec![];
    let ids = [(*b"AP1\0", *b"CT1\0"), (*b"AP1\0", *b"CT2\0"), (*b"AP2\0", *b"CT1\0"), (*b"AP2\0", *b"CT2\0")];
    // ECU1 boot 1: 5 msgs, uptime 10 s.., reception base+0..4 s
    for i in 0..5u64 {
        let (a, c) = ids[i as usize % 4];
        f0.push(Gm { file: 0, ecu: *b"ECU1", apid: a, ctid: c, recv_us: base + i * s + 7, ts_dms: 100_000 + i as u32 * 10_000, mcnt: i as u8, text: format!("boot1 msg {i}") });
    }
    // ECU1 boot 2 (100 s later, timestamp restarts): 3 msgs in f0, 3 more in f2
    for i in 0..3u64 {
        let (a, c) = ids[(i as usize + 1) % 4];
        f0.push(Gm { file: 0, ecu: *b"ECU1", apid: a, ctid: c, recv_us: base + 100 * s + i * s + 11, ts_dms: 20_000 + i as u32 * 10_000, mcnt: 10 + i as u8, text: format!("boot2 msg {i}") });
    }
    for i in 3..6u64 {
        let (a, c) = ids[(i as usize + 2) % 4];
        f2.push(Gm { file: 2, ecu: *b"ECU1", apid: a, ctid: c, recv_us: base + 100 * s + i * s + 13, ts_dms: 20_000 + i as u32 * 10_000, mcnt: 10 + i as u8, text: format!("boot2 cont {i}") });
    }
    // ECU2: 5 msgs interleaved in time with ECU1 boot 1
    for i in 0..5u64 {
        let (a, c) = ids[(i as usize + 3) % 4];
        // message 1 is delivered 0.9 s late (reception 2.4 s, timestamp as if sent at 1.5 s): in --sort order it moves
        // ahead of three messages with smaller indices, so index windows and time order disagree
        let late = if i == 1 { 900_000 } else { 0 };
        f1.push(Gm { file: 1, ecu: *b"ECU2", apid: a, ctid: c, recv_us: base + i * s + s / 2 + 3 + late, ts_dms: 500_000 + i as u32 * 10_000, mcnt: 20 + i as u8, text: format!("ecu2 msg {i}") });
    }
    // f3: a file that carries BOTH ECUs (e.g. ECU2 tunnelled via ECU1), interleaved in time with f0/f1:
    // files with nested but unequal ECU sets must still be treated as separate parallel streams
    let mut f3 = vec![];
    for (k, off_ms) in [1250u64, 1750, 2250, 2750].iter().enumerate() {
        let recv = base + off_ms * 1000 + 17;
        if k % 2 == 0 {
            f3.push(Gm { file: 3, ecu: *b"ECU1", apid: *b"AP2\0", ctid: *b"CT2\0", recv_us: recv, ts_dms: 100_000 + (*off_ms as u32) * 10, mcnt: 40 + k as u8, text: format!("mixed ecu1 {k}") });
        } else {
            f3.push(Gm { file: 3, ecu: *b"ECU2", apid: *b"AP1\0", ctid: *b"C9\0\0", recv_us: recv, ts_dms: 500_000 + (*off_ms as u32 - 500) * 10, mcnt: 40 + k as u8, text: format!("mixed ecu2 {k}") });
        }
    }
    vec![f0, f1, f2, f3]
}

fn file_bytes(msgs: &[Gm], with_garbage: bool) -> Vec<u8> {
    let mut b = vec![];
    for (i, m) in msgs.iter().enumerate() {
        if with_garbage && i % 3 == 1 {
            b.extend_from_slice(&crate::c01::garbage(5 + i, 6));
        }
        let spec = MsgSpec {
            framing: Framing::Storage,
            htyp: VERS1 | UEH | WEID | WTMS,
            storage_ecu: m.ecu,
            hdr_ecu: m.ecu,
            apid: m.apid,
            ctid: m.ctid,
            mcnt: m.mcnt,
            session_id: 0,
            timestamp: m.ts_dms,
            secs: (m.recv_us / 1_000_000) as u32,
            micros: (m.recv_us % 1_000_000) as u32,
            verb_mstp_mtin: 0x41,
            noar: 1,
            payload: verbose_str_payload(&m.text),
        };
        b.extend_from_slice(&spec.to_bytes());
    }
    b
}

#[derive(Clone, Debug)]
struct Cfg {
    b: Option<u32>,
    e: Option<u32>,
    lcs: Option<Vec<u32>>,
    eac: usize,
    ffile: usize, // 0 none, 1 dlf, 2 dlt-convert list
    sort: bool,
    style: usize, // 0 -a, 1 -x, 2 -s, 3 none
    out: bool,
    perm: usize,
    dup: bool,
    /// the -o target exists already and is longer than any export
    stale: bool,
}
const EACS: [&str; 4] = ["", "ECU1", ":AP1", "ECU2:AP2:CT2,ECU1::CT1"];

fn cfg_json(c: &Cfg) -> Value {
    let ffn = ["", "dlf", "dlt-convert", "dlf with marker+event filters", "dlf with a payload text that starts with a blank", "dlt-convert list of 1003 pairs (10 KB), the matching ones last"][c.ffile];
    let stn = ["-a", "-x", "-s", ""][c.style];
    json!({"family": "options", "b": c.b, "e": c.e, "lcs": c.lcs, "eac": EACS[c.eac], "eac_i": c.eac, "filter_file": ffn, "ffile": c.ffile,
        "sort": c.sort, "style": stn, "style_i": c.style, "o": c.out, "file_perm": c.perm, "dup_file_arg": c.dup, "o_target_exists": c.stale})
}
fn cfg_from_json(v: &Value) -> Cfg {
    Cfg {
        b: v["b"].as_u64().map(|x| x as u32),
        e: v["e"].as_u64().map(|x| x as u32),
        lcs: v["lcs"].as_array().map(|a| a.iter().map(|x| x.as_u64().unwrap() as u32).collect()),
        eac: v["eac_i"].as_u64().unwrap() as usize,
        ffile: v["ffile"].as_u64().unwrap() as usize,
        sort: v["sort"].as_bool().unwrap(),
        style: v["style_i"].as_u64().unwrap() as usize,
        out: v["o"].as_bool().unwrap(),
        perm: v["file_perm"].as_u64().unwrap() as usize,
        dup: v["dup_file_arg"].as_bool().unwrap_or(false),
        stale: v["o_target_exists"].as_bool().unwrap_or(false),
    }
}

pub struct World {
    pub dir: String,
    pub files: Vec<String>,
    /// merged unfiltered input in index order
    pub merged: Vec<Gm>,
    /// CLI lifecycle id per merged message (fresh process: ids count from 1 in creation order)
    lc: Vec<u32>,
    /// calculated time per merged message (lifecycle start + timestamp, capped at the reception time)
    calc: Vec<u64>,
    dlf: String,
    dlf_marker: String,
    dlf_blank: String,
    conv: String,
    /// the same list behind 1000 pairs that match nothing (a file larger than any reader's default buffer)
    conv_big: String,
}

fn trim4(b: &[u8; 4]) -> &[u8] {
    let n = b.iter().position(|x| *x == 0).unwrap_or(4);
    &b[..n]
}

impl World {
    pub fn build() -> World {
        let dir = scratch_dir();
        let inputs = gen_inputs();
        let mut files = vec![];
        for (i, f) in inputs.iter().enumerate() {
            let p = format!("{dir}/in{i}.dlt");
            let mut bytes = file_bytes(f, i == 0);
            if i == 1 {
                // the ECU2 file starts with 100 000 marker-free bytes: its first message lies far behind the start
                // (but inside the first read window) and must still be found by the per-file scan
                let mut b = crate::c01::garbage(100_000, 6);
                b.append(&mut bytes);
                bytes = b;
            }
            std::fs::write(&p, bytes).expect("write input");
            files.push(p);
        }
        // merged order: every file is sorted and all reception times are distinct -> global reception order
        let mut merged: Vec<Gm> = inputs.into_iter().flatten().collect();
        merged.sort_by_key(|m| m.recv_us);
        // lifecycle ids: run the library detector on the merged stream; a fresh process counts ids from 1
        let msgs: Vec<DltMessage> = merged.iter().enumerate().map(|(i, m)| mk_msg(i as u32, &m.ecu, m.recv_us, m.ts_dms, true, Some((0x41, 1, m.apid, m.ctid)), verbose_str_payload(&m.text))).collect();
        let mut probe = msgs[0].clone();
        let x = adlt::lifecycle::Lifecycle::new(&mut probe).id();
        let res = crate::lc::run_stage(&[&msgs]).expect("lifecycle stage");
        let mut lc = vec![0u32; merged.len()];
        let mut calc = vec![0u64; merged.len()];
        for (m, _) in &res.delivered {
            lc[m.index as usize] = m.lifecycle - x;
            let start = res.table.get(&m.lifecycle).map(|l| l.start).unwrap_or(0);
            calc[m.index as usize] = (start + m.timestamp_dms as u64 * 100).min(m.reception_time_us);
        }
        // filter files
        let dlf = format!("{dir}/f.dlf");
        std::fs::write(&dlf, r#"<?xml version="1.0" encoding="UTF-8"?>
<dltfilter>
  <filter><type>0</type><name>p</name><ecuid></ecuid><applicationid>AP1</applicationid><contextid></contextid><headertext></headertext><payloadtext></payloadtext><enableregexp_Appid>0</enableregexp_Appid><enablefilter>1</enablefilter><enableecuid>0</enableecuid><enableapplicationid>1</enableapplicationid><enablecontextid>0</enablecontextid><enableheadertext>0</enableheadertext><enablepayloadtext>0</enablepayloadtext></filter>
  <filter><type>1</type><name>n</name><ecuid></ecuid><applicationid></applicationid><contextid>CT2</contextid><enableregexp_Context>0</enableregexp_Context><enablefilter>1</enablefilter><enableecuid>0</enableecuid><enableapplicationid>0</enableapplicationid><enablecontextid>1</enablecontextid><enablepayloadtext>0</enablepayloadtext></filter>
</dltfilter>
"#).expect("write dlf");
        // a dlf file that also holds an enabled marker (type 2) and an enabled event (type 3) filter: both are no
        // selection filters for convert
        let dlf_marker = format!("{dir}/f_marker.dlf");
        std::fs::write(&dlf_marker, r#"<?xml version="1.0" encoding="UTF-8"?>
<dltfilter>
  <filter><type>0</type><name>p</name><applicationid>AP1</applicationid><enableregexp_Appid>0</enableregexp_Appid><enablefilter>1</enablefilter><enableecuid>0</enableecuid><enableapplicationid>1</enableapplicationid><enablecontextid>0</enablecontextid><enablepayloadtext>0</enablepayloadtext></filter>
  <filter><type>2</type><name>m</name><contextid>CT2</contextid><enableregexp_Context>0</enableregexp_Context><enablefilter>1</enablefilter><enableecuid>0</enableecuid><enableapplicationid>0</enableapplicationid><enablecontextid>1</enablecontextid><enablepayloadtext>0</enablepayloadtext></filter>
  <filter><type>3</type><name>e</name><ecuid>ECU2</ecuid><enablefilter>1</enablefilter><enableecuid>1</enableecuid><enableapplicationid>0</enableapplicationid><enablecontextid>0</enablecontextid><enablepayloadtext>0</enablepayloadtext></filter>
</dltfilter>
"#).expect("write dlf");
        // a dlf whose positive filter is a payload text with a leading blank (" 1" is in "boot1 msg 1" but not in "boot1 msg 0")
        let dlf_blank = format!("{dir}/f_blank.dlf");
        std::fs::write(&dlf_blank, r#"<?xml version="1.0" encoding="UTF-8"?>
<dltfilter>
  <filter><type>0</type><name>p</name><payloadtext> 1</payloadtext><enablefilter>1</enablefilter><enableecuid>0</enableecuid><enableapplicationid>0</enableapplicationid><enablecontextid>0</enablecontextid><enablepayloadtext>1</enablepayloadtext><ignoreCase_Payload>0</ignoreCase_Payload><enableregexp_Payload>0</enableregexp_Payload></filter>
</dltfilter>
"#).expect("write dlf");
        let conv = format!("{dir}/f.txt");
        // third pair: a context id shorter than its application id
        std::fs::write(&conv, "AP2- CT1- AP1- CT2- AP1- C9-- ").expect("write conv");
        let conv_big = format!("{dir}/fbig.txt");
        let mut big = String::new();
        for i in 0..1000 {
            big.push_str(&format!("X{:03} Y{:03} ", i % 1000, i % 1000));
        }
        big.push_str("AP2- CT1- AP1- CT2- AP1- C9-- ");
        std::fs::write(&conv_big, big).expect("write conv_big");
        World { dir, files, merged, lc, calc, dlf, dlf_marker, dlf_blank, conv, conv_big }
    }
    /// positive filters (ecu, apid, ctid) and negative filters of a configuration
    fn keep(&self, c: &Cfg, m: &Gm) -> bool {
        let mut pos: Vec<(Option<&[u8]>, Option<&[u8]>, Option<&[u8]>)> = vec![];
        let mut neg: Vec<(Option<&[u8]>, Option<&[u8]>, Option<&[u8]>)> = vec![];
        match c.ffile {
            1 => {
                pos.push((None, Some(b"AP1"), None));
                neg.push((None, None, Some(b"CT2")));
            }
            2 | 5 => {
                pos.push((None, Some(b"AP2"), Some(b"CT1")));
                pos.push((None, Some(b"AP1"), Some(b"CT2")));
                pos.push((None, Some(b"AP1"), Some(b"C9")));
            }
            3 => {
                // marker and event filters do not select
                pos.push((None, Some(b"AP1"), None));
            }
            _ => {}
        }
        for ex in EACS[c.eac].split(',').filter(|s| !s.is_empty()) {
            let mut p = ex.split(':');
            let f = |x: Option<&'static str>| x.filter(|s| !s.is_empty()).map(|s| s.as_bytes());
            pos.push((f(p.next()), f(p.next()), f(p.next())));
        }
        let hit = |f: &(Option<&[u8]>, Option<&[u8]>, Option<&[u8]>)| f.0.map_or(true, |e| e == trim4(&m.ecu)) && f.1.map_or(true, |a| a == trim4(&m.apid)) && f.2.map_or(true, |x| x == trim4(&m.ctid));
        // ffile 4: one positive payload filter (a text with a leading blank); positive filters of all sources are OR-ed
        let pay_pos = c.ffile == 4;
        let pay_hit = pay_pos && m.text.contains(" 1");
        ((pos.is_empty() && !pay_pos) || pos.iter().any(hit) || pay_hit) && !neg.iter().any(hit)
    }
    fn expected(&self, c: &Cfg) -> Vec<u32> {
        let mut v = vec![];
        for (i, m) in self.merged.iter().enumerate() {
            let i = i as u32;
            if !self.keep(c, m) {
                continue;
            }
            if let Some(l) = &c.lcs {
                if !l.contains(&self.lc[i as usize]) {
                    continue;
                }
            }
            if i < c.b.unwrap_or(0) || i > c.e.unwrap_or(u32::MAX) {
                continue;
            }
            v.push(i);
        }
        v
    }
}

fn perms4() -> Vec<Vec<usize>> {
    let mut v = vec![];
    enumr::permutations(4, |p| {
        v.push(p.to_vec());
        true
    });
    v.sort();
    v
}

fn run_cfg(w: &World, c: &Cfg, tag: u64) -> Vec<(String, String, String)> {
    let mut viol = vec![];
    let mut cmd = Command::new(adlt_bin());
    cmd.arg("convert");
    match c.style {
        0 => {
            cmd.arg("-a");
        }
        1 => {
            cmd.arg("-x");
        }
        2 => {
            cmd.arg("-s");
        }
        _ => {}
    }
    if let Some(b) = c.b {
        cmd.arg("-b").arg(b.to_string());
    }
    if let Some(e) = c.e {
        cmd.arg("-e").arg(e.to_string());
    }
    if let Some(l) = &c.lcs {
        cmd.arg(format!("--lcs={}", l.iter().map(|x| x.to_string()).collect::<Vec<_>>().join(",")));
    }
    if c.eac > 0 {
        cmd.arg(format!("--eac={}", EACS[c.eac]));
    }
    match c.ffile {
        1 => {
            cmd.arg("-f").arg(&w.dlf);
        }
        2 => {
            cmd.arg("-f").arg(&w.conv);
        }
        5 => {
            cmd.arg("-f").arg(&w.conv_big);
        }
        4 => {
            cmd.arg("-f").arg(&w.dlf_blank);
        }
        3 => {
            cmd.arg("-f").arg(&w.dlf_marker);
        }
        _ => {}
    }
    if c.sort {
        cmd.arg("--sort");
    }
    let outp = format!("{}/out-{}.dlt", w.dir, tag);
    if c.out {
        cmd.arg("-o").arg(&outp);
        if c.stale {
            // all input files twice: valid messages, longer than any export
            let mut stale = vec![];
            for _ in 0..2 {
                for f in &w.files {
                    stale.extend_from_slice(&std::fs::read(f).unwrap_or_default());
                }
            }
            std::fs::write(&outp, stale).expect("prefill -o target");
        }
    }
    let perm = &perms4()[c.perm];
    for i in perm {
        cmd.arg(&w.files[*i]);
    }
    if c.dup {
        cmd.arg(&w.files[perm[0]]);
    }
    let out = match cmd.output() {
        Ok(o) => o,
        Err(e) => {
            viol.push(("spawn".into(), "".into(), e.to_string()));
            return viol;
        }
    };
    let expected = w.expected(c);
    if !out.status.success() {
        let stderr = String::from_utf8_lossy(&out.stderr);
        let loc = stderr.lines().find(|l| l.contains("panicked at")).unwrap_or("").to_string();
        viol.push(("exit_status".into(), loc.chars().take(80).collect(), format!("adlt convert exited with {:?}: {}", out.status.code(), stderr.chars().take(300).collect::<String>())));
        let _ = std::fs::remove_file(&outp);
        return viol;
    }
    if c.style < 3 {
        let text = String::from_utf8_lossy(&out.stdout);
        let mut got: Vec<u32> = vec![];
        for l in text.lines() {
            match l.split(' ').next().and_then(|t| t.parse::<u32>().ok()) {
                Some(i) => got.push(i),
                None => {
                    viol.push(("output_format".into(), "".into(), format!("line without leading index: '{}'", l.chars().take(80).collect::<String>())));
                    break;
                }
            }
        }
        let mut sorted = got.clone();
        sorted.sort();
        if sorted.windows(2).any(|p| p[0] == p[1]) {
            viol.push(("duplicate_output".into(), "".into(), format!("indices printed twice: {:?}", got)));
        }
        if sorted != expected {
            viol.push(("selection".into(), sel_disc(c), format!("printed indices {:?} != expected {:?}", sorted, expected)));
        } else if !c.sort && got != expected {
            viol.push(("order".into(), "".into(), format!("unsorted output not ascending: {:?}", got)));
        } else if c.sort {
            // the generated input satisfies the sort premise (reception never decreases, delays of a few ms << 20 s):
            // the output must be ordered by calculated time, ties in original order
            let mut want = expected.clone();
            want.sort_by_key(|i| (w.calc[*i as usize], *i));
            if got != want {
                viol.push(("sorted_order".into(), "".into(), format!("--sort output order {:?} != order by calculated time {:?}", got, want)));
            }
        }
        // the text of every printed line must be the message's (ascii style)
        if c.style == 0 {
            for l in text.lines() {
                if let Some(i) = l.split(' ').next().and_then(|t| t.parse::<usize>().ok()) {
                    if let Some(m) = w.merged.get(i) {
                        if !l.contains(&m.text) || !l.contains(std::str::from_utf8(trim4(&m.ecu)).unwrap()) {
                            viol.push(("content".into(), "".into(), format!("line for index {i} does not show message '{}' of {:?}: {}", m.text, m.ecu, l)));
                            break;
                        }
                    }
                }
            }
        }
    }
    if c.out {
        match std::fs::read(&outp) {
            Err(e) => viol.push(("o_missing".into(), "".into(), e.to_string())),
            Ok(bytes) => {
                let mut it = DltMessageIterator::new(0, &bytes[..]);
                let re: Vec<DltMessage> = it.by_ref().collect();
                let mut want: Vec<&Gm> = expected.iter().map(|i| &w.merged[*i as usize]).collect();
                let mut have: Vec<(u64, u32, u8, [u8; 4], Vec<u8>)> = re.iter().map(|m| (m.reception_time_us, m.timestamp_dms, m.mcnt(), *m.ecu.as_buf(), m.payload.clone())).collect();
                if c.sort {
                    want.sort_by_key(|m| m.recv_us);
                    have.sort();
                }
                let want2: Vec<(u64, u32, u8, [u8; 4], Vec<u8>)> = want.iter().map(|m| (m.recv_us, m.ts_dms, m.mcnt, m.ecu, verbose_str_payload(&m.text))).collect();
                if it.bytes_skipped != 0 {
                    viol.push(("o_garbage".into(), "".into(), format!("{} bytes of the written file are not messages", it.bytes_skipped)));
                }
                if have != want2 {
                    viol.push(("o_content".into(), sel_disc(c), format!("written file re-reads to {} messages {:?}, expected {} {:?}", have.len(), have.iter().map(|h| h.2).collect::<Vec<_>>(), want2.len(), want2.iter().map(|h| h.2).collect::<Vec<_>>())));
                }
            }
        }
        let _ = std::fs::remove_file(&outp);
    }
    viol
}

fn sel_disc(c: &Cfg) -> String {
    let mut d = vec![];
    if c.b.is_some() || c.e.is_some() {
        d.push("window");
    }
    if c.lcs.is_some() {
        d.push("lcs");
    }
    if c.eac > 0 {
        d.push("eac");
    }
    if c.ffile > 0 {
        d.push("ffile");
    }
    if c.perm > 0 || c.dup {
        d.push("file_order");
    }
    d.join("+")
}

fn configs(tier: Tier) -> Vec<Cfg> {
    let thorough = tier == Tier::Thorough;
    let bs: Vec<Option<u32>> = if thorough { vec![None, Some(0), Some(3)] } else { vec![None, Some(3)] };
    let es: Vec<Option<u32>> = if thorough { vec![None, Some(5), Some(100)] } else { vec![None, Some(5)] };
    // (ids also in descending order and repeated on the command line)
    let lcss: Vec<Option<Vec<u32>>> = if thorough { vec![None, Some(vec![1]), Some(vec![2]), Some(vec![1, 3]), Some(vec![3, 1]), Some(vec![2, 3, 1, 2])] } else { vec![None, Some(vec![2]), Some(vec![1, 3]), Some(vec![3, 2, 1, 3])] };
    let eacs: Vec<usize> = if thorough { vec![0, 1, 2, 3] } else { vec![0, 2, 3] };
    let ffiles = [0usize, 1, 2, 3];
    let sorts = [false, true];
    let styles_out: Vec<(usize, bool)> = if thorough { vec![(0, false), (1, false), (2, false), (0, true), (1, true), (2, true), (3, true)] } else { vec![(0, false), (2, true), (3, true)] };
    // sorted permutations of 4 files: 0 = identity, 18 = [3,0,1,2] (the two-ECU file first), 17 = [2,3,1,0]
    // (thorough: 6 of the 24 orders in the full option product - identity, reversal and four that move each file to the
    // front; all 24 orders would need twice the time cap. The duplicate-file sub-product below uses further orders.)
    let perms: Vec<usize> = if thorough { vec![0, 7, 12, 17, 18, 23] } else { vec![0, 18] };
    let mut v = vec![];
    let mut main = vec![];
    for b in &bs {
        for e in &es {
            for lcs in &lcss {
                for &eac in &eacs {
                    for &ffile in &ffiles {
                        for &sort in &sorts {
                            for &(style, out) in &styles_out {
                                for &perm in &perms {
                                    main.push(Cfg { b: *b, e: *e, lcs: lcs.clone(), eac, ffile, sort, style, out, perm, dup: false, stale: false });
                                }
                            }
                        }
                    }
                }
            }
        }
    }
    // the dlf with a blank-leading payload text: small product
    for &eac in &eacs {
        for &sort in &sorts {
            for (style, out) in [(0usize, false), (3, true)] {
                v.push(Cfg { b: None, e: None, lcs: None, eac, ffile: 4, sort, style, out, perm: 0, dup: false, stale: false });
            }
        }
    }
    // the long dlt-convert list: small product
    for &eac in &eacs {
        for &sort in &sorts {
            for (style, out) in [(0usize, false), (3, true)] {
                v.push(Cfg { b: None, e: None, lcs: None, eac, ffile: 5, sort, style, out, perm: 0, dup: false, stale: false });
            }
        }
    }
    // the same file named twice (dedup by canonical content/time), small product
    for &eac in &eacs {
        for &sort in &sorts {
            for perm in [0usize, 7, 12, 18, 23] {
                v.push(Cfg { b: None, e: None, lcs: None, eac, ffile: 0, sort, style: 0, out: true, perm, dup: true, stale: false });
            }
        }
    }
    // the -o target exists already (a second export to the same path): every selecting option, no filter files
    let stale: Vec<Cfg> = main.iter().chain(v.iter()).filter(|c| c.out && c.ffile == 0 && c.eac == 0 && c.perm == 0 && !c.dup).map(|c| Cfg { stale: true, ..c.clone() }).collect();
    v.extend(stale);
    // the small sub-products first, the full product last (it is the part a time cap may cut)
    v.extend(main);
    v
}

impl Prop for C14 {
    fn meta(&self, _t: Tier) -> Meta {
        Meta {
            id: "C14",
            level: "exploration",
            rule: "full product of adlt convert options against the binary built from the working tree: -b {-,0,3} x -e {-,5,100} x --lcs {-,{1},{2},{1,3},{3,1},{2,3,1,2}} x --eac {-,ECU1,:AP1,'ECU2:AP2:CT2,ECU1::CT1'} x -f {-, DLF file (positive APID + negative CTID), dlt-convert list, DLF file with an additional enabled marker and event filter} x --sort x style/-o {-a,-x,-s with and without -o, -o alone} x file orders (quick 2, thorough 6 of the 24 permutations) of four generated input files (ECU1 with two boots and garbage between messages, ECU2 behind 100 000 bytes of leading garbage, a continuation file of ECU1, a file carrying both ECUs interleaved in time) + the first file named twice + every -o combination without filter options once more onto a target path that holds a longer, older export (quick: a 2-3 valued sub-product). Oracle computed in the harness from the generated messages: merged index order = global reception order, lifecycle ids = library detector on the merged stream renumbered as a fresh process counts, filters by their stated meaning (--eac parsed independently); printed indices = expected selection, each once, ascending when unsorted, ascii lines show the message; the -o file re-reads (library iterator, nothing skipped) to exactly the selected messages; identical for every file-argument order. Non-trivial = any selecting option set.".into(),
            assumptions: vec!["one generated input set (20 messages, 4 files); lifecycle ids of the CLI are assumed to count from 1 in creation order in a fresh process".into()],
            budget_s: (150, 1500),
            workers: 1,
            required_landmarks: vec!["window", "lcs", "eac", "ffile_dlf", "ffile_conv", "ffile_dlf_marker", "ffile_dlf_blank_payload", "ffile_conv_long", "sort", "o_file", "o_target_exists", "perm", "empty_selection", "nonempty_selection", "export_twice", "large_input", "file_order_ties"],
        }
    }
    fn prepare(&self, _t: Tier) -> Result<(), String> {
        build_adlt_bin()
    }
    fn run(&self, ctx: &mut Ctx) {
        let w = std::sync::Arc::new(World::build());
        let cfgs = configs(ctx.tier);
        ctx.begin_family("options", &format!("{} option combinations x file orders", cfgs.len()));
        let n = cfgs.len();
        let tasks = std::sync::Arc::new(std::sync::Mutex::new(cfgs.into_iter().enumerate().rev().collect::<Vec<_>>()));
        let results: std::sync::Arc<std::sync::Mutex<Vec<(usize, Cfg, Vec<(String, String, String)>)>>> = Default::default();
        let stop = std::sync::Arc::new(std::sync::atomic::AtomicBool::new(false));
        let nthreads = std::thread::available_parallelism().map(|n| n.get()).unwrap_or(4);
        let mut hs = vec![];
        for _ in 0..nthreads {
            let (tasks, results, w, stop) = (tasks.clone(), results.clone(), w.clone(), stop.clone());
            hs.push(std::thread::spawn(move || loop {
                if stop.load(std::sync::atomic::Ordering::Relaxed) {
                    break;
                }
                let t = tasks.lock().unwrap().pop();
                match t {
                    None => break,
                    Some((i, c)) => {
                        let v = run_cfg(&w, &c, i as u64);
                        results.lock().unwrap().push((i, c, v));
                    }
                }
            }));
        }
        loop {
            std::thread::sleep(std::time::Duration::from_millis(100));
            if tasks.lock().unwrap().is_empty() || ctx.out_of_time() {
                break;
            }
        }
        let timed_out = !tasks.lock().unwrap().is_empty();
        if timed_out {
            stop.store(true, std::sync::atomic::Ordering::Relaxed);
        }
        for h in hs {
            let _ = h.join();
        }
        let mut res = std::mem::take(&mut *results.lock().unwrap());
        res.sort_by_key(|r| r.0);
        for (_, c, v) in res {
            ctx.mine();
            let exp = w.expected(&c);
            for (flag, name) in [(c.b.is_some() || c.e.is_some(), "window"), (c.lcs.is_some(), "lcs"), (c.eac > 0, "eac"), (c.ffile == 1, "ffile_dlf"), (c.ffile == 2, "ffile_conv"), (c.ffile == 3, "ffile_dlf_marker"), (c.ffile == 4, "ffile_dlf_blank_payload"), (c.ffile == 5, "ffile_conv_long"), (c.sort, "sort"), (c.out, "o_file"), (c.stale, "o_target_exists"), (c.perm > 0, "perm"), (exp.is_empty(), "empty_selection"), (!exp.is_empty(), "nonempty_selection")] {
                if flag {
                    ctx.landmark(name);
                }
            }
            ctx.outcome(fnv_str(&format!("{:?}", exp)));
            ctx.eval(exp.len() != w.merged.len());
            ctx.sample(|| cfg_json(&c));
            for (cl, d, detail) in v {
                ctx.violation(&cl, &d, || cfg_json(&c), detail);
            }
        }
        let _ = n;
        ctx.end_family(!timed_out);
        // export of the export is byte-identical (C02 at CLI level), for every file order and with --sort
        ctx.begin_family("export_twice", "convert -o a.dlt <files>; convert -o b.dlt a.dlt; a == b; for 4 file orders x sort");
        for perm in [0usize, 7, 18, 23] {
            for sort in [false, true] {
                ctx.mine();
                let (a, b) = (format!("{}/exp-a-{perm}-{sort}.dlt", w.dir), format!("{}/exp-b-{perm}-{sort}.dlt", w.dir));
                let mut c1 = Command::new(adlt_bin());
                c1.arg("convert").arg("-o").arg(&a);
                if sort {
                    c1.arg("--sort");
                }
                for i in &perms4()[perm] {
                    c1.arg(&w.files[*i]);
                }
                let ok1 = c1.output().map(|o| o.status.success()).unwrap_or(false);
                let ok2 = Command::new(adlt_bin()).arg("convert").arg("-o").arg(&b).arg(&a).output().map(|o| o.status.success()).unwrap_or(false);
                let (ba, bb) = (std::fs::read(&a).unwrap_or_default(), std::fs::read(&b).unwrap_or_default());
                let cj = || json!({"family": "export_twice", "file_perm": perm, "sort": sort});
                if !ok1 || !ok2 || ba.is_empty() {
                    ctx.violation("export_failed", "", cj, format!("convert -o failed ({ok1}, {ok2}, {} bytes)", ba.len()));
                } else if ba != bb {
                    ctx.violation("export_of_export_differs", "", cj, format!("{} vs {} bytes", ba.len(), bb.len()));
                }
                ctx.landmark("export_twice");
                ctx.eval(true);
            }
        }
        ctx.end_family(true);
        // file order with ties: two files of different ECUs whose first messages have distinct reception times and
        // whose later messages tie across the files; every option set must print / write the same for both orders
        {
            ctx.begin_family("file_order_ties", "two files (ECU1 / ECU2), first messages at distinct times, later messages with identical reception times across the files: output for (f1 f2) == output for (f2 f1) for -a, -a -b 2 -e 7, -a --sort, -o, -o -b 3 -e 9");
            let mk = |ecu: &[u8; 4], times_s: &[u32], tag: &str| -> Vec<u8> {
                let mut b = vec![];
                for (i, t) in times_s.iter().enumerate() {
                    let spec = MsgSpec {
                        htyp: VERS1 | UEH | WEID | WTMS,
                        storage_ecu: *ecu,
                        hdr_ecu: *ecu,
                        apid: *b"AP1\0",
                        ctid: *b"CT1\0",
                        mcnt: i as u8,
                        timestamp: 10_000 + t * 10_000,
                        secs: 1_650_000_000 + t,
                        micros: 0,
                        verb_mstp_mtin: 0x41,
                        noar: 1,
                        payload: verbose_str_payload(&format!("{tag} {i}")),
                        ..Default::default()
                    };
                    b.extend_from_slice(&spec.to_bytes());
                }
                b
            };
            let (f1, f2) = (format!("{}/tie1.dlt", w.dir), format!("{}/tie2.dlt", w.dir));
            std::fs::write(&f1, mk(b"ECU1", &[0, 2, 4, 6, 8, 10], "one")).expect("write");
            std::fs::write(&f2, mk(b"ECU2", &[1, 2, 4, 5, 10, 11], "two")).expect("write");
            let optsets: Vec<Vec<&str>> = vec![vec!["-a"], vec!["-a", "-b", "2", "-e", "7"], vec!["-a", "--sort"], vec!["-o"], vec!["-o", "-b", "3", "-e", "9"]];
            for (oi, opts) in optsets.iter().enumerate() {
                if !ctx.mine() {
                    continue;
                }
                let cj = || json!({"family": "file_order_ties", "options": opts});
                let mut outs = vec![];
                for (k, order) in [[&f1, &f2], [&f2, &f1]].iter().enumerate() {
                    let mut cmd = Command::new(adlt_bin());
                    cmd.arg("convert");
                    let outp = format!("{}/tie-out-{oi}-{k}.dlt", w.dir);
                    for o in opts {
                        cmd.arg(o);
                        if *o == "-o" {
                            cmd.arg(&outp);
                        }
                    }
                    cmd.arg(order[0]).arg(order[1]);
                    match cmd.output() {
                        Ok(o) if o.status.success() => {
                            let written = std::fs::read(&outp).unwrap_or_default();
                            let _ = std::fs::remove_file(&outp);
                            // printed lines without the date column are compared as they are; written files by their messages
                            let file_msgs: Vec<(u32, Vec<u8>)> = DltMessageIterator::new(0, &written[..]).map(|m| (m.timestamp_dms, m.payload.clone())).collect();
                            outs.push((String::from_utf8_lossy(&o.stdout).to_string(), file_msgs));
                        }
                        Ok(o) => ctx.violation("exit_status", "file_order_ties", cj, format!("adlt convert exited with {:?}", o.status.code())),
                        Err(e) => ctx.violation("spawn", "", cj, e.to_string()),
                    }
                }
                if outs.len() == 2 && outs[0] != outs[1] {
                    let first_diff = outs[0].0.lines().zip(outs[1].0.lines()).position(|(a, b)| a != b);
                    ctx.violation("file_order", "ties_across_files", cj, format!("the two file orders give different results (first differing printed line {:?}; written files hold {} / {} messages{})", first_diff, outs[0].1.len(), outs[1].1.len(), if outs[0].1 != outs[1].1 { ", different sequences" } else { "" }));
                }
                ctx.landmark("file_order_ties");
                ctx.eval(true);
                ctx.sample(cj);
            }
            ctx.end_family(true);
        }
        // inputs larger than the reader's buffer: a maximum-size message at every buffered-byte count around the low
        // mark of convert's file reader (the option product above runs on small files only)
        let (lo, hi) = ctx.tier.pick((65_525usize, 65_565usize), (65_400usize, 65_700usize));
        ctx.begin_family("large_input", &format!("convert -o on 600 KB normal-form files with a maximum-size message starting where {lo}..={hi} bytes of the first 512 KiB are left: every message emitted, output identical"));
        for in_buf in lo..=hi {
            if ctx.mine() {
                let cj = || json!({"family": "large_input", "window_in_buf": in_buf});
                ctx.landmark("large_input");
                if let Err(e) = crate::c02::cli_window_export(&w.dir, in_buf, 65535) {
                    ctx.violation("large_input", "window", cj, e);
                }
                ctx.eval(true);
            }
        }
        ctx.end_family(true);
        let _ = std::fs::remove_dir_all(&w.dir);
    }
    fn replay(&self, case: &Value, ctx: &mut Ctx) {
        ctx.mine();
        if build_adlt_bin().is_err() {
            return;
        }
        let w = World::build();
        if case["family"] == "large_input" {
            if let Err(e) = crate::c02::cli_window_export(&w.dir, case["window_in_buf"].as_u64().unwrap_or(65540) as usize, 65535) {
                ctx.violation("large_input", "window", || case.clone(), e);
            }
            ctx.eval(true);
            let _ = std::fs::remove_dir_all(&w.dir);
            return;
        }
        let c = cfg_from_json(case);
        for (cl, d, detail) in run_cfg(&w, &c, 0) {
            ctx.violation(&cl, &d, || case.clone(), detail);
        }
        ctx.eval(true);
        let _ = std::fs::remove_dir_all(&w.dir);
    }
}
