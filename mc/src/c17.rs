//! C17 — embedded file transfers (FLST / FLDA / FLFI) are reassembled bit-exactly or not at all.
//!
//! Bounded exhaustive exploration through the public plugin API (`FileTransferPlugin::from_json`,
//! `process_msg`, `state()`, the state's `apply_command`): every case of the families below is a
//! message stream built by the harness (own verbose payload encoder) and executed on the real plugin
//! with a sandbox directory; the oracle is a small reference model (the original bytes + the fault
//! that was injected).
use crate::core::dltgen::mk_msg;
use crate::core::*;
use adlt::dlt::DltMessage;
use adlt::plugins::file_transfer::FileTransferPlugin;
use adlt::plugins::plugin::Plugin;
use serde::{Deserialize, Serialize};
use serde_json::{json, Value};
use std::collections::BTreeMap;
use std::path::{Path, PathBuf};

// ------------------------------------------------------------------------------------------ case
#[derive(Serialize, Deserialize, Clone, Debug, PartialEq)]
#[serde(rename_all = "snake_case")]
pub enum Fault {
    None,
    /// package i (1-based) is missing
    Drop(usize),
    /// an identical copy of package `pkg` is inserted right after list element `after`
    /// (list = [FLST, pkg 1, .., pkg N, FLFI] -> element numbers 0 ..= N+1; after == pkg: adjacent)
    Dup { pkg: usize, after: usize },
    /// packages i and i+1 arrive in the wrong order
    Swap(usize),
    /// package i carries one byte more / less
    Grow(usize),
    Shrink(usize),
    DropFlst,
    DropFlfi,
    /// the announcement is repeated right after list element `after` (0 ..= N); not part of the
    /// statement's fault list: observed only (if it completes the bytes must be right)
    DupFlst { after: usize },
    /// the end marker is repeated
    DupFlfi,
}
impl Fault {
    fn kind(&self) -> &'static str {
        match self {
            Fault::None => "none",
            Fault::Drop(_) => "drop",
            Fault::Dup { .. } => "dup",
            Fault::Swap(_) => "swap",
            Fault::Grow(_) => "grow",
            Fault::Shrink(_) => "shrink",
            Fault::DropFlst => "drop_flst",
            Fault::DropFlfi => "drop_flfi",
            Fault::DupFlst { .. } => "dup_flst",
            Fault::DupFlfi => "dup_flfi",
        }
    }
}
#[derive(Clone, Copy, PartialEq, Eq, Debug)]
enum Class {
    /// all packages arrive in order (duplicates tolerated): must be reported complete and be savable
    Must,
    /// a package is missing / out of order / of inconsistent size: never complete, nothing saved
    Never,
    /// announcement or end marker missing: the statement does not say whether it completes;
    /// if it is reported complete the bytes must be right
    Free,
}

#[derive(Serialize, Deserialize, Clone, Debug)]
pub struct Tr {
    pub ecu: String,
    pub lc: u32,
    pub serial: u64,
    /// announced file name; `$ROOT` is replaced by the sandbox root at run time
    pub name: String,
    /// original file content (hex in the case JSON)
    #[serde(with = "hexbytes")]
    pub content: Vec<u8>,
    /// announced package (buffer) size
    pub b: usize,
    pub fault: Fault,
}
impl Tr {
    fn n(&self) -> usize {
        self.content.len().div_ceil(self.b)
    }
    fn class(&self) -> Class {
        match self.fault {
            Fault::None | Fault::Dup { .. } => Class::Must,
            Fault::Drop(_) | Fault::Swap(_) | Fault::Grow(_) | Fault::Shrink(_) => Class::Never,
            Fault::DropFlst | Fault::DropFlfi | Fault::DupFlst { .. } | Fault::DupFlfi => Class::Free,
        }
    }
    /// discriminator for "not complete although it had to be"
    fn must_disc(&self) -> &'static str {
        match self.fault {
            Fault::Dup { after, .. } if after < self.n() => "duplicate_arrives_before_last_package",
            Fault::Dup { .. } => "duplicate_arrives_after_last_package",
            _ => "no_fault",
        }
    }
}

/// an announcement (FLST only) of another transfer with arbitrary numeric fields
#[derive(Serialize, Deserialize, Clone, Debug)]
pub struct Bogus {
    pub ecu: String,
    pub lc: u32,
    pub serial: u64,
    pub name: String,
    pub nr_packages: u64,
    pub buffer_size: u64,
    pub file_size: u64,
    /// encode the numeric fields as 64 bit (else 32 bit) unsigned
    pub wide: bool,
}

#[derive(Serialize, Deserialize, Clone, Copy, Debug, PartialEq)]
#[serde(rename_all = "snake_case")]
pub enum Unrel {
    /// verbose log info with one string argument
    Text,
    /// non-verbose message
    NonVerbose,
    /// FLDA package 2 with transfer 0's serial and lifecycle but from another ECU
    StrayEcu,
    /// .. same ECU and serial, other lifecycle
    StrayLc,
    /// .. same ECU and lifecycle, unknown serial
    StraySerial,
    /// 5 arguments, first one "FLDA", last one not
    FakeFlda,
}

#[derive(Serialize, Deserialize, Clone, Copy, Debug, PartialEq)]
#[serde(rename_all = "snake_case")]
pub enum Pre {
    None,
    File,
    Dir,
    /// symlink whose target `$ROOT/outside.bin` does not exist
    Dangling,
    /// symlink to the existing file `$ROOT/outside.bin`
    SymlinkToFile,
}

#[derive(Serialize, Deserialize, Clone, Debug)]
pub struct Cfg {
    pub allow_save: bool,
    pub keep_flda: bool,
    /// autoSaveGlob; autoSavePath is `$ROOT/out` whenever a glob is given
    pub glob: Option<String>,
    /// does the configured directory exist before the run
    pub out_exists: bool,
    pub trailing_slash: bool,
    /// something that exists in the configured directory before the run, and its name
    pub pre: Pre,
    pub pre_name: String,
}
impl Cfg {
    fn save_only() -> Cfg {
        Cfg {
            allow_save: true,
            keep_flda: false,
            glob: None,
            out_exists: true,
            trailing_slash: false,
            pre: Pre::None,
            pre_name: String::new(),
        }
    }
}

#[derive(Serialize, Deserialize, Clone, Debug)]
pub struct Case {
    pub family: String,
    pub cfg: Cfg,
    pub big_endian: bool,
    pub transfers: Vec<Tr>,
    #[serde(default)]
    pub bogus: Vec<Bogus>,
    #[serde(default)]
    pub unrelated: Vec<Unrel>,
    /// for every stream position the source it is taken from: 0..T-1 = transfers, then the bogus
    /// announcements (one message each), then (one more source) the unrelated messages in order
    pub order: Vec<usize>,
    /// run in a child process (announced sizes for which the allocator may abort)
    #[serde(default)]
    pub isolate: bool,
}

mod hexbytes {
    use serde::{Deserialize, Deserializer, Serializer};
    pub fn serialize<S: Serializer>(b: &[u8], s: S) -> Result<S::Ok, S::Error> {
        s.serialize_str(&crate::core::hex(b))
    }
    pub fn deserialize<'de, D: Deserializer<'de>>(d: D) -> Result<Vec<u8>, D::Error> {
        let s = String::deserialize(d)?;
        Ok(crate::core::unhex(&s))
    }
}

const PRE_CONTENT: &[u8] = b"pre-existing content";
const OUTSIDE_CONTENT: &[u8] = b"outside content";

/// position- and transfer-coded content: a misplaced, repeated, missing or foreign byte is visible
pub fn content(t: usize, s: usize) -> Vec<u8> {
    (0..s).map(|i| (0x10 * (t + 1) + i + 1) as u8).collect()
}

// ------------------------------------------------------------------------------------------ message builder (own encoder)
const TI_STRG: u32 = 0x200;
const TI_RAWD: u32 = 0x400;
const TI_U32: u32 = 0x40 | 3;
const TI_U64: u32 = 0x40 | 4;
const TI_S32: u32 = 0x20 | 3;

struct Enc {
    be: bool,
    v: Vec<u8>,
}
impl Enc {
    fn new(be: bool) -> Enc {
        Enc { be, v: Vec::with_capacity(64) }
    }
    fn u16(&mut self, x: u16) {
        self.v.extend_from_slice(&if self.be { x.to_be_bytes() } else { x.to_le_bytes() });
    }
    fn u32(&mut self, x: u32) {
        self.v.extend_from_slice(&if self.be { x.to_be_bytes() } else { x.to_le_bytes() });
    }
    fn u64(&mut self, x: u64) {
        self.v.extend_from_slice(&if self.be { x.to_be_bytes() } else { x.to_le_bytes() });
    }
    fn a_str(&mut self, s: &[u8]) {
        self.u32(TI_STRG);
        self.u16(s.len() as u16 + 1);
        self.v.extend_from_slice(s);
        self.v.push(0);
    }
    fn a_u32(&mut self, x: u32) {
        self.u32(TI_U32);
        self.u32(x);
    }
    /// serials that fit 32 bits are logged as 32-bit unsigned arguments, larger ones as 64-bit ones
    fn a_serial(&mut self, x: u64) {
        if x <= u32::MAX as u64 {
            self.a_u32(x as u32);
        } else {
            self.a_u64(x);
        }
    }
    fn a_u64(&mut self, x: u64) {
        self.u32(TI_U64);
        self.u64(x);
    }
    fn a_s32(&mut self, x: i32) {
        self.u32(TI_S32);
        self.u32(x as u32);
    }
    fn a_raw(&mut self, d: &[u8]) {
        self.u32(TI_RAWD);
        self.u16(d.len() as u16);
        self.v.extend_from_slice(d);
    }
}

fn ecu4(s: &str) -> [u8; 4] {
    let mut e = [0u8; 4];
    for (i, b) in s.bytes().take(4).enumerate() {
        e[i] = b;
    }
    e
}

fn mk(ecu: &str, lc: u32, verbose: bool, noar: u8, be: bool, payload: Vec<u8>) -> DltMessage {
    let mut m = mk_msg(
        0,
        &ecu4(ecu),
        0,
        0,
        true,
        Some((if verbose { 0x41 } else { 0x40 }, noar, *b"SYS\0", *b"FILE")),
        payload,
    );
    if be {
        m.standard_header.htyp |= crate::core::dltgen::MSBF;
    }
    m.lifecycle = lc;
    m
}

fn m_flst(ecu: &str, lc: u32, be: bool, serial: u64, name: &str, size: u64, nr: u64, buf: u64, wide: bool) -> DltMessage {
    let mut e = Enc::new(be);
    e.a_str(b"FLST");
    e.a_serial(serial);
    e.a_str(name.as_bytes());
    if wide {
        e.a_u64(size);
    } else {
        e.a_u32(size as u32);
    }
    e.a_str(b"2022-06-02 21:54:00");
    if wide {
        e.a_u64(nr);
        e.a_u64(buf);
    } else {
        e.a_u32(nr as u32);
        e.a_u32(buf as u32);
    }
    e.a_str(b"FLST");
    mk(ecu, lc, true, 8, be, e.v)
}
fn m_flda(ecu: &str, lc: u32, be: bool, serial: u64, nr: u32, data: &[u8], last: &[u8]) -> DltMessage {
    let mut e = Enc::new(be);
    e.a_str(b"FLDA");
    e.a_serial(serial);
    e.a_s32(nr as i32);
    e.a_raw(data);
    e.a_str(last);
    mk(ecu, lc, true, 5, be, e.v)
}
fn m_flfi(ecu: &str, lc: u32, be: bool, serial: u64) -> DltMessage {
    let mut e = Enc::new(be);
    e.a_str(b"FLFI");
    e.a_serial(serial);
    e.a_str(b"FLFI");
    mk(ecu, lc, true, 3, be, e.v)
}

/// the message list of one transfer with its fault applied
fn transfer_msgs(t: &Tr, be: bool, root: &str) -> Vec<DltMessage> {
    let n = t.n();
    let name = t.name.replace("$ROOT", root);
    let mut pk: Vec<(u32, Vec<u8>)> = (0..n)
        .map(|i| {
            let lo = i * t.b;
            let hi = ((i + 1) * t.b).min(t.content.len());
            (i as u32 + 1, t.content[lo..hi].to_vec())
        })
        .collect();
    // element numbering: 0 = FLST, 1..=n packages, n+1 = FLFI
    let mut with_flst = true;
    let mut with_flfi = true;
    let mut dup_after_flfi: Option<(u32, Vec<u8>)> = None;
    match t.fault {
        Fault::None => {}
        Fault::Drop(i) => {
            pk.remove(i - 1);
        }
        Fault::Dup { pkg, after } => {
            let c = pk[pkg - 1].clone();
            if after > n {
                dup_after_flfi = Some(c);
            } else {
                pk.insert(after, c); // element `after` sits at pk[after-1]
            }
        }
        Fault::Swap(i) => pk.swap(i - 1, i),
        Fault::Grow(i) => pk[i - 1].1.push(0xee),
        Fault::Shrink(i) => {
            pk[i - 1].1.pop();
        }
        Fault::DropFlst => with_flst = false,
        Fault::DropFlfi => with_flfi = false,
        Fault::DupFlst { .. } | Fault::DupFlfi => {}
    }
    let flst = || m_flst(&t.ecu, t.lc, be, t.serial, &name, t.content.len() as u64, n as u64, t.b as u64, false);
    let mut v = Vec::with_capacity(pk.len() + 3);
    if with_flst {
        v.push(flst());
    }
    if t.fault == (Fault::DupFlst { after: 0 }) {
        v.push(flst());
    }
    for (i, (nr, d)) in pk.iter().enumerate() {
        v.push(m_flda(&t.ecu, t.lc, be, t.serial, *nr, d, b"FLDA"));
        if t.fault == (Fault::DupFlst { after: i + 1 }) {
            v.push(flst());
        }
    }
    if with_flfi {
        v.push(m_flfi(&t.ecu, t.lc, be, t.serial));
    }
    if t.fault == Fault::DupFlfi {
        v.push(m_flfi(&t.ecu, t.lc, be, t.serial));
    }
    if let Some((nr, d)) = dup_after_flfi {
        v.push(m_flda(&t.ecu, t.lc, be, t.serial, nr, &d, b"FLDA"));
    }
    v
}
/// number of messages of a transfer (without building them)
fn transfer_len(t: &Tr) -> usize {
    let n = t.n();
    match t.fault {
        Fault::None | Fault::Swap(_) | Fault::Grow(_) | Fault::Shrink(_) => n + 2,
        Fault::Dup { .. } | Fault::DupFlst { .. } | Fault::DupFlfi => n + 3,
        Fault::Drop(_) | Fault::DropFlst | Fault::DropFlfi => n + 1,
    }
}

fn unrel_msg(u: Unrel, t0: &Tr, be: bool) -> DltMessage {
    let junk = vec![0xdd; t0.b];
    match u {
        Unrel::Text => {
            let mut e = Enc::new(be);
            e.a_str(b"hello FLDA FLST FLFI");
            mk(&t0.ecu, t0.lc, true, 1, be, e.v)
        }
        Unrel::NonVerbose => mk(&t0.ecu, t0.lc, false, 0, be, vec![1, 2, 3, 4, 5, 6]),
        Unrel::StrayEcu => m_flda("ECUX", t0.lc, be, t0.serial, 2, &junk, b"FLDA"),
        Unrel::StrayLc => m_flda(&t0.ecu, t0.lc + 77, be, t0.serial, 2, &junk, b"FLDA"),
        Unrel::StraySerial => m_flda(&t0.ecu, t0.lc, be, t0.serial + 777, 2, &junk, b"FLDA"),
        Unrel::FakeFlda => m_flda(&t0.ecu, t0.lc, be, t0.serial, 2, &junk, b"FLDX"),
    }
}

// ------------------------------------------------------------------------------------------ sandbox
/// One temp dir per worker: `<tmp>/n1/root/{out,saved}`. `out` is the configured auto-save directory,
/// `saved` belongs to the harness (targets of the save command). The directory state is synchronised
/// incrementally from what the previous case's scan found (no blind re-creation per case).
pub struct Sandbox {
    _td: tempfile::TempDir,
    top: PathBuf,
    root: PathBuf,
    /// what is known to exist right now (root-relative paths, as delivered by `scan`)
    current: std::cell::RefCell<BTreeMap<String, Entry>>,
}
/// the root sits two levels below the temp dir so that names like ../../x (seen from out/) stay inside it
const ROOT_REL: &str = "n1/root";
#[derive(Debug, Clone, PartialEq)]
enum Entry {
    File(Vec<u8>),
    Dir,
    Symlink(String),
}
impl Sandbox {
    pub fn new() -> Sandbox {
        let b = {
            let mut b = tempfile::Builder::new();
            b.prefix("mc-c17-");
            b
        };
        // a child process of an isolated case works inside its parent's sandbox (the parent cleans up
        // even when the child is killed)
        let td = if let Ok(dir) = std::env::var("MC_C17_TMP") {
            b.tempdir_in(dir)
        } else if Path::new("/dev/shm").is_dir() {
            b.tempdir_in("/dev/shm").or_else(|_| b.tempdir())
        } else {
            b.tempdir()
        }
        .expect("sandbox temp dir");
        let top = td.path().canonicalize().expect("canonical sandbox");
        let root = top.join(ROOT_REL);
        std::fs::create_dir_all(root.join("saved")).expect("mkdir sandbox root");
        Sandbox { _td: td, top, root, current: Default::default() }
    }
    fn root_str(&self) -> String {
        self.root.to_str().unwrap().to_string()
    }
    fn abs(&self, rel: &str) -> PathBuf {
        match rel.strip_prefix("^/") {
            Some(r) => self.top.join(r),
            None => self.root.join(rel),
        }
    }
    fn remove(&self, rel: &str, e: &Entry) {
        let p = self.abs(rel);
        let _ = match e {
            Entry::Dir => std::fs::remove_dir_all(&p),
            _ => std::fs::remove_file(&p),
        };
    }
    /// remove everything but the skeleton, by listing (used at start-up of isolated cases and as a fallback)
    fn clean(&self) {
        let full = self.scan(true);
        for (rel, e) in full.iter().rev() {
            self.remove(rel, e);
        }
        if let Ok(rd) = std::fs::read_dir(self.root.join("saved")) {
            for e in rd.flatten() {
                let _ = std::fs::remove_file(e.path());
            }
        }
        self.current.borrow_mut().clear();
    }
    /// bring the directory into the state the case asks for; returns that state (= what must be unchanged
    /// after the run)
    fn prepare(&self, cfg: &Cfg) -> BTreeMap<String, Entry> {
        let outside = self.root.join("outside.bin");
        let outside_s = outside.to_str().unwrap().to_string();
        let mut base: BTreeMap<String, Entry> = BTreeMap::new();
        if cfg.out_exists || cfg.pre != Pre::None {
            base.insert("out".to_string(), Entry::Dir);
        }
        let key = format!("out/{}", cfg.pre_name);
        match cfg.pre {
            Pre::None => {}
            Pre::File => {
                base.insert(key, Entry::File(PRE_CONTENT.to_vec()));
            }
            Pre::Dir => {
                base.insert(key, Entry::Dir);
            }
            Pre::Dangling => {
                base.insert(key, Entry::Symlink(outside_s));
            }
            Pre::SymlinkToFile => {
                base.insert(key, Entry::Symlink(outside_s));
                base.insert("outside.bin".to_string(), Entry::File(OUTSIDE_CONTENT.to_vec()));
            }
        }
        let mut cur = self.current.borrow_mut();
        // remove what should not be there (children before parents)
        let stale: Vec<(String, Entry)> =
            cur.iter().rev().filter(|(k, e)| base.get(*k) != Some(*e)).map(|(k, e)| (k.clone(), e.clone())).collect();
        for (k, e) in stale {
            self.remove(&k, &e);
            cur.remove(&k);
        }
        // create what is missing (parents before children)
        for (k, e) in &base {
            if cur.contains_key(k) {
                continue;
            }
            let p = self.abs(k);
            match e {
                Entry::Dir => std::fs::create_dir(&p).expect("sandbox mkdir"),
                Entry::File(b) => std::fs::write(&p, b).expect("sandbox file"),
                Entry::Symlink(t) => std::os::unix::fs::symlink(t, &p).expect("sandbox symlink"),
            }
            cur.insert(k.clone(), e.clone());
        }
        base
    }
    /// what exists below the root (`full`: below the whole temp dir) except the harness' own `saved/`;
    /// symlinks are not followed. Paths are relative to the root, entries above the root are reported as
    /// `^/<path from the temp dir>`. The result is remembered as the current state.
    fn scan(&self, full: bool) -> BTreeMap<String, Entry> {
        fn walk(dir: &Path, rel: &str, skip: &str, out: &mut BTreeMap<String, Entry>) {
            let mut names: Vec<_> = match std::fs::read_dir(dir) {
                Ok(rd) => rd.flatten().map(|e| e.file_name()).collect(),
                Err(_) => return,
            };
            names.sort();
            for n in names {
                let p = dir.join(&n);
                let r = if rel.is_empty() { n.to_string_lossy().to_string() } else { format!("{rel}/{}", n.to_string_lossy()) };
                if r == skip {
                    continue;
                }
                let md = match std::fs::symlink_metadata(&p) {
                    Ok(m) => m,
                    Err(_) => continue,
                };
                if md.file_type().is_symlink() {
                    let t = std::fs::read_link(&p).map(|t| t.to_string_lossy().to_string()).unwrap_or_default();
                    out.insert(r, Entry::Symlink(t));
                } else if md.is_dir() {
                    out.insert(r.clone(), Entry::Dir);
                    walk(&p, &r, skip, out);
                } else {
                    out.insert(r, Entry::File(std::fs::read(&p).unwrap_or_default()));
                }
            }
        }
        let mut m = BTreeMap::new();
        if full {
            let mut all = BTreeMap::new();
            walk(&self.top, "", "n1/root/saved", &mut all);
            for (r, e) in all {
                if r == "n1" || r == ROOT_REL {
                    continue;
                }
                match r.strip_prefix("n1/root/") {
                    Some(rr) => m.insert(rr.to_string(), e),
                    None => m.insert(format!("^/{r}"), e),
                };
            }
        } else {
            walk(&self.root, "", "saved", &mut m);
        }
        *self.current.borrow_mut() = m.clone();
        m
    }
}

// ------------------------------------------------------------------------------------------ observation
#[derive(Clone, Debug, Default)]
struct Item {
    idx: usize,
    complete: bool,
    label: String,
    cmd_ctx: Value,
    auto_saved_to: Option<String>,
}
/// tree items "by occurrence" (the plugin lists them after the "Sorted by name" group), keyed by
/// the tooltip prefix "<ecu>, LC id=<lc>, serial #<serial>,"
fn snapshot(value: &Value) -> BTreeMap<String, Item> {
    let mut m = BTreeMap::new();
    if let Some(items) = value["treeItems"].as_array() {
        for (i, it) in items.iter().enumerate().skip(1) {
            let tip = it["tooltip"].as_str().unwrap_or("");
            // "<ecu>, LC id=<lc>, serial #<serial>, '<name>'..."
            let key = match tip.find(", '") {
                Some(p) => tip[..p + 1].to_string(),
                None => tip.to_string(),
            };
            // a re-announced key appears twice: the complete entry (if any) represents the transfer
            if m.get(&key).map(|e: &Item| e.complete).unwrap_or(false) {
                continue;
            }
            m.insert(
                key,
                Item {
                    idx: i - 1,
                    complete: it["iconPath"].as_str() == Some("file"),
                    label: it["label"].as_str().unwrap_or("").to_string(),
                    cmd_ctx: it["cmdCtx"].clone(),
                    auto_saved_to: it["meta"]["autoSavedTo"].as_str().map(|s| s.to_string()),
                },
            );
        }
    }
    m
}
/// the children of the "Sorted by name" group: (key as in `snapshot`, file name, complete, cmdCtx) in listed order
fn snapshot_by_name(value: &Value) -> Vec<(String, String, bool, Value)> {
    let mut v = vec![];
    if let Some(ch) = value["treeItems"][0]["children"].as_array() {
        for it in ch {
            let tip = it["tooltip"].as_str().unwrap_or("");
            let (key, name) = match tip.find(", '") {
                Some(p) => (tip[..p + 1].to_string(), tip[p + 3..].split('\'').next().unwrap_or("").to_string()),
                None => (tip.to_string(), String::new()),
            };
            v.push((key, name, it["iconPath"].as_str() == Some("file"), it["cmdCtx"].clone()));
        }
    }
    v
}
fn tr_key(t: &Tr) -> String {
    format!("{}, LC id={}, serial #{},", t.ecu, t.lc, t.serial)
}

// ------------------------------------------------------------------------------------------ one case
fn case_value(c: &Case) -> Value {
    serde_json::to_value(c).unwrap()
}

/// which transfer produced these bytes (contents are transfer-coded in the high nibble)
fn source_of(c: &Case, bytes: &[u8]) -> Option<usize> {
    let b = *bytes.first()?;
    let t = (b >> 4) as usize;
    if t >= 1 && t <= c.transfers.len() {
        Some(t - 1)
    } else {
        None
    }
}

pub fn run_case(ctx: &mut Ctx, c: &Case, sb: &Sandbox) {
    let cj = || case_value(c);
    let root = sb.root_str();
    let base = sb.prepare(&c.cfg);
    let out_dir = format!("{root}/out");

    // ---- plugin
    let mut cfgj = json!({"name": "FileTransfer", "allowSave": c.cfg.allow_save, "keepFLDA": c.cfg.keep_flda});
    if let Some(g) = &c.cfg.glob {
        cfgj["autoSaveGlob"] = json!(g);
        cfgj["autoSavePath"] = json!(if c.cfg.trailing_slash { format!("{out_dir}/") } else { out_dir.clone() });
    }
    let mut plugin = match catch(|| FileTransferPlugin::from_json(cfgj.as_object().unwrap())) {
        Ok(Ok(p)) => p,
        Ok(Err(e)) => {
            ctx.violation("config_rejected", "", cj, format!("from_json failed: {e}"));
            ctx.eval(false);
            return;
        }
        Err(p) => {
            ctx.violation("panic", &panic_disc(&p), cj, format!("from_json at {}: {}", p.loc, p.msg));
            ctx.eval(false);
            return;
        }
    };

    // ---- stream
    let nt = c.transfers.len();
    let mut sources: Vec<Vec<DltMessage>> = c.transfers.iter().map(|t| transfer_msgs(t, c.big_endian, &root)).collect();
    for b in &c.bogus {
        sources.push(vec![m_flst(
            &b.ecu,
            b.lc,
            c.big_endian,
            b.serial,
            &b.name.replace("$ROOT", &root),
            b.file_size,
            b.nr_packages,
            b.buffer_size,
            b.wide,
        )]);
    }
    if !c.unrelated.is_empty() {
        sources.push(c.unrelated.iter().map(|u| unrel_msg(*u, &c.transfers[0], c.big_endian)).collect());
    }
    let mut cursors = vec![0usize; sources.len()];
    let mut stream: Vec<(usize, DltMessage)> = Vec::with_capacity(c.order.len());
    for (pos, &s) in c.order.iter().enumerate() {
        let mut m = match sources.get(s).and_then(|v| v.get(cursors[s])) {
            Some(m) => m.clone(),
            None => panic!("harness: case order does not fit the sources: {:?}", c),
        };
        cursors[s] += 1;
        m.index = pos as u32;
        m.standard_header.mcnt = pos as u8;
        m.reception_time_us = 1_000_000 + pos as u64 * 1000;
        m.timestamp_dms = 10_000 + pos as u32 * 10;
        stream.push((s, m));
    }
    assert!(
        cursors.iter().zip(sources.iter()).all(|(c, s)| *c == s.len()),
        "harness: order does not consume all sources"
    );
    // do the lists really alternate (landmark)
    if nt >= 2 {
        let mut switches = 0;
        let mut last = usize::MAX;
        for (s, _) in &stream {
            if *s < nt {
                if last != usize::MAX && last != *s {
                    switches += 1;
                }
                last = *s;
            }
        }
        if switches >= 2 {
            ctx.landmark("case:two_transfers_interleaved");
        }
    }

    // ---- run, observing the published state whenever its generation moves
    let state = plugin.state();
    let keys: Vec<String> = c.transfers.iter().map(tr_key).collect();
    let mut ever_complete = vec![false; nt];
    let mut last_gen = 0u32;
    let mut snap: BTreeMap<String, Item> = BTreeMap::new();
    let mut flagged_complete = vec![false; nt];
    let mut flda_kept = 0u32;
    let mut flda_dropped = 0u32;
    for (s, m) in stream.iter_mut() {
        let is_flda = m.noar() == 5 && *s < nt;
        match catch(|| plugin.process_msg(m)) {
            Ok(keep) => {
                if is_flda {
                    if keep {
                        flda_kept += 1
                    } else {
                        flda_dropped += 1
                    }
                }
            }
            Err(p) => {
                ctx.transitions(c.order.len() as u64);
                ctx.violation("panic", &panic_disc(&p), cj, format!("process_msg(#{}) panicked at {}: {}", m.index, p.loc, p.msg));
                ctx.eval(true);
                return;
            }
        }
        let st = match state.read() {
            Ok(s) => s,
            Err(_) => {
                ctx.violation("state_poisoned", "", cj, "state lock poisoned".into());
                ctx.eval(true);
                return;
            }
        };
        if st.generation != last_gen {
            last_gen = st.generation;
            snap = snapshot(&st.value);
            for (ti, k) in keys.iter().enumerate() {
                if let Some(it) = snap.get(k) {
                    if it.complete {
                        ever_complete[ti] = true;
                        if c.transfers[ti].class() == Class::Never && !flagged_complete[ti] {
                            flagged_complete[ti] = true;
                            ctx.violation(
                                "complete_despite_fault",
                                c.transfers[ti].fault.kind(),
                                cj,
                                format!("transfer {ti} ({:?}) reported complete after message #{}: {}", c.transfers[ti].fault, m.index, it.label),
                            );
                        }
                    }
                }
            }
        }
    }
    ctx.transitions(c.order.len() as u64);
    if flda_kept > 0 {
        ctx.landmark("flda_kept");
    }
    if flda_dropped > 0 {
        ctx.landmark("flda_removed_from_stream");
    }

    // ---- the "Sorted by name" view lists the same transfers, ordered by file name
    let by_name = snapshot_by_name(&state.read().unwrap().value);
    {
        let n_occ = state.read().unwrap().value["treeItems"].as_array().map(|a| a.len().saturating_sub(1)).unwrap_or(0);
        if by_name.len() != n_occ {
            ctx.violation("by_name_view", "count", cj, format!("{} items sorted by name, {} by occurrence", by_name.len(), n_occ));
        } else if by_name.windows(2).any(|w| w[0].1 > w[1].1) {
            ctx.violation("by_name_view", "order", cj, format!("not sorted by name: {:?}", by_name.iter().map(|x| x.1.clone()).collect::<Vec<_>>()));
        }
        if by_name.len() >= 2 && by_name.iter().zip(snap.values()).count() > 0 {
            ctx.landmark("by_name_view_multi");
        }
    }
    // ---- per transfer: completion and the save command
    let mut nontrivial = false;
    let mut outcome = String::new();
    let mut complete_end = vec![false; nt];
    for (ti, t) in c.transfers.iter().enumerate() {
        let it = snap.get(&keys[ti]).cloned();
        let comp = it.as_ref().map(|i| i.complete).unwrap_or(false);
        complete_end[ti] = comp;
        let label = it.as_ref().map(|i| i.label.clone()).unwrap_or_else(|| "<no tree item>".into());
        let cls = t.class();
        if t.content.len() % t.b != 0 && t.fault == Fault::None && comp {
            ctx.landmark("complete_with_shorter_last_package");
        }
        if comp {
            ctx.landmark("complete_reported");
            if t.fault == Fault::DropFlst {
                ctx.landmark("complete_without_flst");
            }
            if matches!(t.fault, Fault::Dup { .. }) {
                ctx.landmark("complete_with_duplicate");
            }
            match t.fault {
                Fault::DupFlst { after: 0 } => ctx.landmark("observed:repeated_flst_before_data_complete"),
                Fault::DupFlst { .. } => ctx.landmark("observed:repeated_flst_mid_transfer_complete"),
                Fault::DupFlfi => ctx.landmark("observed:repeated_flfi_complete"),
                _ => {}
            }
        } else if label.starts_with("Incomplete file transfer. Missed package") {
            ctx.landmark("incomplete_reported");
            nontrivial = true;
        } else if it.is_some() {
            ctx.landmark("still_open_at_end");
            nontrivial = true;
        }
        if !comp {
            match t.fault {
                Fault::DupFlst { after: 0 } => ctx.landmark("observed:repeated_flst_before_data_NOT_complete"),
                Fault::DupFlst { .. } => ctx.landmark("observed:repeated_flst_mid_transfer_NOT_complete"),
                Fault::DupFlfi => ctx.landmark("observed:repeated_flfi_NOT_complete"),
                _ => {}
            }
        }
        if ever_complete[ti] && !comp {
            ctx.landmark("complete_later_revoked");
        }
        outcome.push_str(&format!("|{}:{}:{}", t.fault.kind(), comp, label.split('\'').next().unwrap_or("")));
        if cls == Class::Must && !comp {
            ctx.violation(
                "not_complete",
                t.must_disc(),
                cj,
                format!("transfer {ti} ({:?}, {} packages) all packages in order but not reported complete at the end: {}", t.fault, t.n(), label),
            );
        }
        // the save command
        let save_path = format!("{root}/saved/{ti}.bin");
        let st = state.read().unwrap();
        let apply = st.apply_command;
        if comp {
            let it = it.as_ref().unwrap();
            if c.cfg.allow_save {
                match (apply, it.cmd_ctx.as_object()) {
                    (Some(f), Some(cmd_ctx)) => {
                        let params = json!({ "saveAs": save_path });
                        match catch(|| f(&st.internal_data, "save", params.as_object(), Some(cmd_ctx))) {
                            Err(p) => ctx.violation("panic", &panic_disc(&p), cj, format!("save command at {}: {}", p.loc, p.msg)),
                            Ok(ok) => {
                                let got = std::fs::read(&save_path).ok();
                                let _ = std::fs::remove_file(&save_path);
                                if !ok || got.is_none() {
                                    if cls == Class::Must {
                                        ctx.violation("save_failed", t.fault.kind(), cj, format!("transfer {ti} reported complete but the save command returned {ok}"));
                                    }
                                } else if got.as_deref() != Some(&t.content[..]) {
                                    ctx.violation(
                                        if cls == Class::Never { "damaged_saved" } else { "save_bytes_differ" },
                                        t.fault.kind(),
                                        cj,
                                        format!("transfer {ti}: saved {} != original {}", hex(got.as_deref().unwrap()), hex(&t.content)),
                                    );
                                } else {
                                    ctx.landmark("saved_by_command_equal");
                                    nontrivial = true;
                                    outcome.push_str(":saved");
                                    // the same command onto a target that exists already and is longer than the transfer
                                    let mut stale = vec![0xEEu8; 37];
                                    stale.extend_from_slice(&t.content);
                                    stale.extend_from_slice(&[0xEF; 41]);
                                    std::fs::write(&save_path, &stale).expect("prefill save target");
                                    match catch(|| f(&st.internal_data, "save", params.as_object(), Some(cmd_ctx))) {
                                        Err(p) => ctx.violation("panic", &panic_disc(&p), cj, format!("save command onto an existing file at {}: {}", p.loc, p.msg)),
                                        Ok(ok3) => {
                                            let got3 = std::fs::read(&save_path).ok();
                                            let _ = std::fs::remove_file(&save_path);
                                            if ok3 && got3.as_deref() == Some(&t.content[..]) {
                                                ctx.landmark("saved_over_existing_equal");
                                            } else if !ok3 && got3.as_deref() == Some(&stale[..]) {
                                                ctx.landmark("save_over_existing_refused");
                                            } else {
                                                ctx.violation(
                                                    "save_over_existing_differs",
                                                    t.fault.kind(),
                                                    cj,
                                                    format!("transfer {ti}: saved onto an existing file of {} bytes: returned {ok3}, the file now holds {} bytes {} != original {} bytes {}", stale.len(), got3.as_ref().map(|g| g.len()).unwrap_or(0), got3.as_deref().map(|g| hex(&g[..g.len().min(48)])).unwrap_or_default(), t.content.len(), hex(&t.content[..t.content.len().min(48)])),
                                                );
                                            }
                                        }
                                    }
                                }
                                // the same transfer through its item in the "Sorted by name" view
                                for (_, _, _, ctx_by_name) in by_name.iter().filter(|(k, _, comp2, _)| *k == keys[ti] && *comp2) {
                                    if let Some(cc) = ctx_by_name.as_object() {
                                        match catch(|| f(&st.internal_data, "save", params.as_object(), Some(cc))) {
                                            Err(p) => ctx.violation("panic", &panic_disc(&p), cj, format!("save command (by-name item) at {}: {}", p.loc, p.msg)),
                                            Ok(ok2) => {
                                                let got2 = std::fs::read(&save_path).ok();
                                                let _ = std::fs::remove_file(&save_path);
                                                if ok && got.is_some() && (!ok2 || got2.as_deref() != Some(&t.content[..])) {
                                                    ctx.violation("save_by_name_differs", t.fault.kind(), cj, format!("transfer {ti} ('{}'): the item of the view sorted by name saves {:?} (returned {ok2}), original {}", t.name, got2.as_deref().map(hex), hex(&t.content)));
                                                } else if ok2 {
                                                    ctx.landmark("saved_by_name_item_equal");
                                                }
                                            }
                                        }
                                    }
                                }
                            }
                        }
                    }
                    _ => {
                        if cls == Class::Must {
                            ctx.violation("save_unavailable", t.fault.kind(), cj, format!("transfer {ti} complete, allowSave on, but no save command context"));
                        }
                    }
                }
            }
        } else if let (Some(f), Some(it)) = (apply, it.as_ref()) {
            // not complete: the save command must refuse this transfer
            let params = json!({ "saveAs": save_path });
            let cmd_ctx = json!({"save": {"idx": it.idx}});
            match catch(|| f(&st.internal_data, "save", params.as_object(), cmd_ctx.as_object())) {
                Err(p) => ctx.violation("panic", &panic_disc(&p), cj, format!("save command at {}: {}", p.loc, p.msg)),
                Ok(ok) => {
                    let wrote = Path::new(&save_path).exists();
                    if wrote {
                        let _ = std::fs::remove_file(&save_path);
                    }
                    if ok || wrote {
                        ctx.violation("incomplete_saved", t.fault.kind(), cj, format!("transfer {ti} not complete ({label}) but the save command wrote a file"));
                    } else {
                        ctx.landmark("save_refused_for_incomplete");
                    }
                }
            }
        }
    }

    // ---- file system: what auto-save did
    // names that can point above the configured directory's parent are looked for in the whole temp dir
    let full_scan = c.family != "single" && c.family != "pair" && c.family != "triple" && c.family != "hostile_announce"
        || c.transfers.iter().any(|t| t.name.contains("..") || t.name.starts_with('/') || t.name.starts_with('$'));
    let after = sb.scan(full_scan);
    let pat = c.cfg.glob.as_ref().and_then(|g| glob::Pattern::new(g).ok());
    let mut autosaved = vec![false; nt];
    for (path, e) in &after {
        if let Some(b) = base.get(path) {
            if b != e {
                ctx.violation(
                    "existing_overwritten",
                    &format!("pre={:?}", c.cfg.pre).to_lowercase(),
                    cj,
                    format!("{path}: before {:?}, after {:?}", short(b), short(e)),
                );
            }
            continue;
        }
        if path == "out" {
            ctx.landmark("configured_dir_created");
            continue;
        }
        let src = match e {
            Entry::File(b) => source_of(c, b),
            _ => None,
        };
        let name_disc = |c: &Case| match src {
            Some(t) => format!("name={}", c.transfers[t].name),
            None => "name=?".to_string(),
        };
        if !path.starts_with("out/") {
            let disc = if path == "outside.bin" { format!("via_symlink_pre={:?}", c.cfg.pre).to_lowercase() } else { name_disc(c) };
            ctx.violation("autosave_outside_dir", &disc, cj, format!("{path} appeared outside the configured directory out/: {:?}", short(e)));
            continue;
        }
        match e {
            Entry::Dir => {}
            Entry::Symlink(_) => ctx.violation("unexpected_entry", "symlink", cj, format!("{path}: {:?}", e)),
            Entry::File(bytes) => {
                let ok_src = c
                    .transfers
                    .iter()
                    .enumerate()
                    .find(|(ti, t)| &t.content == bytes && ever_complete[*ti] && t.class() != Class::Never);
                match ok_src {
                    Some((ti, t)) => {
                        autosaved[ti] = true;
                        ctx.landmark("autosaved_equal");
                        nontrivial = true;
                        outcome.push_str(&format!(":auto{ti}"));
                        if pat.as_ref().map(|p| p.matches(&t.name.replace("$ROOT", &root))) != Some(true) {
                            ctx.violation("autosave_without_match", &format!("name={}", t.name), cj, format!("{path} written although the glob does not match"));
                        }
                        if Path::new(&t.name).file_name().is_none() {
                            ctx.landmark("autosave_fallback_name");
                        }
                    }
                    None => {
                        let kind = src.map(|t| c.transfers[t].fault.kind()).unwrap_or("unknown_source");
                        ctx.violation("damaged_autosaved", kind, cj, format!("{path} = {} is not the original of a transfer that may be complete", hex(bytes)));
                    }
                }
            }
        }
    }
    for (path, b) in &base {
        if !after.contains_key(path) {
            ctx.violation("existing_overwritten", "removed", cj, format!("{path} ({:?}) vanished", short(b)));
        }
    }
    // reported auto-save location: inside the configured directory and holding the original
    for (ti, t) in c.transfers.iter().enumerate() {
        let it = match snap.get(&keys[ti]) {
            Some(i) => i,
            None => continue,
        };
        if let Some(p) = &it.auto_saved_to {
            // fast path: <configured dir>/<one component> that the scan (which does not follow symlinks)
            // found as a regular file
            let fast = p
                .strip_prefix(&out_dir)
                .map(|r| r.trim_start_matches('/'))
                .filter(|r| !r.is_empty() && !r.contains('/') && *r != "." && *r != "..")
                .and_then(|r| after.get(&format!("out/{r}")));
            if let Some(Entry::File(b)) = fast {
                if b != &t.content {
                    ctx.violation("autosave_bytes_differ", t.fault.kind(), cj, format!("autoSavedTo {p} does not hold the original of transfer {ti}"));
                }
            } else {
                let canon = Path::new(p).canonicalize().ok();
                let inside = canon.as_ref().map(|cp| cp.starts_with(&out_dir)).unwrap_or(false);
                if !inside {
                    let disc = if matches!(c.cfg.pre, Pre::Dangling | Pre::SymlinkToFile) {
                        format!("via_symlink_pre={:?}", c.cfg.pre).to_lowercase()
                    } else {
                        format!("name={}", t.name)
                    };
                    ctx.violation("autosave_outside_dir", &disc, cj, format!("autoSavedTo {p} (-> {:?}) is not inside {out_dir}", canon));
                } else if std::fs::read(p).ok().as_deref() != Some(&t.content[..]) {
                    ctx.violation("autosave_bytes_differ", t.fault.kind(), cj, format!("autoSavedTo {p} does not hold the original of transfer {ti}"));
                }
            }
        }
        // a complete transfer the configuration wants auto-saved must be in the directory unless the
        // name is taken (pre-existing entry, or another transfer with the same base name)
        if let Some(p) = &pat {
            let name = t.name.replace("$ROOT", &root);
            let bn = Path::new(&name).file_name().map(|s| s.to_os_string());
            let unique = bn.is_none()
                || c.transfers.iter().enumerate().all(|(tj, o)| {
                    tj == ti || Path::new(&o.name.replace("$ROOT", &root)).file_name().map(|s| s.to_os_string()) != bn
                });
            if p.matches(&name) && t.class() == Class::Must && complete_end[ti] {
                if c.cfg.pre == Pre::None && unique {
                    if !autosaved[ti] {
                        ctx.violation("autosave_missing", &format!("name={}", t.name), cj, format!("transfer {ti} complete and matching the glob but no file with its content in out/"));
                    }
                } else if !autosaved[ti] {
                    ctx.landmark("autosave_skipped_name_taken");
                    nontrivial = true;
                }
            }
        }
    }
    if c.cfg.pre != Pre::None {
        ctx.landmark("case:preexisting_entry");
    }
    for b in &c.bogus {
        if snap.contains_key(&format!("{}, LC id={}, serial #{},", b.ecu, b.lc, b.serial)) {
            ctx.landmark("hostile_announcement_accepted");
        }
    }
    if c.transfers.iter().any(|t| t.class() == Class::Never) {
        ctx.landmark("case:fault_that_forbids_completion");
    }
    if c.transfers.iter().any(|t| t.class() == Class::Must && t.content.len() % t.b != 0) {
        ctx.landmark("case:last_package_shorter");
    }
    if !c.bogus.is_empty() {
        ctx.landmark("case:hostile_announcement");
    }
    ctx.outcome(fnv_str(&outcome));
    ctx.eval(nontrivial);
    ctx.sample(cj);
}

/// discriminator of a panic: the repo location, or for panics raised inside std the message
fn panic_disc(p: &Panicked) -> String {
    if p.loc.starts_with("src/") {
        p.loc.clone()
    } else if let (false, Some(i)) = (p.loc.starts_with("/rustc/"), p.loc.find("/src/")) {
        p.loc[i + 1..].to_string() // scratch worktree of the repo
    } else {
        format!("std:{}", p.msg)
    }
}

fn short(e: &Entry) -> String {
    match e {
        Entry::File(b) => format!("file[{}]", hex(&b[..b.len().min(24)])),
        Entry::Dir => "dir".into(),
        Entry::Symlink(t) => format!("symlink->{}", t.rsplit('/').next().unwrap_or("")),
    }
}

/// run a case in a child process (same binary, replay mode); the child's verdict lines are re-raised here
fn run_isolated(ctx: &mut Ctx, c: &Case, sb: &Sandbox) {
    let cj = || case_value(c);
    let f = sb.root.join("saved-case.json");
    // the case file lives in the sandbox root only until the child has read it (clean() removes it)
    sb.clean();
    std::fs::write(&f, serde_json::to_string(&json!({"case": case_value(c)})).unwrap()).expect("write case");
    let exe = std::env::current_exe().expect("current exe");
    let out = std::process::Command::new(exe)
        .arg("C17")
        .arg("quick")
        .arg("--replay")
        .arg(&f)
        .env("MC_C17_CHILD", "1")
        .env("MC_C17_TMP", &sb.root)
        .stderr(std::process::Stdio::null())
        .output();
    sb.clean(); // the case file and whatever a killed child left behind
    ctx.transitions(c.order.len() as u64);
    match out {
        Err(e) => panic!("harness: cannot spawn child: {e}"),
        Ok(o) => {
            use std::os::unix::process::ExitStatusExt;
            if let Some(sig) = o.status.signal() {
                ctx.landmark("child_killed");
                let b = &c.bogus[0];
                let prod = (b.nr_packages as u128) * (b.buffer_size as u128);
                ctx.violation(
                    "abort",
                    "announced_size_allocation",
                    cj,
                    format!("process died with signal {sig} (FLST announces nr_packages {} x buffer_size {} = {} bytes)", b.nr_packages, b.buffer_size, prod),
                );
            } else {
                let text = String::from_utf8_lossy(&o.stdout);
                let mut seen = std::collections::BTreeSet::new();
                for l in text.lines() {
                    if let Some(r) = l.strip_prefix("  replay: clause=") {
                        if let Some((clause, rest)) = r.split_once(" disc=") {
                            let (disc, detail) = rest.split_once(" detail=").unwrap_or((rest, ""));
                            if seen.insert((clause.to_string(), disc.to_string())) {
                                ctx.violation(clause, disc, cj, detail.to_string());
                            }
                        }
                    }
                }
                ctx.landmark("child_survived");
            }
        }
    }
    ctx.eval(true);
}

fn dispatch(ctx: &mut Ctx, c: &Case, sb: &Sandbox) {
    if c.isolate && std::env::var("MC_C17_CHILD").is_err() {
        run_isolated(ctx, c, sb);
    } else {
        run_case(ctx, c, sb);
    }
}

// ------------------------------------------------------------------------------------------ enumeration
fn faults(n: usize) -> Vec<Fault> {
    let mut v = vec![Fault::None];
    for i in 1..=n {
        v.push(Fault::Drop(i));
    }
    for i in 1..=n {
        for after in i..=n + 1 {
            v.push(Fault::Dup { pkg: i, after });
        }
    }
    for i in 1..n {
        v.push(Fault::Swap(i));
    }
    for i in 1..=n {
        v.push(Fault::Grow(i));
        v.push(Fault::Shrink(i));
    }
    v.push(Fault::DropFlst);
    v.push(Fault::DropFlfi);
    v
}
/// repetitions of the announcement / end marker: outside the statement's fault list, observed only
fn observed_faults(n: usize) -> Vec<Fault> {
    let mut v: Vec<Fault> = (0..=n).map(|after| Fault::DupFlst { after }).collect();
    v.push(Fault::DupFlfi);
    v
}
/// package sizes {1,2,3,4,S} without repetition
fn bsizes(s: usize) -> Vec<usize> {
    let mut v = vec![1, 2, 3, 4, s];
    v.sort();
    v.dedup();
    v
}
fn tr(t: usize, ecu: &str, lc: u32, serial: u64, name: &str, s: usize, b: usize, fault: Fault) -> Tr {
    Tr { ecu: ecu.into(), lc, serial, name: name.into(), content: content(t, s), b, fault }
}

pub struct C17Prop;

struct Stop;

/// enumerate all interleavings of the case's sources and run those that are ours
fn for_interleavings(ctx: &mut Ctx, sb: &Sandbox, c: &mut Case) -> Result<(), Stop> {
    let mut lens: Vec<usize> = c.transfers.iter().map(transfer_len).collect();
    for _ in &c.bogus {
        lens.push(1);
    }
    if !c.unrelated.is_empty() {
        lens.push(c.unrelated.len());
    }
    if std::env::var("MC_C17_COUNT").is_ok() {
        // development aid: size of the enumeration without running it
        if ctx.shard == 0 {
            let mut n: u64 = 1;
            let mut tot = 0u64;
            for l in &lens {
                for i in 1..=*l as u64 {
                    tot += 1;
                    n = n * tot / i;
                }
            }
            ctx.extra_add(&format!("count:{}:A{}pk:u{}", c.family, c.transfers[0].n(), c.unrelated.len().min(1)), n);
        }
        return Ok(());
    }
    let done = enumr::interleavings(&lens, &mut |ord| {
        if ctx.mine() {
            c.order.clear();
            c.order.extend_from_slice(ord);
            dispatch(ctx, c, sb);
            if ctx.sum.evaluations % 512 == 0 && ctx.out_of_time() {
                return false;
            }
        }
        true
    });
    if done {
        Ok(())
    } else {
        Err(Stop)
    }
}

const UNREL_SETS: &[&[Unrel]] = &[
    &[Unrel::Text],
    &[Unrel::StrayEcu],
    &[Unrel::StrayLc],
    &[Unrel::StraySerial],
    &[Unrel::FakeFlda],
    &[Unrel::NonVerbose],
    &[Unrel::Text, Unrel::StrayEcu],
    &[Unrel::StrayLc, Unrel::StraySerial],
    &[Unrel::FakeFlda, Unrel::NonVerbose],
];

fn single_cfgs() -> Vec<Cfg> {
    let mut v = vec![];
    for (allow_save, glob) in [(true, None), (false, Some("*")), (true, Some("*")), (false, None), (false, Some("*.txt"))] {
        for keep_flda in [false, true] {
            v.push(Cfg { allow_save, keep_flda, glob: glob.map(|s| s.to_string()), ..Cfg::save_only() });
        }
    }
    v
}

impl C17Prop {
    /// family 1: one transfer; every S, B, fault; configs x byte order without unrelated messages,
    /// and every interleaving with 1..2 unrelated messages for the save+autosave config
    fn fam_single(&self, ctx: &mut Ctx, sb: &Sandbox) -> Result<(), Stop> {
        let cfgs = single_cfgs();
        let unrel_smax = ctx.tier.pick(5, 9);
        for s in 1..=9usize {
            ctx.begin_family(
                "single",
                &format!("S={s} B in {{1,2,3,4,S}} all single faults x 10 configs x byte order; unrelated 1..2 messages at every position: {}", if s <= unrel_smax { "yes" } else { "no" }),
            );
            let r = (|| {
                for b in bsizes(s) {
                    let n = s.div_ceil(b);
                    for fault in faults(n).into_iter().chain(observed_faults(n)) {
                        for cfg in &cfgs {
                            for be in [false, true] {
                                let mut c = Case {
                                    family: "single".into(),
                                    cfg: cfg.clone(),
                                    big_endian: be,
                                    transfers: vec![tr(0, "ECUA", 1, 1, "a.bin", s, b, fault.clone())],
                                    bogus: vec![],
                                    unrelated: vec![],
                                    order: vec![],
                                    isolate: false,
                                };
                                for_interleavings(ctx, sb, &mut c)?;
                            }
                        }
                        if s <= unrel_smax {
                            for u in UNREL_SETS {
                                let mut c = Case {
                                    family: "single".into(),
                                    cfg: Cfg { glob: Some("*".into()), ..Cfg::save_only() },
                                    big_endian: false,
                                    transfers: vec![tr(0, "ECUA", 1, 1, "a.bin", s, b, fault.clone())],
                                    bogus: vec![],
                                    unrelated: u.to_vec(),
                                    order: vec![],
                                    isolate: false,
                                };
                                for_interleavings(ctx, sb, &mut c)?;
                            }
                        }
                    }
                }
                Ok(())
            })();
            ctx.end_family(r.is_ok());
            r?;
        }
        Ok(())
    }

    /// family 2: two concurrent transfers whose keys differ in exactly one of serial / ECU / lifecycle
    /// (or in all three), every interleaving of the two message lists
    fn fam_pair(&self, ctx: &mut Ctx, sb: &Sandbox) -> Result<(), Stop> {
        // (max packages of A, S range of A, B variants, key differences, with one unrelated message)
        let dup11 = Fault::Dup { pkg: 1, after: 1 };
        let b_core = vec![Fault::None, dup11.clone(), Fault::Drop(2), Fault::Swap(1), Fault::Shrink(2), Fault::DropFlst, Fault::DropFlfi];
        let plans: Vec<(usize, usize, Vec<(usize, usize, Vec<Fault>)>, usize, bool)> = match ctx.tier {
            Tier::Quick => vec![
                (1, 9, vec![(1, 1, vec![Fault::None, Fault::Drop(1)]), (3, 2, b_core.clone())], 3, false),
                (2, 9, vec![(1, 1, vec![Fault::None]), (3, 2, vec![Fault::None, dup11.clone(), Fault::Drop(2)])], 3, false),
                (3, 5, vec![(3, 2, vec![Fault::None, dup11.clone()])], 3, false),
            ],
            Tier::Thorough => vec![
                (1, 9, vec![(1, 1, faults(1)), (3, 2, faults(2)), (3, 1, faults(3))], 4, false),
                (2, 9, vec![(1, 1, faults(1)), (3, 2, faults(2)), (3, 1, faults(3))], 4, false),
                (1, 9, vec![(3, 2, vec![Fault::None, dup11.clone()])], 3, true),
                (2, 9, vec![(3, 2, vec![Fault::None, dup11.clone()])], 3, true),
                (3, 9, vec![(1, 1, faults(1)), (3, 2, faults(2))], 4, false),
                (3, 9, vec![(3, 2, vec![Fault::None])], 3, true),
                (3, 9, vec![(3, 1, vec![Fault::None, dup11.clone(), Fault::Drop(2), Fault::Swap(1), Fault::Dup { pkg: 2, after: 3 }])], 3, false),
                (4, 9, vec![(1, 1, vec![Fault::None, Fault::Drop(1)]), (3, 2, b_core.clone())], 4, false),
                (5, 9, vec![(1, 1, vec![Fault::None]), (3, 2, vec![Fault::None, dup11.clone(), Fault::Drop(2)])], 3, false),
                (6, 9, vec![(1, 1, vec![Fault::None]), (3, 2, vec![Fault::None, dup11.clone()])], 3, false),
                (7, 9, vec![(1, 1, vec![Fault::None]), (2, 1, vec![Fault::None])], 3, false),
                (8, 9, vec![(1, 1, vec![Fault::None]), (2, 1, vec![Fault::None])], 3, false),
                (9, 9, vec![(1, 1, vec![Fault::None]), (2, 1, vec![Fault::None])], 3, false),
            ],
        };
        let keydiff = [("ECUA", 1u32, 2u64), ("ECUB", 1, 1), ("ECUA", 2, 1), ("ECUB", 2, 2)];
        for (na, smax, bvars, nkd, with_unrel) in plans {
            ctx.begin_family(
                "pair",
                &format!(
                    "A: packages={na} S<={smax} all faults; B: {:?}; key differs in {} ways; all interleavings{}",
                    bvars.iter().map(|(s, b, f)| format!("S={s},B={b},{} faults", f.len())).collect::<Vec<_>>(),
                    nkd,
                    if with_unrel { " with 1 stray FLDA message (other ECU / lifecycle / serial)" } else { "" }
                ),
            );
            let r = (|| {
                for s in 1..=smax {
                    for b in bsizes(s) {
                        if s.div_ceil(b) != na {
                            continue;
                        }
                        // A's announcement / end marker repeated as well (outside the statement's fault list: A itself is only
                        // observed then, but B must be unaffected by it)
                        for fa in faults(na).into_iter().chain(if na <= 2 || ctx.tier == Tier::Thorough { observed_faults(na) } else { vec![] }) {
                            for (s2, b2, f2s) in &bvars {
                                for fb in f2s {
                                    for (ecu2, lc2, ser2) in keydiff.iter().take(nkd) {
                                        let mut c = Case {
                                            family: "pair".into(),
                                            cfg: Cfg { glob: Some("*".into()), ..Cfg::save_only() },
                                            big_endian: false,
                                            transfers: vec![
                                                tr(0, "ECUA", 1, 1, "a.bin", s, b, fa.clone()),
                                                tr(1, ecu2, *lc2, *ser2, "d/b.bin", *s2, *b2, fb.clone()),
                                            ],
                                            bogus: vec![],
                                            unrelated: vec![],
                                            order: vec![],
                                            isolate: false,
                                        };
                                        if !with_unrel {
                                            for_interleavings(ctx, sb, &mut c)?;
                                        } else {
                                            for u in [Unrel::StrayEcu, Unrel::StrayLc, Unrel::StraySerial] {
                                                c.unrelated = vec![u];
                                                for_interleavings(ctx, sb, &mut c)?;
                                            }
                                        }
                                    }
                                }
                            }
                        }
                    }
                }
                Ok(())
            })();
            ctx.end_family(r.is_ok());
            r?;
        }
        Ok(())
    }

    /// family 2b: three concurrent transfers (keys pairwise different in one component), all interleavings
    fn fam_triple(&self, ctx: &mut Ctx, sb: &Sandbox) -> Result<(), Stop> {
        let shapes: &[(usize, usize)] = ctx.tier.pick(&[(1, 1), (2, 2)][..], &[(1, 1), (2, 2), (2, 1), (3, 2)][..]);
        ctx.begin_family("triple", &format!("A: (S,B) in {:?} all faults; B, C: S=1 B=1 no fault; keys (ECUA,1,1) (ECUA,1,2) (ECUB,1,1), (ECUA,1,1) (ECUA,2,1) (ECUB,2,1) and (ECUA,1,2^32+7) (ECUA,1,2^33+7) (ECUA,1,7) (64-bit serials); all interleavings", shapes));
        let r = (|| {
            for (s, b) in shapes {
                for fa in faults(s.div_ceil(*b)) {
                    // (the third set: serials logged as 64-bit values that agree in their lower 32 bits, and the 32-bit serial equal to them)
                    for keys in [[("ECUA", 1u32, 1u64), ("ECUA", 1, 2), ("ECUB", 1, 1)], [("ECUA", 1, 1), ("ECUA", 2, 1), ("ECUB", 2, 1)], [("ECUA", 1, 0x1_0000_0007), ("ECUA", 1, 0x2_0000_0007), ("ECUA", 1, 7)]] {
                        let mut c = Case {
                            family: "triple".into(),
                            cfg: Cfg { glob: Some("*".into()), ..Cfg::save_only() },
                            big_endian: false,
                            transfers: vec![
                                tr(0, keys[0].0, keys[0].1, keys[0].2, "a.bin", *s, *b, fa.clone()),
                                tr(1, keys[1].0, keys[1].1, keys[1].2, "b.bin", 1, 1, Fault::None),
                                tr(2, keys[2].0, keys[2].1, keys[2].2, "c.bin", 1, 1, Fault::None),
                            ],
                            bogus: vec![],
                            unrelated: vec![],
                            order: vec![],
                            isolate: false,
                        };
                        for_interleavings(ctx, sb, &mut c)?;
                    }
                }
            }
            Ok(())
        })();
        ctx.end_family(r.is_ok());
        r
    }

    /// family 3: announced names x auto-save configuration x state of the configured directory
    fn fam_names(&self, ctx: &mut Ctx, sb: &Sandbox) -> Result<(), Stop> {
        let names = ["a.bin", "d/a.bin", "$ROOT/abs/a.bin", "../a.bin", "..", "a/..", ".", "a/.", "../../a.bin", "", "/", "a.bin/"];
        let globs = ["*", "**/*.bin", "*.txt"];
        let pres = [
            (Pre::None, ""),
            (Pre::File, "a.bin"),
            (Pre::Dir, "a.bin"),
            (Pre::Dangling, "a.bin"),
            (Pre::SymlinkToFile, "a.bin"),
            (Pre::File, "<invalid_filename serial 1>"),
            (Pre::Dangling, "<invalid_filename serial 1>"),
            (Pre::File, "a"),
        ];
        let shapes: &[(usize, usize, Fault)] = &[
            (1, 1, Fault::None),
            (3, 2, Fault::None),
            (4, 2, Fault::Dup { pkg: 2, after: 2 }),
            (3, 2, Fault::Drop(1)),
            (3, 2, Fault::Shrink(2)),
            (4, 2, Fault::DropFlst),
        ];
        ctx.begin_family("names_fs", &format!("{} names x {} globs x allowSave x {} pre-existing entries x dir exists x trailing slash x {} transfer shapes", names.len(), globs.len(), pres.len(), shapes.len()));
        let r = (|| {
            for name in names {
                for g in globs {
                    for allow_save in [false, true] {
                        for (pre, pre_name) in pres {
                            for out_exists in [true, false] {
                                for trailing_slash in [false, true] {
                                    for (s, b, f) in shapes {
                                        let mut c = Case {
                                            family: "names_fs".into(),
                                            cfg: Cfg { allow_save, keep_flda: false, glob: Some(g.into()), out_exists, trailing_slash, pre, pre_name: pre_name.into() },
                                            big_endian: false,
                                            transfers: vec![tr(0, "ECUA", 1, 1, name, *s, *b, f.clone())],
                                            bogus: vec![],
                                            unrelated: vec![],
                                            order: vec![],
                                            isolate: false,
                                        };
                                        for_interleavings(ctx, sb, &mut c)?;
                                    }
                                }
                            }
                        }
                    }
                }
            }
            Ok(())
        })();
        ctx.end_family(r.is_ok());
        r?;
        // two transfers competing for one target name: the second must not overwrite the first
        let pairs = [("a.bin", "d/a.bin"), ("a.bin", "a.bin"), ("../a.bin", "$ROOT/abs/a.bin"), ("..", "a/.."), ("d/a.bin", "e/a.bin")];
        ctx.begin_family("same_target_name", &format!("{} name pairs x S in 1..3 x B in {{1,S}} x allowSave x all interleavings", pairs.len()));
        let r = (|| {
            for (n1, n2) in pairs {
                for s in 1..=3usize {
                    for b in [1, s] {
                        for allow_save in [false, true] {
                            let mut c = Case {
                                family: "same_target_name".into(),
                                cfg: Cfg { allow_save, glob: Some("*".into()), ..Cfg::save_only() },
                                big_endian: false,
                                transfers: vec![tr(0, "ECUA", 1, 1, n1, s, b, Fault::None), tr(1, "ECUA", 1, 2, n2, s, b, Fault::None)],
                                bogus: vec![],
                                unrelated: vec![],
                                order: vec![],
                                isolate: false,
                            };
                            for_interleavings(ctx, sb, &mut c)?;
                        }
                        if s == 1 {
                            break;
                        }
                    }
                }
            }
            Ok(())
        })();
        ctx.end_family(r.is_ok());
        r
    }

    /// family 4: a good transfer next to an announcement with boundary values in its numeric fields
    fn fam_hostile(&self, ctx: &mut Ctx, sb: &Sandbox) -> Result<(), Stop> {
        let v32: [u64; 6] = [1, 2, 0x1_0000, 0x7fff_ffff, 0x8000_0000, 0xffff_ffff];
        let v64: [u64; 3] = [1 << 32, 1 << 63, u64::MAX];
        let cfgs = [
            Cfg::save_only(),
            Cfg { allow_save: false, ..Cfg::save_only() },
            Cfg { allow_save: false, glob: Some("*".into()), ..Cfg::save_only() },
        ];
        ctx.begin_family("hostile_announce", "good transfer S=3 B=2 + one FLST with nr_packages, buffer_size from {1,2,2^16,2^31-1,2^31,2^32-1} (32 bit) and {2^32,2^63,2^64-1} (64 bit) x 3 configs x every position; products >= 64 MiB run in a child process (one position, allowSave)");
        let r = (|| {
            let mut combos: Vec<(u64, u64, bool)> = vec![];
            for nr in v32 {
                for buf in v32 {
                    combos.push((nr, buf, false));
                }
            }
            for nr in v64 {
                combos.push((nr, 1, true));
                combos.push((1, nr, true));
                combos.push((nr, nr, true));
            }
            for (nr, buf, wide) in combos {
                let prod = nr as u128 * buf as u128;
                let big = prod >= (64u128 << 20);
                for (ci, cfg) in cfgs.iter().enumerate() {
                    let keeps = cfg.allow_save || cfg.glob.is_some();
                    let mut c = Case {
                        family: "hostile_announce".into(),
                        cfg: cfg.clone(),
                        big_endian: false,
                        transfers: vec![tr(0, "ECUA", 1, 1, "a.bin", 3, 2, Fault::None)],
                        bogus: vec![Bogus { ecu: "ECUA".into(), lc: 1, serial: 9, name: "huge.bin".into(), nr_packages: nr, buffer_size: buf, file_size: (prod.min(u64::MAX as u128)) as u64, wide }],
                        unrelated: vec![],
                        order: vec![],
                        isolate: big && keeps,
                    };
                    if c.isolate {
                        if ci != 0 {
                            continue;
                        }
                        // one position: right after the good transfer's announcement
                        if ctx.mine() {
                            c.order = vec![0, 1, 0, 0, 0];
                            dispatch(ctx, &c, sb);
                        }
                    } else {
                        for_interleavings(ctx, sb, &mut c)?;
                    }
                }
            }
            Ok(())
        })();
        ctx.end_family(r.is_ok());
        r?;
        // real (completing) transfers whose announcement is large: one package, announced buffer size around and above
        // the 16 MiB the plugin is willing to reserve up front; the content itself is small
        ctx.begin_family("big_announced_buffer", "transfer of 3 bytes in one package with announced buffer size in {16 MiB - 1, 16 MiB, 16 MiB + 1, 32 MiB, 2^31 - 1} interleaved with a second small transfer x 2 configs (save command / auto-save): complete and saved byte-identical");
        let r2 = (|| {
            for b in [(16usize << 20) - 1, 16 << 20, (16 << 20) + 1, 32 << 20, 0x7fff_ffff] {
                for cfg in [Cfg { glob: Some("*".into()), ..Cfg::save_only() }, Cfg { allow_save: false, glob: Some("*".into()), ..Cfg::save_only() }] {
                    let mut c = Case {
                        family: "big_announced_buffer".into(),
                        cfg,
                        big_endian: false,
                        transfers: vec![tr(0, "ECUA", 1, 1, "a.bin", 3, b, Fault::None), tr(1, "ECUB", 1, 1, "d/b.bin", 1, 1, Fault::None)],
                        bogus: vec![],
                        unrelated: vec![],
                        order: vec![],
                        isolate: false,
                    };
                    ctx.landmark("case:big_announced_buffer");
                    for_interleavings(ctx, sb, &mut c)?;
                }
            }
            Ok(())
        })();
        ctx.end_family(r2.is_ok());
        r2
    }
}

impl Prop for C17Prop {
    fn meta(&self, _tier: Tier) -> Meta {
        Meta {
            id: "C17",
            level: "model_checking",
            rule: "bounded exhaustive exploration of FLST/FLDA/FLFI message streams executed on the real FileTransferPlugin (from_json, process_msg, published state, save command, auto-save into a sandbox directory): (1) one transfer, every content length S in 1..9 x package size B in {1,2,3,4,S} x every single fault {none, drop package i, identical duplicate of package i at every later position, swap i/i+1, grow/shrink package i by one byte, drop FLST, drop FLFI} x 10 configurations x byte order, and x every position of 1..2 unrelated/stray messages; (2) two (and three) concurrent transfers whose keys differ in exactly one of serial / ECU / lifecycle, every interleaving of the message lists; (3) announced file names x auto-save glob x state of the configured directory (missing, pre-existing file / directory / symlink at the target name); two transfers with one target name; (4) a good transfer next to an announcement with boundary values for nr_packages / buffer_size. Oracle (reference = original bytes + injected fault): no fault or only duplicates => reported complete at the end, the save command (allowSave) and auto-save (glob matches, name free) yield exactly the original bytes - the save command is issued through the transfer's tree item by occurrence and through its item in the 'Sorted by name' view (same transfers, ordered by file name); missing / swapped / resized package => never reported complete after any message, the save command refuses it, nothing with its bytes in the directory; every file that appears lies inside the configured directory and holds the original of a transfer that is complete; pre-existing entries are unchanged; no panic / abort. A case is non-trivial when a file was saved and compared, an incomplete transfer was reported, or auto-save was skipped because the name was taken.".into(),
            assumptions: vec![
                "file contents are position- and transfer-coded bytes (the plugin never branches on data bytes); sizes and package sizes as listed under coverage.families".into(),
                "a duplicate is an identical copy of a package (same number, same bytes); a repeated number with different bytes is not explored".into(),
                "faults are single faults per transfer; the second transfer of a pair may carry its own single fault".into(),
                "autoSavePath is always given (absolute sandbox directory); the default ./ is not explored".into(),
            ],
            budget_s: (90, 1100),
            workers: 0,
            required_landmarks: vec![
                // properties of the enumerated cases
                "case:fault_that_forbids_completion",
                "by_name_view_multi",
                "saved_by_name_item_equal",
                "case:last_package_shorter",
                "case:two_transfers_interleaved",
                "case:preexisting_entry",
                "case:hostile_announcement",
                "case:big_announced_buffer",
                // observed behaviour
                "complete_reported",
                "incomplete_reported",
                "still_open_at_end",
                "saved_by_command_equal",
                "autosaved_equal",
                "autosave_skipped_name_taken",
                "save_refused_for_incomplete",
            ],
        }
    }

    fn run(&self, ctx: &mut Ctx) {
        let sb = Sandbox::new();
        // development aid: MC_C17_ONLY=single|names|hostile|pair restricts the run to one family group
        let only = std::env::var("MC_C17_ONLY").ok();
        let want = |f: &str| only.as_deref().map(|o| o == f).unwrap_or(true);
        let mut r = Ok(());
        if want("single") {
            r = r.and_then(|_| self.fam_single(ctx, &sb));
        }
        if want("names") {
            r = r.and_then(|_| self.fam_names(ctx, &sb));
        }
        if want("hostile") {
            r = r.and_then(|_| self.fam_hostile(ctx, &sb));
        }
        if want("pair") {
            r = r.and_then(|_| self.fam_triple(ctx, &sb));
            r = r.and_then(|_| self.fam_pair(ctx, &sb));
        }
        let _ = r;
    }

    fn replay(&self, case: &Value, ctx: &mut Ctx) {
        let c: Case = serde_json::from_value(case.clone()).expect("C17 case");
        let sb = Sandbox::new();
        ctx.mine();
        dispatch(ctx, &c, &sb);
    }
}
