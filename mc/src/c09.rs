//! C09 — merging (SortingMultiReaderIterator) and chaining (SequentialMultiIterator) of message sources.
//!
//! Bounded exhaustive exploration: every family of k sources x n messages x reception-time tuples x start index x
//! constructor variant is built and run on the real iterators; the oracle is a list model (multiset, per-source
//! order, consecutive numbering, time order when every source is ordered; chain = concatenation).
//! Long chains of empty sources run in a subprocess (the advance in `SequentialMultiIterator::next` is recursive;
//! a stack overflow aborts the process and cannot be caught in-process).
use crate::core::dltgen::{mk_msg, Framing, MsgSpec, MTIN_LOG_INFO_V, UEH, VERS1, WEID, WTMS};
use crate::core::*;
use adlt::dlt::DltMessage;
use adlt::utils::sorting_multi_readeriterator::{SequentialMultiIterator, SortingMultiReaderIterator};
use adlt::utils::DltMessageIterator;
use serde_json::{json, Value};
use std::collections::BTreeMap;

const S: u64 = 1_000_000;
const BASE_SECS: u64 = 1_600_000_000;
const SUB_ENV: &str = "MC_C09_SUB";
/// stack of the thread that runs a long chain inside the subprocess (= the usual main-thread limit)
const SUB_STACK: usize = 8 << 20;

type Src = Box<dyn Iterator<Item = DltMessage> + 'static>;

#[derive(Clone, Copy, PartialEq, Eq, Debug)]
pub enum Api {
    /// SortingMultiReaderIterator::new
    MergeNew,
    /// SortingMultiReaderIterator::new_or_single_it
    MergeOrSingle,
    /// SequentialMultiIterator::new
    ChainNew,
    /// SequentialMultiIterator::new_or_single_it, outer iterator with an exact size_hint (vec::IntoIter)
    ChainOrSingleExact,
    /// SequentialMultiIterator::new_or_single_it, outer iterator with size_hint (0, Some(n)) (a filter adaptor)
    ChainOrSingleInexact,
    /// SequentialMultiIterator::new_or_single_it, outer iterator once(first).chain(rest.filter(..)): size_hint (1, Some(n))
    ChainOrSingleLower1,
    /// SequentialMultiIterator::new_or_single_it, outer iterator with size_hint (1, None)
    ChainOrSingleLower1Unbounded,
}
impl Api {
    fn name(&self) -> &'static str {
        match self {
            Api::MergeNew => "merge_new",
            Api::MergeOrSingle => "merge_or_single",
            Api::ChainNew => "chain_new",
            Api::ChainOrSingleExact => "chain_or_single_exact_hint",
            Api::ChainOrSingleInexact => "chain_or_single_inexact_hint",
            Api::ChainOrSingleLower1 => "chain_or_single_hint_1_some_n",
            Api::ChainOrSingleLower1Unbounded => "chain_or_single_hint_1_none",
        }
    }
    fn parse(s: &str) -> Option<Api> {
        Some(match s {
            "merge_new" => Api::MergeNew,
            "merge_or_single" => Api::MergeOrSingle,
            "chain_new" => Api::ChainNew,
            "chain_or_single_exact_hint" => Api::ChainOrSingleExact,
            "chain_or_single_inexact_hint" => Api::ChainOrSingleInexact,
            "chain_or_single_hint_1_some_n" => Api::ChainOrSingleLower1,
            "chain_or_single_hint_1_none" => Api::ChainOrSingleLower1Unbounded,
            _ => return None,
        })
    }
    fn is_merge(&self) -> bool {
        matches!(self, Api::MergeNew | Api::MergeOrSingle)
    }
}

/// start index: a number or "the largest start for which the numbering still fits into the index type"
#[derive(Clone, Copy, PartialEq, Eq, Debug)]
pub enum Start {
    At(u32),
    MaxFit,
}
impl Start {
    fn value(&self, total: usize) -> u32 {
        match self {
            Start::At(v) => *v,
            Start::MaxFit => u32::MAX - total as u32,
        }
    }
    fn json(&self) -> Value {
        match self {
            Start::At(v) => json!(v),
            Start::MaxFit => json!("max_fit"),
        }
    }
    fn parse(v: &Value) -> Start {
        match v.as_u64() {
            Some(n) => Start::At(n as u32),
            None => Start::MaxFit,
        }
    }
}

/// one case: `buckets[b][s]` = reception times (in s, relative) of the messages of sub-source s of bucket b.
/// Without `nest` every bucket has exactly one sub-source and the bucket *is* the source handed to `api`.
/// With `nest` (the shape `adlt convert` builds) every bucket is a `SequentialMultiIterator::new_or_single_it`
/// over its sub-sources and the buckets are merged with `api` (a merge constructor).
#[derive(Clone, Debug)]
pub struct Case {
    pub family: String,
    pub api: Api,
    pub start: Start,
    pub nest: bool,
    /// sources are `DltMessageIterator`s over in-memory byte buffers instead of Vec iterators
    pub reader: bool,
    pub buckets: Vec<Vec<Vec<u8>>>,
    /// size_hint flavour of the (Vec-backed, not nested) source of bucket b: 0 exact, 1 (0, Some(n)), 2 (0, None),
    /// 3 (n, None), 4 (0, Some(n + 3)); empty = all exact
    pub hints: Vec<u8>,
}
impl Case {
    fn json(&self) -> Value {
        let sources: Value = if self.nest {
            json!(self.buckets)
        } else {
            json!(self.buckets.iter().map(|b| b[0].clone()).collect::<Vec<_>>())
        };
        json!({"family": self.family, "api": self.api.name(), "start": self.start.json(), "nest": self.nest,
            "reader": self.reader, "sources_reception_s": sources, "source_hints": self.hints})
    }
    fn parse(v: &Value) -> Option<Case> {
        let nest = v["nest"].as_bool().unwrap_or(false);
        let times = |x: &Value| -> Vec<u8> {
            x.as_array().map(|a| a.iter().map(|t| t.as_u64().unwrap_or(0) as u8).collect()).unwrap_or_default()
        };
        let arr = v["sources_reception_s"].as_array()?;
        let buckets = if nest {
            arr.iter().map(|b| b.as_array().map(|s| s.iter().map(&times).collect()).unwrap_or_default()).collect()
        } else {
            arr.iter().map(|s| vec![times(s)]).collect()
        };
        Some(Case {
            family: v["family"].as_str().unwrap_or("replay").to_string(),
            api: Api::parse(v["api"].as_str()?)?,
            start: Start::parse(&v["start"]),
            nest,
            reader: v["reader"].as_bool().unwrap_or(false),
            buckets,
            hints: v["source_hints"].as_array().map(|a| a.iter().map(|h| h.as_u64().unwrap_or(0) as u8).collect()).unwrap_or_default(),
        })
    }
    fn total(&self) -> usize {
        self.buckets.iter().map(|b| b.iter().map(|s| s.len()).sum::<usize>()).sum()
    }
}

fn own_index(b: usize, s: usize, p: usize) -> u32 {
    7000 + (b * 100 + s * 10 + p) as u32
}

/// reception time of a time code: codes < 200 are seconds after the base, codes 200.. are the corners of the u64 range
const CORNERS: [u64; 7] = [0, 1, (1 << 63) - 1, 1 << 63, (1 << 63) + 1, u64::MAX - 1, u64::MAX];
fn recv_us(t: u8) -> u64 {
    if t >= 200 {
        CORNERS[(t - 200) as usize]
    } else {
        (BASE_SECS + t as u64) * S
    }
}
/// the message (bucket b, sub-source s, position p, reception t) as a struct
fn gen_msg(b: usize, s: usize, p: usize, t: u8) -> DltMessage {
    let ecu = [b'S', b'R', b'0'.wrapping_add(b as u8), b'0'.wrapping_add(s as u8)];
    mk_msg(
        own_index(b, s, p),
        &ecu,
        recv_us(t),
        (p as u32 + 1) * 10,
        true,
        Some((MTIN_LOG_INFO_V, 0, *b"APID", *b"CTID")),
        vec![b as u8, (b >> 8) as u8, (b >> 16) as u8, s as u8, p as u8],
    )
}
/// the same message as bytes (storage framing) for the reader-backed sources
fn gen_bytes(b: usize, s: usize, p: usize, t: u8) -> Vec<u8> {
    let ecu = [b'S', b'R', b'0'.wrapping_add(b as u8), b'0'.wrapping_add(s as u8)];
    MsgSpec {
        framing: Framing::Storage,
        htyp: VERS1 | UEH | WEID | WTMS,
        storage_ecu: ecu,
        hdr_ecu: ecu,
        apid: *b"APID",
        ctid: *b"CTID",
        mcnt: p as u8,
        session_id: 0,
        timestamp: (p as u32 + 1) * 10,
        secs: (BASE_SECS + t as u64) as u32,
        micros: 0,
        verb_mstp_mtin: MTIN_LOG_INFO_V,
        noar: 0,
        payload: vec![b as u8, (b >> 8) as u8, (b >> 16) as u8, s as u8, p as u8],
    }
    .to_bytes()
}

/// the messages of one sub-source as the source itself delivers them (own indices)
fn source_msgs(case: &Case, b: usize, s: usize) -> Vec<DltMessage> {
    let times = &case.buckets[b][s];
    if case.reader {
        let mut bytes = vec![];
        for (p, t) in times.iter().enumerate() {
            bytes.extend_from_slice(&gen_bytes(b, s, p, *t));
        }
        let v: Vec<DltMessage> =
            DltMessageIterator::new(own_index(b, s, 0), std::io::Cursor::new(bytes)).collect();
        assert_eq!(v.len(), times.len(), "harness: reference parse of a generated source lost messages");
        v
    } else {
        times.iter().enumerate().map(|(p, t)| gen_msg(b, s, p, *t)).collect()
    }
}
/// iterator adaptor reporting a chosen (correct but inexact) size_hint
struct Hinted<I> {
    inner: I,
    hint: (usize, Option<usize>),
}
impl<I: Iterator> Iterator for Hinted<I> {
    type Item = I::Item;
    fn next(&mut self) -> Option<I::Item> {
        self.inner.next()
    }
    fn size_hint(&self) -> (usize, Option<usize>) {
        self.hint
    }
}

fn make_source(case: &Case, b: usize, s: usize) -> Src {
    let times = &case.buckets[b][s];
    if case.reader {
        let mut bytes = vec![];
        for (p, t) in times.iter().enumerate() {
            bytes.extend_from_slice(&gen_bytes(b, s, p, *t));
        }
        Box::new(DltMessageIterator::new(own_index(b, s, 0), std::io::Cursor::new(bytes)))
    } else {
        let v = source_msgs(case, b, s);
        let n = v.len();
        match case.hints.get(b).copied().unwrap_or(0) {
            0 => Box::new(v.into_iter()),
            1 => Box::new(Hinted { inner: v.into_iter(), hint: (0, Some(n)) }),
            2 => Box::new(Hinted { inner: v.into_iter(), hint: (0, None) }),
            3 => Box::new(Hinted { inner: v.into_iter(), hint: (n, None) }),
            _ => Box::new(Hinted { inner: v.into_iter(), hint: (0, Some(n + 3)) }),
        }
    }
}

fn same_but_index(a: &DltMessage, b: &DltMessage) -> bool {
    a.reception_time_us == b.reception_time_us
        && a.ecu == b.ecu
        && a.timestamp_dms == b.timestamp_dms
        && a.standard_header == b.standard_header
        && a.extended_header == b.extended_header
        && a.payload == b.payload
        && a.payload_text == b.payload_text
        && a.lifecycle == b.lifecycle
}

fn is_sorted(v: &[DltMessage]) -> bool {
    v.windows(2).all(|w| w[0].reception_time_us <= w[1].reception_time_us)
}

/// reference model of a chain: concatenation, numbered from `start` — unless the documented single-source
/// shortcut applies (then: the source itself, own indices)
fn model_chain(start: u32, subs: &[Vec<DltMessage>], shortcut: bool) -> Vec<DltMessage> {
    if shortcut {
        return subs[0].clone();
    }
    let mut out = vec![];
    for s in subs {
        for m in s {
            let mut m = m.clone();
            m.index = start.wrapping_add(out.len() as u32);
            out.push(m);
        }
    }
    out
}

fn collect_bounded(it: impl Iterator<Item = DltMessage>, limit: usize) -> Vec<DltMessage> {
    let mut out = vec![];
    for m in it {
        out.push(m);
        if out.len() > limit {
            break;
        }
    }
    out
}

/// check `out` against the sources `seen` (in source order). `chain`: the result must be the concatenation;
/// otherwise the merge clauses apply. Returns false when a violation was recorded.
fn judge(
    ctx: &mut Ctx,
    chain: bool,
    start: u32,
    seen: &[Vec<DltMessage>],
    out: &[DltMessage],
    case: &dyn Fn() -> Value,
) -> bool {
    // tag -> (source, position)
    let mut by_tag: BTreeMap<&[u8], (usize, usize)> = BTreeMap::new();
    for (b, v) in seen.iter().enumerate() {
        for (i, m) in v.iter().enumerate() {
            by_tag.insert(&m.payload[..], (b, i));
        }
    }
    let total: usize = seen.iter().map(|v| v.len()).sum();
    let mut count: BTreeMap<(usize, usize), u32> = BTreeMap::new();
    let mut where_from: Vec<(usize, usize)> = Vec::with_capacity(out.len());
    for (i, m) in out.iter().enumerate() {
        match by_tag.get(&m.payload[..]) {
            None => {
                ctx.violation("multiset", "foreign", case, format!("output #{i} {:?} is not a message of any source", m));
                return false;
            }
            Some(k) => {
                *count.entry(*k).or_default() += 1;
                where_from.push(*k);
            }
        }
    }
    if let Some((k, c)) = count.iter().find(|(_, c)| **c > 1) {
        ctx.violation("multiset", "duplicated", case, format!("message {} of source {} delivered {} times", k.1, k.0, c));
        return false;
    }
    if out.len() != total {
        let missing: Vec<(usize, usize)> = by_tag.values().filter(|k| !count.contains_key(k)).copied().collect();
        ctx.violation("multiset", "lost", case, format!("{} of {} messages delivered; missing (source,pos) {:?}", out.len(), total, missing));
        return false;
    }
    for (i, m) in out.iter().enumerate() {
        let (b, p) = where_from[i];
        if !same_but_index(m, &seen[b][p]) {
            ctx.violation("altered", "", case, format!("output #{i}: {:?} != source message {:?}", m, seen[b][p]));
            return false;
        }
    }
    // per-source order
    let mut last: BTreeMap<usize, usize> = BTreeMap::new();
    for (i, (b, p)) in where_from.iter().enumerate() {
        if let Some(lp) = last.get(b) {
            if lp > p {
                ctx.violation("source_order", "", case, format!("output #{i}: source {b} position {p} after position {lp}"));
                return false;
            }
        }
        last.insert(*b, *p);
    }
    if chain {
        let expect: Vec<(usize, usize)> =
            seen.iter().enumerate().flat_map(|(b, v)| (0..v.len()).map(move |p| (b, p))).collect();
        if expect != where_from {
            ctx.violation("chain_order", "", case, format!("output (source,pos) {:?} is not the concatenation {:?}", where_from, expect));
            return false;
        }
    }
    // numbering
    for (i, m) in out.iter().enumerate() {
        if m.index != start.wrapping_add(i as u32) {
            let disc = if i == 0 { "first_not_start" } else { "not_consecutive" };
            let idx: Vec<u32> = out.iter().map(|m| m.index).collect();
            ctx.violation("index", disc, case, format!("indices {:?}, expected consecutive from {}", idx, start));
            return false;
        }
    }
    if !chain && seen.iter().all(|v| is_sorted(v)) && !is_sorted(out) {
        let t: Vec<u64> = out.iter().map(|m| m.reception_time_us).collect();
        ctx.violation("time_order", "", case, format!("every source ordered by reception time but output times (us) {:?}", t));
        return false;
    }
    true
}

pub fn run_case(ctx: &mut Ctx, case: &Case) {
    let cj = || case.json();
    let total = case.total();
    let start = case.start.value(total);
    let nb = case.buckets.len();
    // what every bucket looks like to the outer iterator according to the model
    let subs: Vec<Vec<Vec<DltMessage>>> = (0..nb)
        .map(|b| (0..case.buckets[b].len()).map(|s| source_msgs(case, b, s)).collect())
        .collect();
    let seen: Vec<Vec<DltMessage>> = if case.nest {
        subs.iter().map(|ss| model_chain(start, ss, ss.len() == 1)).collect()
    } else {
        subs.iter().map(|ss| ss[0].clone()).collect()
    };
    // ---- run the real thing
    let res = catch(|| {
        let srcs: Vec<Src> = (0..nb)
            .map(|b| {
                if case.nest {
                    let inner: Vec<Src> = (0..case.buckets[b].len()).map(|s| make_source(case, b, s)).collect();
                    SequentialMultiIterator::new_or_single_it(start, inner.into_iter())
                } else {
                    make_source(case, b, 0)
                }
            })
            .collect();
        let limit = total + 4;
        match case.api {
            Api::MergeNew => collect_bounded(SortingMultiReaderIterator::new(start, srcs), limit),
            Api::MergeOrSingle => collect_bounded(SortingMultiReaderIterator::new_or_single_it(start, srcs), limit),
            Api::ChainNew => collect_bounded(SequentialMultiIterator::new(start, srcs.into_iter()), limit),
            Api::ChainOrSingleExact => {
                collect_bounded(SequentialMultiIterator::new_or_single_it(start, srcs.into_iter()), limit)
            }
            Api::ChainOrSingleInexact => collect_bounded(
                SequentialMultiIterator::new_or_single_it(start, srcs.into_iter().filter(|_| true)),
                limit,
            ),
            Api::ChainOrSingleLower1 | Api::ChainOrSingleLower1Unbounded => {
                // a legal but inexact size_hint of the outer iterator: lower bound 1, upper bound n (or unknown)
                let n = srcs.len();
                let hint = if n == 0 {
                    (0, Some(0))
                } else if case.api == Api::ChainOrSingleLower1 {
                    (1, Some(n))
                } else {
                    (1, None)
                };
                collect_bounded(SequentialMultiIterator::new_or_single_it(start, Hinted { inner: srcs.into_iter(), hint }), limit)
            }
        }
    });
    ctx.transitions(total as u64 + 1);
    // ---- landmarks
    let nonempty = seen.iter().filter(|v| !v.is_empty()).count();
    let nontrivial = nb >= 2 && total >= 2;
    if seen.iter().any(|v| v.is_empty()) {
        ctx.landmark("empty_source");
        if nb >= 3 && (1..nb - 1).any(|b| seen[b].is_empty()) && !seen[0].is_empty() && !seen[nb - 1].is_empty() {
            ctx.landmark("empty_source_between_nonempty");
        }
    }
    if seen.iter().any(|v| !is_sorted(v)) {
        ctx.landmark("unsorted_source");
    }
    if seen.iter().any(|v| v.len() >= 2) && nonempty >= 2 {
        ctx.landmark("refill_with_competitor");
    }
    if case.reader {
        ctx.landmark("reader_backed_sources");
    }
    if case.nest {
        ctx.landmark("merge_of_chains");
    }
    {
        let mut heads: Vec<u64> = seen.iter().filter_map(|v| v.first().map(|m| m.reception_time_us)).collect();
        heads.sort();
        if heads.windows(2).any(|w| w[0] == w[1]) {
            ctx.landmark("tie_between_source_heads");
        }
    }
    let shortcut = nb == 1 && matches!(case.api, Api::MergeOrSingle | Api::ChainOrSingleExact | Api::ChainOrSingleLower1);
    if shortcut {
        ctx.landmark("single_source_shortcut");
    }
    ctx.eval(nontrivial);
    ctx.sample(cj);
    let out = match res {
        Err(p) => {
            ctx.violation("panic", &p.loc, &cj, p.msg);
            return;
        }
        Ok(o) => o,
    };
    // outcome = order of (source,pos) tags + indices relative to start
    {
        let mut s = String::new();
        for m in &out {
            s.push_str(&format!("{:?}@{};", m.payload, m.index.wrapping_sub(start)));
        }
        ctx.outcome(fnv_str(&s));
    }
    if shortcut {
        // documented: the single source itself is returned, the start index is ignored
        if out != seen[0] {
            let idx: Vec<u32> = out.iter().map(|m| m.index).collect();
            ctx.violation("single_shortcut", "", &cj, format!("single source not passed through unchanged (indices {:?}, {} of {} messages)", idx, out.len(), seen[0].len()));
        }
        return;
    }
    let chain = !case.api.is_merge();
    if judge(ctx, chain, start, &seen, &out, &cj) && !chain && nonempty >= 2 && seen.iter().all(|v| is_sorted(v)) {
        // sorted inputs whose merge is not simply the concatenation
        let cat: Vec<&[u8]> = seen.iter().flat_map(|v| v.iter().map(|m| &m.payload[..])).collect();
        let got: Vec<&[u8]> = out.iter().map(|m| &m.payload[..]).collect();
        if cat != got {
            ctx.landmark("sorted_sources_interleaved");
        }
    }
}

// ------------------------------------------------------------------ long chains of empty sources (subprocess)
#[derive(Clone, Copy, PartialEq, Eq, Debug)]
pub enum Layout {
    /// n empty sources
    OnlyEmpty,
    /// one message, n empty sources, one message
    MsgEmptyMsg,
    /// n empty sources, one message
    EmptyMsg,
}
impl Layout {
    fn name(&self) -> &'static str {
        match self {
            Layout::OnlyEmpty => "E^n",
            Layout::MsgEmptyMsg => "M E^n M",
            Layout::EmptyMsg => "E^n M",
        }
    }
    fn parse(s: &str) -> Option<Layout> {
        Some(match s {
            "E^n" => Layout::OnlyEmpty,
            "M E^n M" => Layout::MsgEmptyMsg,
            "E^n M" => Layout::EmptyMsg,
            _ => return None,
        })
    }
}
fn long_case_json(layout: Layout, n: u64, start: u32) -> Value {
    json!({"family": "chain_long_empty", "api": "chain_new", "layout": layout.name(), "empty_sources": n, "start": start,
        "stack_bytes": SUB_STACK})
}

/// runs inside the subprocess: the chain is built lazily, so only the recursion depth grows with n
fn long_chain_inproc(ctx: &mut Ctx, layout: Layout, n: u64, start: u32) {
    let cj = || long_case_json(layout, n, start);
    let first = gen_msg(0, 0, 0, 1);
    let last = gen_msg(1, 0, 0, 2);
    let (seen, nsrc): (Vec<Vec<DltMessage>>, u64) = match layout {
        Layout::OnlyEmpty => (vec![], n),
        Layout::MsgEmptyMsg => (vec![vec![first.clone()], vec![last.clone()]], n + 2),
        Layout::EmptyMsg => (vec![vec![last.clone()]], n + 1),
    };
    let res = catch(|| {
        let its = (0..nsrc).map(move |i| -> Src {
            match layout {
                Layout::MsgEmptyMsg if i == 0 => Box::new(std::iter::once(first.clone())),
                Layout::MsgEmptyMsg | Layout::EmptyMsg if i == nsrc - 1 => Box::new(std::iter::once(last.clone())),
                _ => Box::new(std::iter::empty()),
            }
        });
        collect_bounded(SequentialMultiIterator::new(start, its), 8)
    });
    match res {
        Err(p) => ctx.violation("panic", &p.loc, &cj, p.msg),
        Ok(out) => {
            judge(ctx, true, start, &seen, &out, &cj);
        }
    }
}

/// entry of the subprocess (env MC_C09_SUB = "<layout>|<n>|<start>"): prints the violations as JSON, exits 0
fn sub_main(spec: &str) -> ! {
    let parts: Vec<&str> = spec.split('|').collect();
    let layout = Layout::parse(parts[0]).expect("layout");
    let n: u64 = parts[1].parse().expect("n");
    let start: u32 = parts[2].parse().expect("start");
    let h = std::thread::Builder::new()
        .stack_size(SUB_STACK)
        .spawn(move || {
            let mut ctx = Ctx::new(Tier::Quick, 0, 1, 0, 3600);
            ctx.replaying = true;
            ctx.mine();
            long_chain_inproc(&mut ctx, layout, n, start);
            ctx.sum.violations
        })
        .expect("spawn");
    let v = h.join().expect("join");
    println!("{}", serde_json::to_string(&v).unwrap());
    std::process::exit(0)
}

fn run_long_case(ctx: &mut Ctx, layout: Layout, n: u64, start: u32) {
    use std::os::unix::process::ExitStatusExt;
    let cj = || long_case_json(layout, n, start);
    let exe = std::env::current_exe().expect("current_exe");
    let outp = std::process::Command::new(exe)
        .args(["C09", "quick", "--worker", "0/1", "--out", "/dev/null"])
        .env(SUB_ENV, format!("{}|{}|{}", layout.name(), n, start))
        .output()
        .expect("harness: cannot spawn the C09 subprocess");
    ctx.landmark("subprocess_chain_ran");
    ctx.transitions(n + 2);
    ctx.eval(true);
    ctx.sample(cj);
    let stderr = String::from_utf8_lossy(&outp.stderr).to_string();
    if let Some(sig) = outp.status.signal() {
        let disc = if stderr.contains("overflowed its stack") {
            "empty_sources_recursion".to_string()
        } else {
            format!("signal_{sig}")
        };
        ctx.outcome(fnv_str(&format!("signal{sig}")));
        ctx.violation("abort", &disc, &cj, format!("process killed by signal {sig} while iterating the chain: {}", stderr.trim().lines().last().unwrap_or("")));
        return;
    }
    if !outp.status.success() {
        panic!("harness: C09 subprocess failed without a signal: {:?} {}", outp.status, stderr);
    }
    let vs: BTreeMap<String, ViolationRec> =
        serde_json::from_slice(&outp.stdout).expect("harness: C09 subprocess output");
    ctx.outcome(fnv_str(&format!("ok{}", vs.len())));
    for v in vs.values() {
        ctx.violation(&v.clause, &v.disc, &cj, v.detail.clone());
    }
}

// ------------------------------------------------------------------ enumeration
/// all reception-time tuples of length 0..=nmax over 1..=tmax, shortest first
fn time_tuples(nmax: usize, tmax: u8) -> Vec<Vec<u8>> {
    let mut v = vec![];
    for n in 0..=nmax {
        enumr::sequences(n, tmax as usize, |ix| {
            v.push(ix.iter().map(|x| *x as u8 + 1).collect());
            true
        });
    }
    v
}

pub struct C09;

impl C09 {
    /// every family of k sources (k = 0..=kmax) whose time tuples come from `cfgs`, x starts x apis
    #[allow(clippy::too_many_arguments)]
    fn flat_family(
        &self,
        ctx: &mut Ctx,
        name: &str,
        kmax: usize,
        nmax: usize,
        tmax: u8,
        apis: &[Api],
        starts: &[Start],
        reader: bool,
    ) -> bool {
        let cfgs = time_tuples(nmax, tmax);
        let apin: Vec<&str> = apis.iter().map(|a| a.name()).collect();
        for k in 0..=kmax {
            ctx.begin_family(
                name,
                &format!("sources={k} msgs/source=0..{nmax} reception in 1..{tmax}s (all tuples) starts={} apis={:?}", starts.len(), apin),
            );
            let done = enumr::product(&vec![cfgs.len(); k], |ix| {
                for st in starts {
                    for api in apis {
                        if ctx.mine() {
                            let case = Case {
                                family: name.into(),
                                api: *api,
                                start: *st,
                                nest: false,
                                reader,
                                buckets: ix.iter().map(|i| vec![cfgs[*i].clone()]).collect(),
                                hints: vec![],
                            };
                            run_case(ctx, &case);
                        }
                    }
                }
                !(ctx.sum.evaluations % 2048 == 0 && ctx.out_of_time())
            });
            ctx.end_family(done);
            if !done {
                return false;
            }
        }
        true
    }
}

impl Prop for C09 {
    fn meta(&self, _tier: Tier) -> Meta {
        Meta {
            id: "C09",
            level: "exploration",
            rule: "every family of k sources x n messages per source x every tuple of reception times (equal, increasing, unordered; plus a family over the corners of the u64 time range 0, 1, 2^63-1, 2^63, 2^63+1, 2^64-2, 2^64-1) x start index x constructor variant is run on the real SortingMultiReaderIterator / SequentialMultiIterator (new and new_or_single_it; Vec-backed (with exact and with every legal inexact size_hint flavour per source) and DltMessageIterator-backed sources; merge of chains as built by `adlt convert`); list-model oracle: multiset equality, unchanged content, per-source order, indices consecutive from the start index, reception-time order when every source is ordered, chain = concatenation; exactly one source through new_or_single_it is held to the documented pass-through. Long chains of empty sources run in a subprocess with an 8 MiB stack; death by signal is a violation. A case is non-trivial when it has >= 2 sources and >= 2 messages.".into(),
            assumptions: vec![
                "bounds as listed under coverage.families; start indices 0, 1000 and the largest start for which the numbering fits u32 (numbering that would wrap the index type is not explored)".into(),
                "sources are finite and fused (return None forever after their end)".into(),
            ],
            budget_s: (90, 1200),
            workers: 0,
            required_landmarks: vec![
                "empty_source",
                "empty_source_between_nonempty",
                "unsorted_source",
                "refill_with_competitor",
                "tie_between_source_heads",
                "sorted_sources_interleaved",
                "single_source_shortcut",
                "reader_backed_sources",
                "merge_of_chains",
                "subprocess_chain_ran",
                "time_corners",
                "inexact_source_hint",
                "many_sources",
            ],
        }
    }

    fn run(&self, ctx: &mut Ctx) {
        if let Ok(spec) = std::env::var(SUB_ENV) {
            sub_main(&spec);
        }
        let quick = ctx.tier == Tier::Quick;
        let starts = [Start::At(0), Start::At(1000), Start::MaxFit];
        let merge = [Api::MergeNew, Api::MergeOrSingle];
        let chain = [Api::ChainNew, Api::ChainOrSingleExact, Api::ChainOrSingleInexact, Api::ChainOrSingleLower1, Api::ChainOrSingleLower1Unbounded];
        let all = [Api::MergeNew, Api::MergeOrSingle, Api::ChainNew, Api::ChainOrSingleExact, Api::ChainOrSingleInexact, Api::ChainOrSingleLower1, Api::ChainOrSingleLower1Unbounded];

        // (1) merge and chain over Vec-backed sources
        if !self.flat_family(ctx, "merge", 3, 3, 3, &merge, &starts, false) {
            return;
        }
        if !self.flat_family(ctx, "chain", 3, 3, 3, &chain, &starts, false) {
            return;
        }
        // (1b) corners of the u64 reception-time range (0, 1, 2^63-1, 2^63, 2^63+1, u64::MAX-1, u64::MAX) + one ordinary time
        {
            let codes: [u8; 8] = [2, 200, 201, 202, 203, 204, 205, 206];
            let mut cfgs: Vec<Vec<u8>> = vec![vec![]];
            for n in 1..=2usize {
                enumr::sequences(n, codes.len(), |ix| {
                    cfgs.push(ix.iter().map(|x| codes[*x]).collect());
                    true
                });
            }
            let kmax = if quick { 2 } else { 3 };
            for k in 2..=kmax {
                ctx.begin_family("merge_time_corners", &format!("sources={k} msgs/source=0..2 reception in {{base+2s, 0, 1, 2^63-1, 2^63, 2^63+1, 2^64-2, 2^64-1}} (all tuples) starts=2 apis={:?}", merge.iter().map(|a| a.name()).collect::<Vec<_>>()));
                let done = enumr::product(&vec![cfgs.len(); k], |ix| {
                    for st in &starts[..2] {
                        for api in &merge {
                            if ctx.mine() {
                                ctx.landmark("time_corners");
                                let case = Case { family: "merge_time_corners".into(), api: *api, start: *st, nest: false, reader: false, buckets: ix.iter().map(|i| vec![cfgs[*i].clone()]).collect(), hints: vec![] };
                                run_case(ctx, &case);
                            }
                        }
                    }
                    !(ctx.sum.evaluations % 2048 == 0 && ctx.out_of_time())
                });
                ctx.end_family(done);
                if !done {
                    return;
                }
            }
        }
        // (2) sources = real DltMessageIterator over in-memory storage-framed bytes
        if !self.flat_family(ctx, "reader_sources", 3, 2, 3, &all, &starts[..2], true) {
            return;
        }
        // (2b) sources whose size_hint is legal but inexact: every assignment of 5 hint flavours to <= 3 sources of 0..2 messages
        {
            let lens: [Vec<u8>; 3] = [vec![], vec![1], vec![1, 2]];
            for k in 1..=3usize {
                ctx.begin_family("source_hints", &format!("sources={k} msgs/source in {{0,1,2}} x size_hint flavour per source in {{exact, (0,Some(n)), (0,None), (n,None), (0,Some(n+3))}} starts=2 apis={}", all.len()));
                let mut dims = vec![3usize; k];
                dims.extend(vec![5usize; k]);
                let done = enumr::product(&dims, |ix| {
                    for st in &starts[..2] {
                        for api in &all {
                            if ctx.mine() {
                                let case = Case {
                                    family: "source_hints".into(),
                                    api: *api,
                                    start: *st,
                                    nest: false,
                                    reader: false,
                                    buckets: ix[..k].iter().map(|i| vec![lens[*i].clone()]).collect(),
                                    hints: ix[k..].iter().map(|h| *h as u8).collect(),
                                };
                                if case.hints.iter().any(|h| *h != 0) {
                                    ctx.landmark("inexact_source_hint");
                                }
                                run_case(ctx, &case);
                            }
                        }
                    }
                    !(ctx.sum.evaluations % 2048 == 0 && ctx.out_of_time())
                });
                ctx.end_family(done);
                if !done {
                    return;
                }
            }
        }
        // (2c) many sources (counts around the capacity of small integer types): one message in every source, or only in
        // the last / the first and the last source
        {
            let ks: &[usize] = if quick { &[255, 256, 257, 300] } else { &[127, 128, 129, 255, 256, 257, 300, 1000, 65_537] };
            ctx.begin_family("many_sources", &format!("k in {:?} sources x {{every source one message, only the last, first and last}} x times {{all equal, increasing}} x starts=2 x apis={}", ks, all.len()));
            let mut done = true;
            'm: for k in ks {
                for fill in 0..3u8 {
                    for inc in [false, true] {
                        for st in &starts[..2] {
                            for api in &all {
                                if ctx.mine() {
                                    let buckets: Vec<Vec<Vec<u8>>> = (0..*k)
                                        .map(|b| {
                                            let has = match fill {
                                                0 => true,
                                                1 => b == k - 1,
                                                _ => b == 0 || b == k - 1,
                                            };
                                            vec![if has { vec![if inc { 1 + (b * 150 / k) as u8 } else { 5 }] } else { vec![] }]
                                        })
                                        .collect();
                                    let case = Case { family: "many_sources".into(), api: *api, start: *st, nest: false, reader: false, buckets, hints: vec![] };
                                    ctx.landmark("many_sources");
                                    run_case(ctx, &case);
                                    if ctx.out_of_time() {
                                        done = false;
                                        break 'm;
                                    }
                                }
                            }
                        }
                    }
                }
            }
            ctx.end_family(done);
            if !done {
                return;
            }
        }
        // (3) chain: every placement of empty sources among <= kmax sources
        {
            let kmax = if quick { 4 } else { 9 };
            for k in 0..=kmax {
                ctx.begin_family("chain_empty_placement", &format!("sources={k} msgs/source in {{0,1,2}} (every placement) starts=3 apis=3"));
                let done = enumr::sequences(k, 3, |lens| {
                    for st in &starts {
                        for api in &chain {
                            if ctx.mine() {
                                let case = Case {
                                    family: "chain_empty_placement".into(),
                                    api: *api,
                                    start: *st,
                                    nest: false,
                                    reader: false,
                                    buckets: lens
                                        .iter()
                                        .enumerate()
                                        .map(|(b, l)| vec![(0..*l).map(|p| ((b + p) % 3) as u8 + 1).collect()])
                                        .collect(),
                                    hints: vec![],
                                };
                                run_case(ctx, &case);
                            }
                        }
                    }
                    !(ctx.sum.evaluations % 2048 == 0 && ctx.out_of_time())
                });
                ctx.end_family(done);
                if !done {
                    return;
                }
            }
        }
        // (4) merge of chains (the shape adlt convert builds: one chain per ECU bucket, buckets merged)
        {
            let subcfgs = time_tuples(2, 3);
            let mut bucket_cfgs: Vec<Vec<Vec<u8>>> = vec![];
            for nsub in 1..=2usize {
                enumr::sequences(nsub, subcfgs.len(), |ix| {
                    bucket_cfgs.push(ix.iter().map(|i| subcfgs[*i].clone()).collect());
                    true
                });
            }
            let kmax = if quick { 2 } else { 3 };
            for k in 1..=kmax {
                ctx.begin_family("merge_of_chains", &format!("buckets={k} chains of 1..2 sources x 0..2 msgs, reception in 1..3s starts=2 apis=[merge_new, merge_or_single]"));
                let done = enumr::product(&vec![bucket_cfgs.len(); k], |ix| {
                    for st in &starts[..2] {
                        for api in &merge {
                            if ctx.mine() {
                                let case = Case {
                                    family: "merge_of_chains".into(),
                                    api: *api,
                                    start: *st,
                                    nest: true,
                                    reader: false,
                                    buckets: ix.iter().map(|i| bucket_cfgs[*i].clone()).collect(),
                                    hints: vec![],
                                };
                                run_case(ctx, &case);
                            }
                        }
                    }
                    !(ctx.sum.evaluations % 2048 == 0 && ctx.out_of_time())
                });
                ctx.end_family(done);
                if !done {
                    return;
                }
            }
        }
        // (5) long chains of empty sources, each in its own subprocess (a stack overflow aborts the process)
        {
            let ns: &[u64] = if quick { &[1_000, 10_000] } else { &[1_000, 10_000, 100_000, 1_000_000] };
            for n in ns {
                ctx.begin_family("chain_long_empty", &format!("empty_sources={n} layouts=[E^n, M E^n M, E^n M] starts=[0,1000] stack=8MiB subprocess"));
                for layout in [Layout::OnlyEmpty, Layout::MsgEmptyMsg, Layout::EmptyMsg] {
                    for start in [0u32, 1000] {
                        if ctx.mine() {
                            run_long_case(ctx, layout, *n, start);
                        }
                    }
                }
                ctx.end_family(true);
                if ctx.out_of_time() {
                    return;
                }
            }
        }
        // (6) larger bounds
        if !self.flat_family(ctx, "merge", 4, if quick { 2 } else { 3 }, 3, &merge, &starts[..2], false) {
            return;
        }
        if !self.flat_family(ctx, "chain", 4, if quick { 2 } else { 3 }, 3, &chain[..2], &starts[..2], false) {
            return;
        }
        if quick {
            let _ = self.flat_family(ctx, "merge", 4, 3, 3, &merge[..1], &starts[..1], false);
            return;
        }
        if !self.flat_family(ctx, "merge", 3, 4, 4, &merge[..1], &starts[..1], false) {
            return;
        }
        let _ = self.flat_family(ctx, "merge", 5, 2, 3, &merge[..1], &starts[..1], false);
    }

    fn replay(&self, case: &Value, ctx: &mut Ctx) {
        if let Ok(spec) = std::env::var(SUB_ENV) {
            sub_main(&spec);
        }
        ctx.mine();
        if case["family"].as_str() == Some("chain_long_empty") {
            let layout = Layout::parse(case["layout"].as_str().unwrap_or("")).expect("layout");
            run_long_case(ctx, layout, case["empty_sources"].as_u64().expect("n"), case["start"].as_u64().unwrap_or(0) as u32);
            return;
        }
        let c = Case::parse(case).expect("C09 case");
        run_case(ctx, &c);
    }
}
