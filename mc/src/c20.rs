//! C20 — archives.
//!
//! Part A: `SeekableChain` vs `std::io::Cursor` over the concatenation: every split of a byte string of
//! length <= L into <= 3 volumes (empty ones included) x every sequence of read/seek operations up to a
//! depth, stateless (each sequence is executed on a fresh chain). Volumes are in-memory cursors, in-memory
//! cursors that deliver one byte per read (short-reading volumes) and real files.
//!
//! Part B: extraction through `adlt::utils::unzip::{extract_archives, extract_to_dir}` of zip archives
//! that the harness writes byte by byte itself (stored entries, own central directory: full control over
//! member names — the `zip` crate's writer refuses duplicates), inside a per-case sandbox directory whose
//! complete tree is compared before/after the call.
use crate::core::*;
use adlt::utils::cloneable_seekable_reader::HasLength;
use adlt::utils::seekablechain::SeekableChain;
use adlt::utils::unzip::{extract_archives, extract_to_dir};
use serde_json::{json, Value};
use std::cell::RefCell;
use std::collections::{BTreeMap, BTreeSet, HashMap};
use std::io::{Cursor, Read, Seek, SeekFrom};
use std::path::{Path, PathBuf};
use std::rc::Rc;
use std::sync::{atomic::AtomicBool, Arc};

// =====================================================================================================
// Part A: SeekableChain
// =====================================================================================================

#[derive(Clone, Copy, PartialEq, Eq, Debug)]
pub enum Op {
    Read(usize),
    ReadAll,
    Start(u64),
    Cur(i64),
    End(i64),
}
impl Op {
    pub fn name(&self) -> String {
        match self {
            Op::Read(n) => format!("r{n}"),
            Op::ReadAll => "rall".into(),
            Op::Start(p) => format!("S{p}"),
            Op::Cur(o) => format!("C{o:+}"),
            Op::End(o) => format!("E{o:+}"),
        }
    }
    pub fn parse(s: &str) -> Option<Op> {
        if s == "rall" {
            return Some(Op::ReadAll);
        }
        let (k, rest) = s.split_at(1);
        Some(match k {
            "r" => Op::Read(rest.parse().ok()?),
            "S" => Op::Start(rest.parse().ok()?),
            "C" => Op::Cur(rest.parse().ok()?),
            "E" => Op::End(rest.parse().ok()?),
            _ => return None,
        })
    }
    fn kind(&self) -> &'static str {
        match self {
            Op::Read(_) | Op::ReadAll => "read",
            Op::Start(_) => "start",
            Op::Cur(_) => "current",
            Op::End(_) => "end",
        }
    }
}

/// the operation alphabet for a stream of `len` bytes: read(0|1|2|all), Start(0..=len+1), Current(-2..=2),
/// End(-(len+1)..=1)
pub fn ops_for(len: usize) -> Vec<Op> {
    let mut v = vec![Op::Read(0), Op::Read(1), Op::Read(2), Op::ReadAll];
    for p in 0..=(len as u64 + 1) {
        v.push(Op::Start(p));
    }
    for o in -2..=2 {
        v.push(Op::Cur(o));
    }
    for o in -(len as i64 + 1)..=1 {
        v.push(Op::End(o));
    }
    v
}

#[derive(Clone, Copy, PartialEq, Eq, Debug)]
pub enum VolKind {
    Mem,
    MemShort,
    File,
}
impl VolKind {
    fn name(&self) -> &'static str {
        match self {
            VolKind::Mem => "mem",
            VolKind::MemShort => "mem_1byte_reads",
            VolKind::File => "file",
        }
    }
    fn parse(s: &str) -> VolKind {
        match s {
            "mem_1byte_reads" => VolKind::MemShort,
            "file" => VolKind::File,
            _ => VolKind::Mem,
        }
    }
}

/// an in-memory volume that never delivers more than one byte per read call (allowed by the Read contract)
struct ShortCursor(Cursor<Vec<u8>>);
impl Read for ShortCursor {
    fn read(&mut self, buf: &mut [u8]) -> std::io::Result<usize> {
        let n = buf.len().min(1);
        self.0.read(&mut buf[..n])
    }
}
impl Seek for ShortCursor {
    fn seek(&mut self, pos: SeekFrom) -> std::io::Result<u64> {
        self.0.seek(pos)
    }
}

#[derive(Default)]
struct ChainLm {
    excluded_ref_error: u64,
    empty_volume_case: u64,
    read_crossed_boundary: u64,
    short_read: u64,
    seek_beyond_end: u64,
    read_at_or_beyond_end: u64,
    backward_seek: u64,
    seek_into_later_volume: u64,
}
impl ChainLm {
    fn flush(&mut self, ctx: &mut Ctx) {
        for (k, v) in [
            ("chain:sequence_excluded(reference_errors:seek_before_0)", self.excluded_ref_error),
            ("chain:case_with_empty_volume", self.empty_volume_case),
            ("chain:read_crossed_volume_boundary", self.read_crossed_boundary),
            ("chain:short_read_by_chain", self.short_read),
            ("chain:seek_beyond_end", self.seek_beyond_end),
            ("chain:read_at_or_beyond_end", self.read_at_or_beyond_end),
            ("chain:backward_seek", self.backward_seek),
            ("chain:seek_into_later_volume", self.seek_into_later_volume),
        ] {
            if v > 0 {
                ctx.landmark_n(k, v);
            }
        }
        *self = ChainLm::default();
    }
}

struct Viol {
    clause: &'static str,
    disc: String,
    detail: String,
}

/// does the reference accept the whole sequence? (pure arithmetic; the real Cursor is still the reference
/// during execution and must agree, otherwise the harness aborts)
fn ref_valid(len: usize, ops: &[Op]) -> bool {
    let len = len as i128;
    let mut pos: i128 = 0;
    for op in ops {
        match *op {
            Op::Read(n) => {
                if pos < len {
                    pos = len.min(pos + n as i128);
                }
            }
            Op::ReadAll => {
                if pos < len {
                    pos = len;
                }
            }
            Op::Start(p) => pos = p as i128,
            Op::Cur(o) => {
                pos += o as i128;
                if pos < 0 {
                    return false;
                }
            }
            Op::End(o) => {
                pos = len + o as i128;
                if pos < 0 {
                    return false;
                }
            }
        }
    }
    true
}

#[inline]
fn mix(h: &mut u64, v: u64) {
    *h = (*h ^ v).wrapping_mul(0x100000001b3);
}

struct ChainRes {
    viol: Option<Viol>,
    outcome: u64,
    nontrivial: bool,
    transitions: u64,
}

/// execute one operation sequence on a fresh chain and on the reference in lockstep; first divergence ends it
fn exec_chain<RS: Read + Seek>(
    vols: Vec<RS>,
    concat: &[u8],
    bounds: &[usize], // absolute offsets where a new volume starts (0 < b < len), for landmarks only
    has_empty: bool,
    ops: &[Op],
    lm: &mut ChainLm,
) -> ChainRes {
    let len = concat.len();
    let mut h: u64 = 0xcbf29ce484222325;
    let mut nontrivial = false;
    let mut transitions = 0u64;
    let fin = |viol: Option<Viol>, mut h: u64, nontrivial: bool, transitions: u64| {
        if let Some(v) = &viol {
            mix(&mut h, fnv_str(v.clause) ^ fnv_str(&v.disc));
        }
        ChainRes { viol, outcome: h, nontrivial, transitions }
    };
    let mut chain = match catch(|| SeekableChain::new(vols)) {
        Ok(c) => c,
        Err(p) => {
            return fin(Some(Viol { clause: "panic", disc: p.loc, detail: format!("SeekableChain::new: {}", p.msg) }), h, false, 0)
        }
    };
    let l = HasLength::len(&chain);
    if l != len as u64 {
        return fin(
            Some(Viol { clause: "len", disc: String::new(), detail: format!("HasLength::len()={} but the volumes hold {} bytes", l, len) }),
            h,
            false,
            0,
        );
    }
    let mut reference = Cursor::new(concat);
    let mut rbuf = [0u8; 16];
    let mut ibuf = [0u8; 16];
    assert!(len + 2 <= 16);
    for (i, op) in ops.iter().enumerate() {
        transitions += 1;
        match *op {
            Op::Read(_) | Op::ReadAll => {
                let cap = match *op {
                    Op::Read(n) => n,
                    _ => len + 2,
                };
                let p0 = reference.position() as usize;
                // reference: read until cap or EOF
                let mut rgot = 0;
                while rgot < cap {
                    let k = reference.read(&mut rbuf[rgot..cap]).expect("reference read");
                    if k == 0 {
                        break;
                    }
                    rgot += k;
                }
                // implementation: read until cap or a zero return
                let mut got = 0;
                let mut zero_return = false;
                loop {
                    let asked = cap - got;
                    let r = catch(|| chain.read(&mut ibuf[got..cap]));
                    transitions += 1;
                    match r {
                        Err(p) => {
                            return fin(Some(Viol { clause: "panic", disc: p.loc, detail: format!("op {i} {}: {}", op.name(), p.msg) }), h, nontrivial, transitions)
                        }
                        Ok(Err(e)) => {
                            return fin(
                                Some(Viol { clause: "read_error", disc: format!("{:?}", e.kind()), detail: format!("op {i} {}: read failed: {e}", op.name()) }),
                                h,
                                nontrivial,
                                transitions,
                            )
                        }
                        Ok(Ok(k)) => {
                            if k > asked {
                                return fin(
                                    Some(Viol { clause: "read_overrun", disc: String::new(), detail: format!("op {i} {}: read returned {k} for a buffer of {asked}", op.name()) }),
                                    h,
                                    nontrivial,
                                    transitions,
                                );
                            }
                            if k == 0 {
                                zero_return = true;
                                break;
                            }
                            if k < asked && p0 + got + k < len {
                                lm.short_read += 1;
                            }
                            got += k;
                            if got >= cap {
                                break;
                            }
                        }
                    }
                }
                if cap > 0 && rgot == 0 {
                    lm.read_at_or_beyond_end += 1;
                }
                if bounds.iter().any(|b| p0 < *b && *b < p0 + rgot) {
                    lm.read_crossed_boundary += 1;
                    nontrivial = true;
                }
                mix(&mut h, 0x1000 + rgot as u64);
                mix(&mut h, fnv(&rbuf[..rgot]));
                if ibuf[..got] != rbuf[..rgot] {
                    let v = if got < rgot && ibuf[..got] == rbuf[..got] && zero_return {
                        Viol {
                            clause: "premature_eof",
                            disc: if has_empty { "empty_volume".into() } else { "no_empty_volume".into() },
                            detail: format!(
                                "op {i} {} at position {p0}: read returned 0 after {got} byte(s) although {} more byte(s) remain (reference delivers {:?})",
                                op.name(),
                                rgot - got,
                                &rbuf[..rgot]
                            ),
                        }
                    } else {
                        Viol {
                            clause: "read_content",
                            disc: if got > rgot { "more_than_reference".into() } else { "wrong_bytes".into() },
                            detail: format!("op {i} {} at position {p0}: chain delivered {:?}, reference {:?}", op.name(), &ibuf[..got], &rbuf[..rgot]),
                        }
                    };
                    return fin(Some(v), h, nontrivial, transitions);
                }
            }
            Op::Start(_) | Op::Cur(_) | Op::End(_) => {
                let sf = match *op {
                    Op::Start(p) => SeekFrom::Start(p),
                    Op::Cur(o) => SeekFrom::Current(o),
                    Op::End(o) => SeekFrom::End(o),
                    _ => unreachable!(),
                };
                let pre = reference.position();
                let r = reference.seek(sf).expect("reference seek (sequence was pre-validated)");
                if r > len as u64 {
                    lm.seek_beyond_end += 1;
                }
                if r < pre {
                    lm.backward_seek += 1;
                }
                if bounds.iter().any(|b| r as usize >= *b) && (r as usize) < len {
                    lm.seek_into_later_volume += 1;
                    nontrivial = true;
                }
                mix(&mut h, 0x2000 + r);
                let got = catch(|| chain.seek(sf));
                match got {
                    Err(p) => {
                        return fin(Some(Viol { clause: "panic", disc: p.loc, detail: format!("op {i} {}: {}", op.name(), p.msg) }), h, nontrivial, transitions)
                    }
                    Ok(Err(e)) => {
                        return fin(
                            Some(Viol { clause: "seek_error", disc: op.kind().into(), detail: format!("op {i} {}: seek failed ({e}) where the reference returns {r}", op.name()) }),
                            h,
                            nontrivial,
                            transitions,
                        )
                    }
                    Ok(Ok(v)) => {
                        if v != r {
                            // classify: where does the chain say it is now?
                            let probe = catch(|| chain.seek(SeekFrom::Current(0))).ok().and_then(|x| x.ok());
                            let disc = match probe {
                                Some(p) if p != v => {
                                    if matches!(*op, Op::End(o) if o > 0) {
                                        "seek_end_positive".to_string()
                                    } else {
                                        format!("reported_ne_actual:{}", op.kind())
                                    }
                                }
                                Some(_) if r > len as u64 && v == len as u64 => "beyond_end_clamped".to_string(),
                                _ => format!("other:{}", op.kind()),
                            };
                            return fin(
                                Some(Viol {
                                    clause: "seek_result",
                                    disc,
                                    detail: format!(
                                        "op {i} {} from position {pre} (stream length {len}): chain returned {v}, reference {r}; a following stream_position() on the chain says {:?}",
                                        op.name(),
                                        probe
                                    ),
                                }),
                                h,
                                nontrivial,
                                transitions,
                            );
                        }
                    }
                }
            }
        }
    }
    // final position
    let rp = reference.position();
    match catch(|| chain.stream_position()) {
        Err(p) => fin(Some(Viol { clause: "panic", disc: p.loc, detail: format!("final stream_position: {}", p.msg) }), h, nontrivial, transitions),
        Ok(Err(e)) => fin(Some(Viol { clause: "seek_error", disc: "stream_position".into(), detail: format!("final stream_position failed: {e}") }), h, nontrivial, transitions),
        Ok(Ok(ip)) => {
            mix(&mut h, 0x3000 + rp);
            if ip != rp {
                fin(
                    Some(Viol {
                        clause: "final_position",
                        disc: if rp > len as u64 { "beyond_end".into() } else { String::new() },
                        detail: format!("after the sequence the chain is at {ip}, the reference at {rp}"),
                    }),
                    h,
                    nontrivial,
                    transitions,
                )
            } else {
                fin(None, h, nontrivial, transitions)
            }
        }
    }
}

fn chain_case_json(kind: VolKind, vols: &[Vec<u8>], ops: &[Op]) -> Value {
    json!({"family": "chain", "volumes": kind.name(), "vols": vols.iter().map(|v| hex(v)).collect::<Vec<_>>(),
        "ops": ops.iter().map(|o| o.name()).collect::<Vec<_>>()})
}

struct FileVols {
    _dir: tempfile::TempDir,
    paths: Vec<PathBuf>,
}
fn make_file_vols(vols: &[Vec<u8>]) -> FileVols {
    let base = worker_base();
    let dir = tempfile::Builder::new().prefix("vol-").tempdir_in(&base).expect("tempdir");
    let mut paths = vec![];
    for (i, v) in vols.iter().enumerate() {
        let p = dir.path().join(format!("v.zip.{:03}", i + 1));
        std::fs::write(&p, v).expect("write volume");
        paths.push(p);
    }
    FileVols { _dir: dir, paths }
}

fn run_chain_case(ctx: &mut Ctx, lm: &mut ChainLm, kind: VolKind, vols: &[Vec<u8>], files: Option<&FileVols>, concat: &[u8], bounds: &[usize], ops: &[Op]) {
    let has_empty = vols.iter().any(|v| v.is_empty());
    if has_empty {
        lm.empty_volume_case += 1;
    }
    let res = match kind {
        VolKind::Mem => exec_chain(vols.iter().map(|v| Cursor::new(v.clone())).collect::<Vec<_>>(), concat, bounds, has_empty, ops, lm),
        VolKind::MemShort => exec_chain(vols.iter().map(|v| ShortCursor(Cursor::new(v.clone()))).collect::<Vec<_>>(), concat, bounds, has_empty, ops, lm),
        VolKind::File => {
            let tmp;
            let f = match files {
                Some(f) => f,
                None => {
                    tmp = make_file_vols(vols);
                    &tmp
                }
            };
            let handles: Vec<std::fs::File> = f.paths.iter().map(|p| std::fs::File::open(p).expect("open volume")).collect();
            exec_chain(handles, concat, bounds, has_empty, ops, lm)
        }
    };
    ctx.transitions(res.transitions);
    ctx.outcome(res.outcome);
    if let Some(v) = res.viol {
        ctx.violation(v.clause, &v.disc, || chain_case_json(kind, vols, ops), v.detail);
    }
    ctx.eval(res.nontrivial);
    ctx.sample(|| chain_case_json(kind, vols, ops));
}

/// all splits of 1..=total bytes [1,2,..,total] into exactly k volumes (empty ones allowed)
fn splits(total: usize, k: usize) -> Vec<Vec<Vec<u8>>> {
    fn rec(rem: usize, k: usize, cur: &mut Vec<usize>, out: &mut Vec<Vec<usize>>) {
        if k == 1 {
            cur.push(rem);
            out.push(cur.clone());
            cur.pop();
            return;
        }
        for a in 0..=rem {
            cur.push(a);
            rec(rem - a, k - 1, cur, out);
            cur.pop();
        }
    }
    let mut sizes = vec![];
    rec(total, k, &mut vec![], &mut sizes);
    sizes
        .into_iter()
        .map(|s| {
            let mut off = 0u8;
            s.iter()
                .map(|n| {
                    let v: Vec<u8> = (0..*n).map(|i| off + i as u8 + 1).collect();
                    off += *n as u8;
                    v
                })
                .collect()
        })
        .collect()
}

/// one (kind, max length, max volumes, depth) block; returns false when out of time
fn chain_family(ctx: &mut Ctx, kind: VolKind, lens: std::ops::RangeInclusive<usize>, maxvols: usize, depth: usize) -> bool {
    ctx.begin_family(
        &format!("chain_{}", kind.name()),
        &format!("depth={depth} len={}..={} volumes<=3(empty allowed) ops=read(0|1|2|all),Start(0..=len+1),Current(-2..=2),End(-(len+1)..=1)", lens.start(), lens.end()),
    );
    let mut lm = ChainLm::default();
    let mut ok = true;
    'outer: for total in lens {
        let alphabet = ops_for(total);
        for k in 1..=maxvols {
            for vols in splits(total, k) {
                let concat: Vec<u8> = vols.iter().flatten().copied().collect();
                let mut bounds = vec![];
                let mut acc = 0;
                for v in &vols[..vols.len() - 1] {
                    acc += v.len();
                    if acc > 0 && acc < total {
                        bounds.push(acc);
                    }
                }
                bounds.dedup();
                let mut files: Option<FileVols> = None;
                let mut ops = vec![Op::Read(0); depth];
                let done = enumr::sequences(depth, alphabet.len(), |ix| {
                    if ctx.mine() {
                        for (i, x) in ix.iter().enumerate() {
                            ops[i] = alphabet[*x];
                        }
                        if !ref_valid(total, &ops) {
                            lm.excluded_ref_error += 1;
                            return true;
                        }
                        if kind == VolKind::File && files.is_none() {
                            files = Some(make_file_vols(&vols));
                        }
                        run_chain_case(ctx, &mut lm, kind, &vols, files.as_ref(), &concat, &bounds, &ops);
                        if ctx.sum.evaluations % 8192 == 0 && ctx.out_of_time() {
                            return false;
                        }
                    }
                    true
                });
                if !done {
                    ok = false;
                    break 'outer;
                }
            }
        }
    }
    lm.flush(ctx);
    ctx.end_family(ok);
    ok
}

// =====================================================================================================
// Part B: zip extraction
// =====================================================================================================

fn crc32(data: &[u8]) -> u32 {
    let mut crc = 0xffff_ffffu32;
    for b in data {
        crc ^= *b as u32;
        for _ in 0..8 {
            crc = if crc & 1 != 0 { (crc >> 1) ^ 0xedb8_8320 } else { crc >> 1 };
        }
    }
    !crc
}

/// minimal zip writer: stored entries, central directory, end-of-central-directory record.
/// Names are written verbatim (no sanitising); directory entries are names ending in '/'.
pub fn write_zip(members: &[(String, Vec<u8>)]) -> Vec<u8> {
    let mut out: Vec<u8> = vec![];
    let mut central: Vec<u8> = vec![];
    let p16 = |v: &mut Vec<u8>, x: u16| v.extend_from_slice(&x.to_le_bytes());
    let p32 = |v: &mut Vec<u8>, x: u32| v.extend_from_slice(&x.to_le_bytes());
    for (name, data) in members {
        let is_dir = name.ends_with('/');
        let crc = crc32(data);
        let offset = out.len() as u32;
        // local file header
        p32(&mut out, 0x0403_4b50);
        p16(&mut out, 20); // version needed
        p16(&mut out, 0x0800); // flags: UTF-8 names
        p16(&mut out, 0); // stored
        p16(&mut out, 0x6000); // time 12:00:00
        p16(&mut out, 0x5821); // date 2024-01-01
        p32(&mut out, crc);
        p32(&mut out, data.len() as u32);
        p32(&mut out, data.len() as u32);
        p16(&mut out, name.len() as u16);
        p16(&mut out, 0);
        out.extend_from_slice(name.as_bytes());
        out.extend_from_slice(data);
        // central directory header
        p32(&mut central, 0x0201_4b50);
        p16(&mut central, 20); // made by: DOS, 2.0
        p16(&mut central, 20);
        p16(&mut central, 0x0800);
        p16(&mut central, 0);
        p16(&mut central, 0x6000);
        p16(&mut central, 0x5821);
        p32(&mut central, crc);
        p32(&mut central, data.len() as u32);
        p32(&mut central, data.len() as u32);
        p16(&mut central, name.len() as u16);
        p16(&mut central, 0); // extra
        p16(&mut central, 0); // comment
        p16(&mut central, 0); // disk
        p16(&mut central, 0); // internal attrs
        p32(&mut central, if is_dir { 0x10 } else { 0 }); // external attrs (DOS dir bit)
        p32(&mut central, offset);
        central.extend_from_slice(name.as_bytes());
    }
    let cd_off = out.len() as u32;
    out.extend_from_slice(&central);
    p32(&mut out, 0x0605_4b50);
    p16(&mut out, 0);
    p16(&mut out, 0);
    p16(&mut out, members.len() as u16);
    p16(&mut out, members.len() as u16);
    p32(&mut out, central.len() as u32);
    p32(&mut out, cd_off);
    p16(&mut out, 0);
    out
}

/// lexical normalisation of a member name relative to the extraction root:
/// Some(relative path) if the name stays inside, None if it is absolute or climbs out at any point
pub fn norm_inside(name: &str) -> Option<String> {
    if name.starts_with('/') || name.contains('\0') {
        return None;
    }
    let mut stack: Vec<&str> = vec![];
    for c in name.split('/') {
        match c {
            "" | "." => {}
            ".." => {
                stack.pop()?;
            }
            c => stack.push(c),
        }
    }
    Some(stack.join("/"))
}

const ABS_PLACEHOLDER: &str = "<SANDBOX>";

#[derive(Clone, Debug, PartialEq, Eq)]
pub struct MSpec {
    pub id: usize,
    pub name: String,
    pub size: usize,
}
impl MSpec {
    fn is_dir(&self) -> bool {
        self.name.ends_with('/')
    }
    fn content(&self) -> Vec<u8> {
        (0..self.size).map(|i| (self.id * 31 + i * 7 + 1) as u8).collect()
    }
}

/// member alphabet: ordinary, nested, hostile (parent, absolute, climb after descent, two levels up),
/// aliasing (d/../y, ./s), duplicate name, empty member, directory entries (ordinary and hostile), one large member
pub fn member_alphabet() -> Vec<MSpec> {
    let m = |id: usize, name: &str, size: usize| MSpec { id, name: name.to_string(), size };
    vec![
        m(0, "a.dlt", 3),
        m(1, "d/b.dlt", 5),
        m(2, "d/e/c.log", 300),
        m(3, "../x.dlt", 7),
        m(4, &format!("{ABS_PLACEHOLDER}/abs.dlt"), 9),
        m(5, "d/../y.dlt", 11),
        m(6, "a.dlt", 13), // duplicate name, other content
        m(7, "z.dlt", 0),  // empty member
        m(8, "e/", 0),     // directory entry
        m(9, "d/../../w.dlt", 17),
        m(10, "../../v.dlt", 19),
        m(11, "./s.dlt", 23),
        m(12, "../q/", 0), // hostile directory entry
        m(13, "big.dlt", 70_000),
        // other spellings of earlier members, written later and shorter: the later one must replace the earlier
        // file completely (or be skipped), never be spliced into it
        m(14, "d//b.dlt", 2),
        m(15, "./a.dlt", 1),
        // a name that is itself a well-formed glob (a character class) next to the name that glob matches
        m(16, "d/log[1].dlt", 4),
        m(17, "d/log1.dlt", 6),
    ]
}

pub fn pattern_alphabet() -> Vec<Option<&'static str>> {
    vec![None, Some("**/*"), Some("*.dlt"), Some("d/*"), Some("d/b.dlt"), Some("nomatch*"), Some("../x.dlt"), Some("[a-d]*.dlt"), Some("d/log[1].dlt")]
}

#[derive(Clone, Copy, PartialEq, Eq, Debug)]
pub enum Mode {
    Archives,
    ArchivesMultiVol,
    ToDirAll,
    ToDirFilter,
    ArchivesTwice,
}
impl Mode {
    fn name(&self) -> &'static str {
        match self {
            Mode::Archives => "extract_archives",
            Mode::ArchivesMultiVol => "extract_archives_multivolume",
            Mode::ToDirAll => "extract_to_dir_all",
            Mode::ToDirFilter => "extract_to_dir_filter",
            Mode::ArchivesTwice => "extract_archives_twice_same_tempdir",
        }
    }
    fn parse(s: &str) -> Option<Mode> {
        Some(match s {
            "extract_archives" => Mode::Archives,
            "extract_archives_multivolume" => Mode::ArchivesMultiVol,
            "extract_to_dir_all" => Mode::ToDirAll,
            "extract_to_dir_filter" => Mode::ToDirFilter,
            "extract_archives_twice_same_tempdir" => Mode::ArchivesTwice,
            _ => return None,
        })
    }
}

#[derive(Clone, Debug)]
pub struct ZipCase {
    pub family: String,
    pub mode: Mode,
    pub members: Vec<MSpec>,
    pub pattern: Option<String>,
    /// second call (ArchivesTwice)
    pub pattern2: Option<String>,
    /// foreign files pre-exist at the places the escaping names point to
    pub pre: bool,
    /// cut offsets for multi-volume (sorted; equal neighbours / 0 / len give empty volumes)
    pub cuts: Vec<usize>,
}
impl ZipCase {
    fn json(&self) -> Value {
        json!({"family": self.family, "mode": self.mode.name(),
            "members": self.members.iter().map(|m| json!({"id": m.id, "name": m.name, "size": m.size})).collect::<Vec<_>>(),
            "pattern": self.pattern, "pattern2": self.pattern2, "preexisting_foreign_files": self.pre, "cuts": self.cuts})
    }
    fn from_json(v: &Value) -> Option<ZipCase> {
        Some(ZipCase {
            family: v["family"].as_str()?.to_string(),
            mode: Mode::parse(v["mode"].as_str()?)?,
            members: v["members"]
                .as_array()?
                .iter()
                .map(|m| MSpec { id: m["id"].as_u64().unwrap_or(0) as usize, name: m["name"].as_str().unwrap_or("").to_string(), size: m["size"].as_u64().unwrap_or(0) as usize })
                .collect(),
            pattern: v["pattern"].as_str().map(|s| s.to_string()),
            pattern2: v["pattern2"].as_str().map(|s| s.to_string()),
            pre: v["preexisting_foreign_files"].as_bool().unwrap_or(false),
            cuts: v["cuts"].as_array().map(|a| a.iter().map(|x| x.as_u64().unwrap_or(0) as usize).collect()).unwrap_or_default(),
        })
    }
}

/// instrumented archive source for extract_to_dir.
///
/// `CloneableSeekableReader` (pub(crate), so only reachable through extract_to_dir) seeks its source before a read
/// only when the requested offset differs from its cached source position. On the tree as found that cached
/// position is never set by a seek, it is just the number of bytes read so far. A read that reaches the source
/// without a preceding seek while the source is NOT at "bytes read so far" is then a read served from the wrong
/// place ("stale cached position"). This is a white-box reading aid for the evidence (and a discriminator suffix);
/// the verdict always comes from the extraction oracle. Whether the model applies to the code under test is
/// calibrated once per process (`stale_model_applies`): an implementation that tracks the true position never
/// issues a seek to the place where the source already is, the one described above does so all the time.
#[derive(Default, Debug, Clone)]
struct InstrStats {
    reads: u64,
    seeks: u64,
    redundant_seeks: u64,
    reads_without_seek: u64,
    stale_position_reads: u64,
}
struct Instr {
    cur: Cursor<Vec<u8>>,
    st: Rc<RefCell<InstrStats>>,
    seeked: bool,
    total_read: u64,
}
impl Instr {
    fn new(bytes: Vec<u8>) -> (Instr, Rc<RefCell<InstrStats>>) {
        let st = Rc::new(RefCell::new(InstrStats::default()));
        (Instr { cur: Cursor::new(bytes), st: st.clone(), seeked: false, total_read: 0 }, st)
    }
}
impl Read for Instr {
    fn read(&mut self, buf: &mut [u8]) -> std::io::Result<usize> {
        let mut st = self.st.borrow_mut();
        st.reads += 1;
        if !self.seeked {
            st.reads_without_seek += 1;
            if self.total_read != self.cur.position() && !buf.is_empty() {
                st.stale_position_reads += 1;
            }
        }
        let seeked = self.seeked;
        self.seeked = false;
        let at = self.cur.position();
        let n = self.cur.read(buf)?;
        if std::env::var_os("MC_C20_TRACE").is_some() {
            println!("    source: read(buf {}) at {} -> {} bytes; seek before: {}; bytes read so far: {}", buf.len(), at, n, seeked, self.total_read);
        }
        self.total_read += n as u64;
        Ok(n)
    }
}
impl Seek for Instr {
    fn seek(&mut self, pos: SeekFrom) -> std::io::Result<u64> {
        let mut st = self.st.borrow_mut();
        st.seeks += 1;
        if matches!(pos, SeekFrom::Start(x) if x == self.cur.position()) {
            st.redundant_seeks += 1;
        }
        self.seeked = true;
        self.cur.seek(pos)
    }
}
thread_local! {
    static STALE_MODEL: std::cell::Cell<Option<bool>> = const { std::cell::Cell::new(None) };
}
/// calibration: extract a small three-member archive; redundant seeks => cached position != true position
fn stale_model_applies() -> bool {
    if let Some(b) = STALE_MODEL.with(|c| c.get()) {
        return b;
    }
    let ms: Vec<(String, Vec<u8>)> = vec![("a".into(), vec![1; 3]), ("b".into(), vec![2; 5]), ("c".into(), vec![3; 7])];
    let (src, st) = Instr::new(write_zip(&ms));
    let dir = tempfile::Builder::new().prefix("calib-").tempdir_in(worker_base()).expect("tempdir");
    let cancel = Arc::new(AtomicBool::new(false));
    let _ = catch(|| extract_to_dir(src, dir.path(), None, &HashMap::new(), &cancel));
    let b = st.borrow().redundant_seeks > 0;
    STALE_MODEL.with(|c| c.set(Some(b)));
    b
}
impl HasLength for Instr {
    fn len(&self) -> u64 {
        self.cur.get_ref().len() as u64
    }
}

#[derive(Clone, PartialEq, Eq, Debug)]
enum Entry {
    Dir,
    File(u64, u64), // len, hash
    Other,
}
type Snap = BTreeMap<PathBuf, Entry>;
fn snapshot(root: &Path) -> Snap {
    fn walk(p: &Path, out: &mut Snap) {
        let rd = match std::fs::read_dir(p) {
            Ok(r) => r,
            Err(_) => return,
        };
        for e in rd.flatten() {
            let path = e.path();
            let md = match std::fs::symlink_metadata(&path) {
                Ok(m) => m,
                Err(_) => continue,
            };
            if md.file_type().is_symlink() {
                out.insert(path, Entry::Other);
            } else if md.is_dir() {
                out.insert(path.clone(), Entry::Dir);
                walk(&path, out);
            } else if md.is_file() {
                let data = std::fs::read(&path).unwrap_or_default();
                out.insert(path, Entry::File(data.len() as u64, fnv(&data)));
            } else {
                out.insert(path, Entry::Other);
            }
        }
    }
    let mut s = Snap::new();
    walk(root, &mut s);
    s
}

static ARCH_COUNTER: std::sync::atomic::AtomicU64 = std::sync::atomic::AtomicU64::new(0);

/// where the sandboxes live: $MC_C20_TMP, else /dev/shm if usable (16 workers creating/removing thousands of small
/// files serialise on a journalling file system: measured 3x slower on ext4 /tmp), else the system temp dir
fn pick_base() -> PathBuf {
    if let Ok(p) = std::env::var("MC_C20_TMP") {
        return PathBuf::from(p);
    }
    let shm = Path::new("/dev/shm");
    if shm.is_dir() && tempfile::tempdir_in(shm).is_ok() {
        return shm.to_path_buf();
    }
    ORIG_TMP.with(|p| p.clone())
}

thread_local! {
    /// TMPDIR as it was before the harness redirected it into its sandboxes
    static ORIG_TMP: PathBuf = std::env::temp_dir();
    /// one base directory per worker process; all sandboxes of this worker live below it
    static WORKER_BASE: RefCell<Option<tempfile::TempDir>> = const { RefCell::new(None) };
}
fn worker_base() -> PathBuf {
    WORKER_BASE.with(|b| {
        let mut b = b.borrow_mut();
        if b.is_none() {
            *b = Some(tempfile::Builder::new().prefix("c20-worker-").tempdir_in(pick_base()).expect("worker base dir"));
        }
        b.as_ref().unwrap().path().to_path_buf()
    })
}
fn cleanup_worker_base() {
    WORKER_BASE.with(|b| drop(b.borrow_mut().take()));
}

struct CallResult {
    /// reported paths (absolute)
    reported: Vec<PathBuf>,
    /// the designated temporary directory (None: none was created/kept)
    target: Option<PathBuf>,
}

#[derive(Default)]
struct ZipLm(BTreeMap<&'static str, u64>);
impl ZipLm {
    fn hit(&mut self, k: &'static str) {
        *self.0.entry(k).or_default() += 1;
    }
    fn flush(&mut self, ctx: &mut Ctx) {
        for (k, v) in std::mem::take(&mut self.0) {
            ctx.landmark_n(k, v);
        }
    }
}

fn glob_matches(pattern: &Option<String>, name: &str) -> bool {
    let p = pattern.as_deref().unwrap_or("**/*");
    if name == p {
        return true;
    }
    match glob::Pattern::new(p) {
        Ok(g) => g.matches(name),
        Err(_) => glob::Pattern::new(&glob::Pattern::escape(p)).map(|g| g.matches(name)).unwrap_or(false),
    }
}

/// judge one extraction call. `in_target_before`: files (relative) legitimately present in the target before the call.
#[allow(clippy::too_many_arguments)]
fn judge_extract(
    lm: &mut ZipLm,
    members: &[(MSpec, String, Vec<u8>)], // spec, effective name, content
    pattern: &Option<String>,
    s0: &Snap,
    s1: &Snap,
    res: &CallResult,
    spec_str: &str,
    in_target_before: &BTreeSet<String>,
    ctx_disc: &str,
) -> (Option<Viol>, u64, bool, BTreeSet<String>) {
    // expectation
    let mut expected: BTreeSet<String> = BTreeSet::new();
    let mut inside_files: BTreeSet<String> = BTreeSet::new();
    let mut hostile_selected = false;
    for (m, name, _) in members {
        if m.is_dir() {
            continue;
        }
        let n = norm_inside(name);
        if let Some(n) = &n {
            inside_files.insert(n.clone());
        }
        if glob_matches(pattern, name) {
            match n {
                Some(n) => {
                    expected.insert(n);
                }
                None => hostile_selected = true,
            }
        }
    }
    let mut h: u64 = 0xcbf29ce484222325;
    let tcanon = res.target.as_ref().and_then(|t| std::fs::canonicalize(t).ok());
    let under_t = |p: &Path| tcanon.as_ref().is_some_and(|t| p.starts_with(t));
    let mut viol: Option<Viol> = None;
    let mut set_viol = |v: Viol| {
        if viol.is_none() {
            viol = Some(v);
        }
    };
    // (1) confinement: nothing outside the designated directory is created, changed or removed
    for (p, e) in s1 {
        if under_t(p) {
            continue;
        }
        match s0.get(p) {
            None => set_viol(Viol { clause: "confinement", disc: "created_outside".into(), detail: format!("{} was created outside the designated directory {:?}", p.display(), tcanon) }),
            Some(e0) if e0 != e => set_viol(Viol { clause: "confinement", disc: "modified_outside".into(), detail: format!("{} outside the designated directory {:?} was modified", p.display(), tcanon) }),
            _ => {}
        }
    }
    for p in s0.keys() {
        if !under_t(p) && !s1.contains_key(p) {
            set_viol(Viol { clause: "confinement", disc: "removed_outside".into(), detail: format!("{} outside the designated directory was removed", p.display()) });
        }
    }
    // (2) every reported path resolves inside the directory and holds the member's bytes
    let mut reported_rel: BTreeSet<String> = BTreeSet::new();
    for r in &res.reported {
        let c = match std::fs::canonicalize(r) {
            Ok(c) => c,
            Err(e) => {
                set_viol(Viol {
                    clause: "reported_missing",
                    disc: if r.to_string_lossy() == spec_str { "input_returned".into() } else { String::new() },
                    detail: format!("reported path {} does not resolve: {e}", r.display()),
                });
                continue;
            }
        };
        if !under_t(&c) {
            let disc = if r.to_string_lossy() == spec_str {
                "input_returned"
            } else if s0.contains_key(&c) {
                "preexisting_foreign_file"
            } else {
                "other"
            };
            set_viol(Viol {
                clause: "reported_outside",
                disc: disc.into(),
                detail: format!("reported path {} resolves to {} which is not inside the designated directory {:?}", r.display(), c.display(), tcanon),
            });
            continue;
        }
        let rel = c.strip_prefix(tcanon.as_ref().unwrap()).unwrap().to_string_lossy().to_string();
        let bytes = std::fs::read(&c).unwrap_or_default();
        let cands: Vec<&(MSpec, String, Vec<u8>)> = members.iter().filter(|(m, n, _)| !m.is_dir() && norm_inside(n).as_deref() == Some(rel.as_str())).collect();
        if cands.is_empty() {
            set_viol(Viol { clause: "content", disc: "no_such_member".into(), detail: format!("reported file {rel} corresponds to no archive member") });
        } else if !cands.iter().any(|(_, _, d)| *d == bytes) {
            set_viol(Viol {
                clause: "content",
                disc: "differs_from_member".into(),
                detail: format!("reported file {rel} holds {} bytes (hash {:x}) which equal none of the {} member(s) of that name", bytes.len(), fnv(&bytes), cands.len()),
            });
        }
        if cands.len() > 1 {
            lm.hit("zip:duplicate_or_alias_member_reported");
        }
        if bytes.is_empty() {
            lm.hit("zip:empty_member_extracted");
        }
        if bytes.len() > 65536 {
            lm.hit("zip:member_larger_than_copy_buffer_extracted");
        }
        if rel.contains('/') {
            lm.hit("zip:nested_member_extracted");
        }
        reported_rel.insert(rel);
    }
    // (3) reported set == members matching the pattern that stay inside
    if reported_rel != expected {
        let missing: Vec<&String> = expected.difference(&reported_rel).collect();
        let extra: Vec<&String> = reported_rel.difference(&expected).collect();
        let kind = match (missing.is_empty(), extra.is_empty()) {
            (false, true) => "missing",
            (true, false) => "extra",
            _ => "missing_and_extra",
        };
        set_viol(Viol {
            clause: "reported_set",
            disc: format!("{kind}{ctx_disc}"),
            detail: format!("pattern {:?}: reported {:?}, expected {:?} (missing {:?}, extra {:?})", pattern, reported_rel, expected, missing, extra),
        });
    }
    // (4) files present in the designated directory == expected (plus what was legitimately there before)
    let mut present: BTreeSet<String> = BTreeSet::new();
    if let Some(t) = &tcanon {
        for (p, e) in s1 {
            if let (true, Entry::File(..)) = (p.starts_with(t) && p != t, e) {
                present.insert(p.strip_prefix(t).unwrap().to_string_lossy().to_string());
            }
        }
    }
    let want: BTreeSet<String> = expected.union(in_target_before).cloned().collect();
    if present != want {
        let missing: Vec<&String> = want.difference(&present).collect();
        let extra: Vec<&String> = present.difference(&want).collect();
        let kind = match (missing.is_empty(), extra.is_empty()) {
            (false, true) => "missing",
            (true, false) => "extra",
            _ => "missing_and_extra",
        };
        set_viol(Viol {
            clause: "extracted_set",
            disc: format!("{kind}{ctx_disc}"),
            detail: format!("pattern {:?}: files in the designated directory {:?}, expected {:?}", pattern, present, want),
        });
    }
    // landmarks / outcome
    if !expected.is_empty() {
        lm.hit("zip:files_extracted");
    }
    if expected.is_empty() {
        lm.hit("zip:nothing_selected");
    }
    if hostile_selected {
        lm.hit("zip:escaping_member_selected_by_pattern");
    }
    let strict_subset = !expected.is_empty() && expected.len() < inside_files.len();
    if strict_subset {
        lm.hit("zip:pattern_selects_strict_subset");
    }
    for r in &reported_rel {
        mix(&mut h, fnv_str(r));
    }
    mix(&mut h, 0x77);
    for r in &present {
        mix(&mut h, fnv_str(r));
    }
    if let Some(v) = &viol {
        mix(&mut h, fnv_str(v.clause) ^ fnv_str(&v.disc));
    }
    let nontrivial = !expected.is_empty() && (hostile_selected || strict_subset || !ctx_disc.is_empty());
    (viol, h, nontrivial, present)
}

fn run_zip_case(ctx: &mut Ctx, lm: &mut ZipLm, case: &ZipCase) {
    let orig_tmp = ORIG_TMP.with(|p| p.clone());
    let base = worker_base();
    let sb = tempfile::Builder::new().prefix("sb-").tempdir_in(&base).expect("sandbox");
    let root = std::fs::canonicalize(sb.path()).expect("canonical sandbox");
    let tmp = root.join("tmp");
    let archd = root.join("arch");
    std::fs::create_dir_all(&tmp).unwrap();
    std::fs::create_dir_all(&archd).unwrap();
    let root_s = root.to_string_lossy().to_string();
    // effective members
    let members: Vec<(MSpec, String, Vec<u8>)> = case.members.iter().map(|m| (m.clone(), m.name.replace(ABS_PLACEHOLDER, &root_s), m.content())).collect();
    let zip_bytes = write_zip(&members.iter().map(|(_, n, d)| (n.clone(), d.clone())).collect::<Vec<_>>());
    // the designated dir of extract_to_dir modes; extract_archives creates its own below `tmp`
    let fixed_target = tmp.join("T");
    // foreign files at the places the escaping names point to (relative to <root>/tmp/<target>)
    let mut foreign = 0;
    if case.pre {
        for (m, name, _) in &members {
            if norm_inside(name).is_some() {
                continue;
            }
            let dest: Option<PathBuf> = if name.starts_with('/') {
                Some(PathBuf::from(name))
            } else {
                let mut stack: Vec<&str> = vec!["tmp", "T"];
                let mut ok = true;
                for c in name.split('/') {
                    match c {
                        "" | "." => {}
                        ".." => {
                            if stack.pop().is_none() {
                                ok = false;
                                break;
                            }
                        }
                        c => stack.push(c),
                    }
                }
                if ok && !stack.is_empty() && !(stack.len() >= 2 && stack[0] == "tmp" && stack[1] == "T") {
                    Some(stack.iter().fold(root.clone(), |p, c| p.join(c)))
                } else {
                    None
                }
            };
            if let Some(d) = dest {
                if d.starts_with(&root) {
                    if m.is_dir() {
                        std::fs::create_dir_all(&d).unwrap();
                    } else {
                        std::fs::create_dir_all(d.parent().unwrap()).unwrap();
                        std::fs::write(&d, format!("FOREIGN:{name}")).unwrap();
                    }
                    foreign += 1;
                }
            }
        }
    }
    if foreign > 0 {
        lm.hit("zip:foreign_file_preexists_at_escaping_name");
    }
    if members.iter().any(|(m, n, _)| !m.is_dir() && norm_inside(n).is_none()) {
        lm.hit("zip:archive_with_escaping_member");
    }
    // archive file(s)
    let n = ARCH_COUNTER.fetch_add(1, std::sync::atomic::Ordering::Relaxed);
    let multivol = case.mode == Mode::ArchivesMultiVol;
    let mut ctx_disc = String::new();
    let arch_path = if multivol {
        let mut cuts = case.cuts.clone();
        cuts.retain(|c| *c <= zip_bytes.len());
        cuts.sort();
        let mut start = 0;
        let mut vols: Vec<&[u8]> = vec![];
        for c in &cuts {
            vols.push(&zip_bytes[start..*c]);
            start = *c;
        }
        vols.push(&zip_bytes[start..]);
        for (i, v) in vols.iter().enumerate() {
            std::fs::write(archd.join(format!("a{n}.zip.{:03}", i + 1)), v).unwrap();
        }
        // neighbours in the same directory that are parts of *other* archives (names that share a beginning or an
        // end with this archive's parts): they must not become volumes of this archive
        let foreign = write_zip(&[("foreign.dlt".to_string(), b"FOREIGN".to_vec())]);
        for name in [format!("a{n}.zip.bak.zip.001"), format!("a{n}x.zip.001"), format!("xa{n}.zip.001"), format!("a{n}.zip.001.zip.002")] {
            std::fs::write(archd.join(name), &foreign).unwrap();
        }
        lm.hit("zip:multi_volume_with_foreign_neighbours");
        lm.hit("zip:multi_volume_archive");
        if vols.iter().any(|v| v.is_empty()) {
            lm.hit("zip:multi_volume_with_empty_volume");
            ctx_disc = "|empty_volume".into();
        } else {
            ctx_disc = "|multi_volume".into();
        }
        archd.join(format!("a{n}.zip.001"))
    } else {
        let p = archd.join(format!("a{n}.zip"));
        if matches!(case.mode, Mode::Archives | Mode::ArchivesTwice) {
            std::fs::write(&p, &zip_bytes).unwrap();
        }
        p
    };
    let mk_spec = |pat: &Option<String>| match pat {
        None => arch_path.to_string_lossy().to_string(),
        Some(p) => format!("{}!/{}", arch_path.to_string_lossy(), p),
    };
    let cancel = Arc::new(AtomicBool::new(false));
    let log = slog::Logger::root(slog::Discard, slog::o!());
    std::env::set_var("TMPDIR", &tmp);

    let mut verdicts: Vec<(Option<Viol>, u64, bool)> = vec![];
    let mut transitions = 0u64;
    match case.mode {
        Mode::Archives | Mode::ArchivesMultiVol | Mode::ArchivesTwice => {
            let mut temp_dirs: Vec<(String, tempfile::TempDir)> = vec![];
            let pats: Vec<Option<String>> = if case.mode == Mode::ArchivesTwice { vec![case.pattern.clone(), case.pattern2.clone()] } else { vec![case.pattern.clone()] };
            let mut before: BTreeSet<String> = BTreeSet::new();
            for (call, pat) in pats.iter().enumerate() {
                let spec = mk_spec(pat);
                let s0 = snapshot(&root);
                let r = catch(|| extract_archives(spec.clone(), &mut temp_dirs, &cancel, &log));
                transitions += 1;
                let s1 = snapshot(&root);
                match r {
                    Err(p) => {
                        verdicts.push((Some(Viol { clause: "panic", disc: p.loc, detail: format!("extract_archives({spec}): {}", p.msg) }), 1, true));
                        break;
                    }
                    Ok(list) => {
                        let res = CallResult { reported: list.iter().map(PathBuf::from).collect(), target: temp_dirs.last().map(|(_, d)| d.path().to_path_buf()) };
                        if call == 1 && temp_dirs.len() == 1 {
                            lm.hit("zip:temp_dir_reused_by_second_call");
                        }
                        if temp_dirs.len() > 1 {
                            verdicts.push((
                                Some(Viol { clause: "temp_dir_reuse", disc: String::new(), detail: format!("second extraction of the same archive created a second temp dir ({} dirs)", temp_dirs.len()) }),
                                2,
                                true,
                            ));
                            break;
                        }
                        let (mut v, h, nt, present) = judge_extract(lm, &members, pat, &s0, &s1, &res, &spec, &before, &ctx_disc);
                        before = present;
                        if let Some(viol) = &mut v {
                            // classification aid only (the verdict stands): does opening the same bytes through the
                            // instrumented source serve a read at a stale cached position?
                            if viol.clause == "reported_set" || viol.clause == "extracted_set" || viol.disc == "input_returned" {
                                let (src, st) = Instr::new(zip_bytes.clone());
                                let scratch = root.join("diag");
                                std::fs::create_dir_all(&scratch).unwrap();
                                let names: Vec<String> = members.iter().filter(|(m, n, _)| !m.is_dir() && glob_matches(pat, n)).map(|(_, n, _)| n.clone()).collect();
                                let _ = catch(|| extract_to_dir(src, &scratch, Some(names), &HashMap::new(), &cancel));
                                if stale_model_applies() && st.borrow().stale_position_reads > 0 && !viol.disc.contains("stale_position") {
                                    viol.disc.push_str("|stale_position");
                                }
                            }
                        }
                        let stop = v.is_some();
                        verdicts.push((v, h, nt));
                        if stop {
                            break;
                        }
                    }
                }
            }
            drop(temp_dirs);
        }
        Mode::ToDirAll | Mode::ToDirFilter => {
            std::fs::create_dir_all(&fixed_target).unwrap();
            let (src, st) = Instr::new(zip_bytes.clone());
            let (filter, pat): (Option<Vec<String>>, Option<String>) = if case.mode == Mode::ToDirAll {
                (None, None)
            } else {
                // what a caller passes: the raw names of the members (not directories) that match the pattern
                let mut f: Vec<String> = vec![];
                for (m, name, _) in &members {
                    if !m.is_dir() && glob_matches(&case.pattern, name) && !f.contains(name) {
                        f.push(name.clone());
                    }
                }
                (Some(f), case.pattern.clone())
            };
            let s0 = snapshot(&root);
            let r = catch(|| extract_to_dir(src, &fixed_target, filter.clone(), &HashMap::new(), &cancel));
            transitions += 1;
            let s1 = snapshot(&root);
            let stats = st.borrow().clone();
            if !stale_model_applies() {
                lm.hit("zip:stale_position_model_not_applicable(source_wrapper_tracks_true_position)");
            } else if stats.stale_position_reads > 0 {
                lm.0.entry("zip:source_read_at_stale_cached_position").and_modify(|x| *x += stats.stale_position_reads).or_insert(stats.stale_position_reads);
                ctx_disc = "|stale_position".into();
            }
            if stats.reads_without_seek > 0 {
                lm.hit("zip:source_read_without_seek");
            }
            lm.0.entry("zip:source_reads").and_modify(|x| *x += stats.reads).or_insert(stats.reads);
            match r {
                Err(p) => verdicts.push((Some(Viol { clause: "panic", disc: p.loc, detail: format!("extract_to_dir: {}", p.msg) }), 1, true)),
                Ok(Err(e)) => verdicts.push((
                    Some(Viol { clause: "extract_error", disc: format!("{:?}{}", e.kind(), ctx_disc), detail: format!("extract_to_dir(filter {:?}) failed on a well-formed archive: {e}", filter) }),
                    3,
                    true,
                )),
                Ok(Ok(list)) => {
                    let res = CallResult { reported: list.iter().map(|p| fixed_target.join(p)).collect(), target: Some(fixed_target.clone()) };
                    let (v, h, nt, _) = judge_extract(lm, &members, &pat, &s0, &s1, &res, "", &BTreeSet::new(), &ctx_disc);
                    verdicts.push((v, h, nt));
                }
            }
        }
    }
    std::env::set_var("TMPDIR", &orig_tmp);
    ctx.transitions(transitions);
    let mut h = 0xcbf29ce484222325u64;
    let mut nt = false;
    for (v, vh, n) in verdicts {
        mix(&mut h, vh);
        nt |= n;
        if let Some(v) = v {
            ctx.violation(v.clause, &v.disc, || case.json(), v.detail);
        }
    }
    ctx.outcome(h);
    ctx.eval(nt);
    ctx.sample(|| case.json());
    drop(sb);
}

/// all subsets of the member alphabet (first `n_alpha` entries) with at most `max` members, in alphabet order
fn member_subsets(n_alpha: usize, max: usize) -> Vec<Vec<MSpec>> {
    let alpha = member_alphabet();
    let mut out = vec![];
    enumr::subsets(n_alpha, |m| {
        if (m.count_ones() as usize) <= max {
            out.push((0..n_alpha).filter(|i| m & (1 << i) != 0).map(|i| alpha[i].clone()).collect::<Vec<_>>());
        }
        true
    });
    out.sort_by_key(|s: &Vec<MSpec>| s.len());
    out
}

fn zip_len(members: &[MSpec]) -> usize {
    write_zip(&members.iter().map(|m| (m.name.clone(), m.content())).collect::<Vec<_>>()).len()
}

pub struct C20Prop;

impl C20Prop {
    fn zip_block(&self, ctx: &mut Ctx, lm: &mut ZipLm, name: &str, bound: &str, cases: &mut dyn FnMut(&mut dyn FnMut(ZipCase) -> bool) -> bool) -> bool {
        ctx.begin_family(name, bound);
        let mut f = |c: ZipCase| -> bool {
            if ctx.mine() {
                run_zip_case(ctx, lm, &c);
                if ctx.sum.evaluations % 64 == 0 && ctx.out_of_time() {
                    return false;
                }
            }
            true
        };
        let done = cases(&mut f);
        lm.flush(ctx);
        ctx.end_family(done);
        done
    }
}

impl Prop for C20Prop {
    fn meta(&self, _tier: Tier) -> Meta {
        Meta {
            id: "C20",
            level: "model_checking",
            rule: "(A) stateless exhaustive exploration of read/seek operation sequences on adlt::utils::seekablechain::SeekableChain against std::io::Cursor over the concatenated volumes: every split of the byte string 1..=L into <= 3 volumes (empty ones included) x every operation sequence up to the depth given per family over read(0|1|2|all), Start(0..=L+1), Current(-2..=2), End(-(L+1)..=1); sequences on which the reference itself errors (seek before 0) are counted and excluded. Reads are compared by a read-until-n-or-zero loop (short reads are fine, a zero return while data remains is a premature EOF), seeks by the returned position, plus the final stream_position. Volumes: in-memory cursors, cursors delivering 1 byte per read, real files. (B) zip archives written by the harness byte by byte (stored entries, own central directory): all subsets (bounded size) of a member alphabet with ordinary, nested, parent-escaping, absolute, aliasing, duplicate, empty, directory and > 64 KiB members x glob patterns x with/without foreign files pre-existing where the escaping names point x extract_archives (single file, multi-volume at every cut with parts of other archives whose names share a beginning or an end lying next to the volumes, twice into the same temp dir) and extract_to_dir (all / name filter, through an instrumented source that counts reads served at a stale cached position of CloneableSeekableReader). Oracle: the sandbox tree outside the designated directory is unchanged; every reported path resolves inside it and holds the bytes of a member normalising to that path; reported set = files in the directory = non-directory members matching the pattern (glob crate semantics or literal equality) whose lexically normalised name stays inside.".into(),
            assumptions: vec![
                "reference for the chain = std::io::Cursor over the concatenation; stream length <= 6, <= 3 volumes, depths as listed in coverage.families".into(),
                "'matches the requested pattern' = glob::Pattern::matches with default options or literal equality with the pattern text (the rule documented at archive_get_path_and_glob); the matcher itself is not under test".into(),
                "members that are duplicates or aliases (normalise to the same path) may deliver the bytes of any of them; directory entries are neither required nor allowed in the reported list".into(),
                "confinement is observed inside a sandbox tree that contains every location the enumerated escaping names resolve to (relative: up to two levels above the temp dir; absolute: a path inside the sandbox)".into(),
                "symlink members, compressed (deflate) members, non-zip formats (libarchive feature is off in this build) and the single-member-named-'data' renaming special case are not enumerated".into(),
            ],
            budget_s: (90, 1100),
            workers: 0,
            required_landmarks: vec![
                "chain:case_with_empty_volume",
                "chain:read_crossed_volume_boundary",
                "chain:short_read_by_chain",
                "chain:seek_beyond_end",
                "chain:read_at_or_beyond_end",
                "chain:backward_seek",
                "chain:seek_into_later_volume",
                "chain:sequence_excluded(reference_errors:seek_before_0)",
                "zip:files_extracted",
                "zip:nothing_selected",
                "zip:archive_with_escaping_member",
                "zip:escaping_member_selected_by_pattern",
                "zip:foreign_file_preexists_at_escaping_name",
                "zip:pattern_selects_strict_subset",
                "zip:nested_member_extracted",
                "zip:empty_member_extracted",
                "zip:duplicate_or_alias_member_reported",
                "zip:member_larger_than_copy_buffer_extracted",
                "zip:multi_volume_archive",
                "zip:multi_volume_with_foreign_neighbours",
                "zip:multi_volume_with_empty_volume",
                "zip:temp_dir_reused_by_second_call",
                "zip:source_read_without_seek",
                "zip:same_name_in_two_directories",
            ],
        }
    }

    fn run(&self, ctx: &mut Ctx) {
        let _orig = ORIG_TMP.with(|p| p.clone()); // capture TMPDIR before any redirection
        self.run_inner(ctx);
        cleanup_worker_base();
    }

    fn replay(&self, case: &Value, ctx: &mut Ctx) {
        let _orig = ORIG_TMP.with(|p| p.clone());
        self.replay_inner(case, ctx);
        cleanup_worker_base();
    }
}

/// two different archives with the same file name in two directories, extracted one after the other in one process
/// (the listing of an archive is cached for a minute): each call reports exactly the matching members of *its* archive
fn same_name_family(ctx: &mut Ctx) {
    use adlt::utils::unzip::extract_archives;
    ctx.begin_family("same_name_archives", "archives d1/<name>.zip and d2/<name>.zip with different member lists x 3 patterns x both orders x {member lists nested, overlapping, disjoint}");
    let base = std::env::temp_dir().join(format!("c20-same-{}", std::process::id()));
    let _ = std::fs::create_dir_all(&base);
    let log = slog::Logger::root(slog::Discard, slog::o!());
    let cancel = std::sync::Arc::new(std::sync::atomic::AtomicBool::new(false));
    let lists: Vec<(Vec<(&str, &[u8])>, Vec<(&str, &[u8])>)> = vec![
        (vec![("ecu1/run.dlt", b"A-one"), ("readme.txt", b"a")], vec![("ecu1/run.dlt", b"B-one"), ("ecu2/run.dlt", b"B-two"), ("ecu2/empty.dlt", b"")]),
        (vec![("ecu1/run.dlt", b"A-one"), ("ecu3/x.dlt", b"A-x")], vec![("ecu1/run.dlt", b"B-one"), ("ecu2/run.dlt", b"B-two")]),
        (vec![("a.dlt", b"A")], vec![("b.dlt", b"B"), ("c/d.dlt", b"D")]),
    ];
    let pats: [Option<&str>; 3] = [None, Some("**/*.dlt"), Some("ecu2/*")];
    let mut k = 0usize;
    for (li, (la, lb)) in lists.iter().enumerate() {
        for pat in pats {
            for swap in [false, true] {
                k += 1;
                if !ctx.mine() {
                    continue;
                }
                let cj = || json!({"family": "same_name_archives", "lists": li, "pattern": pat, "second_archive_first": swap});
                let name = format!("logs{k}-{}", std::process::id());
                let (first, second) = if swap { (lb, la) } else { (la, lb) };
                let mut ok = true;
                let mut temp_dirs: Vec<(String, tempfile::TempDir)> = vec![];
                for (di, members) in [(1, first), (2, second)] {
                    let dir = base.join(format!("{name}-d{di}"));
                    let _ = std::fs::create_dir_all(&dir);
                    let zp = dir.join(format!("{name}.zip"));
                    std::fs::write(&zp, write_zip(&members.iter().map(|(n, d)| (n.to_string(), d.to_vec())).collect::<Vec<_>>())).expect("write zip");
                    let spec = match pat {
                        None => zp.to_string_lossy().to_string(),
                        Some(p) => format!("{}!/{}", zp.to_string_lossy(), p),
                    };
                    let want: Vec<(&str, &[u8])> = members
                        .iter()
                        .filter(|(n, _)| match pat {
                            None => true,
                            Some(p) => glob::Pattern::new(p).map(|g| g.matches(n)).unwrap_or(false),
                        })
                        .cloned()
                        .collect();
                    match catch(|| extract_archives(spec.clone(), &mut temp_dirs, &cancel, &log)) {
                        Err(p) => {
                            ctx.violation("panic", &p.loc, cj, format!("extract_archives({spec}): {}", p.msg));
                            ok = false;
                        }
                        Ok(got) => {
                            if want.is_empty() {
                                continue; // what is reported for an empty selection is judged by the main families
                            }
                            let mut missing = vec![];
                            for (n, d) in &want {
                                match got.iter().find(|g| g.ends_with(n)) {
                                    None => missing.push(n.to_string()),
                                    Some(g) => {
                                        if std::fs::read(g).ok().as_deref() != Some(*d) {
                                            ctx.violation("content_differs", "same_name_archives", cj, format!("call {di}: member {n} of {spec} extracted with other contents"));
                                            ok = false;
                                        }
                                    }
                                }
                            }
                            if !missing.is_empty() || got.len() != want.len() {
                                ctx.violation("reported_set", "same_name_archives", cj, format!("call {di} on {spec}: reported {:?}, expected the members {:?} (missing {:?})", got.iter().map(|g| g.rsplit('/').take(2).collect::<Vec<_>>().into_iter().rev().collect::<Vec<_>>().join("/")).collect::<Vec<_>>(), want.iter().map(|w| w.0).collect::<Vec<_>>(), missing));
                                ok = false;
                            }
                        }
                    }
                }
                let _ = ok;
                ctx.landmark("zip:same_name_in_two_directories");
                ctx.transitions(2);
                ctx.eval(true);
                ctx.sample(cj);
            }
        }
    }
    let _ = std::fs::remove_dir_all(&base);
    ctx.end_family(true);
}

impl C20Prop {
    fn run_inner(&self, ctx: &mut Ctx) {
        let thorough = ctx.tier == Tier::Thorough;
        same_name_family(ctx);
        // ------------------------------------------------------------------ A: chain, smallest bound first
        let maxd = ctx.tier.pick(4, 5);
        for d in 1..=maxd {
            if !chain_family(ctx, VolKind::Mem, 0..=6, 3, d) {
                return;
            }
        }
        for d in 1..=ctx.tier.pick(3, 4) {
            if !chain_family(ctx, VolKind::MemShort, 0..=6, 3, d) {
                return;
            }
        }
        for d in 1..=ctx.tier.pick(2, 3) {
            if !chain_family(ctx, VolKind::File, 0..=6, 3, d) {
                return;
            }
        }
        // ------------------------------------------------------------------ B: extraction
        let mut lm = ZipLm::default();
        let pats: Vec<Option<String>> = pattern_alphabet().into_iter().map(|p| p.map(|s| s.to_string())).collect();
        let n_alpha = member_alphabet().len();
        for size in 0..=ctx.tier.pick(3, 4) {
            let subsets: Vec<Vec<MSpec>> = member_subsets(n_alpha, size).into_iter().filter(|s| s.len() == size).collect();
            let pats = pats.clone();
            let bound = format!("members=subsets of size {size} of {n_alpha} x patterns={} x preexisting_foreign={{no,yes}} x modes={{extract_archives,extract_to_dir_all,extract_to_dir_filter}}", pats.len());
            let done = self.zip_block(
                ctx,
                &mut lm,
                "zip_members_x_patterns",
                &bound,
                &mut |f| {
                    for ms in &subsets {
                        for pre in [false, true] {
                            for mode in [Mode::Archives, Mode::ToDirFilter] {
                                for p in &pats {
                                    if !f(ZipCase { family: "zip_members_x_patterns".into(), mode, members: ms.clone(), pattern: p.clone(), pattern2: None, pre, cuts: vec![] }) {
                                        return false;
                                    }
                                }
                            }
                            if !f(ZipCase { family: "zip_members_x_patterns".into(), mode: Mode::ToDirAll, members: ms.clone(), pattern: None, pattern2: None, pre, cuts: vec![] }) {
                                return false;
                            }
                        }
                    }
                    true
                },
            );
            if !done {
                return;
            }
        }
        // twice into the same temp dir
        {
            let subsets = member_subsets(12, ctx.tier.pick(2, 3));
            let pats2 = pats.clone();
            let bound = format!("members=subsets of size <= {} of the first 12 x (pattern1, pattern2) in patterns^2 x preexisting_foreign={{no,yes}}", ctx.tier.pick(2, 3));
            let done = self.zip_block(
                ctx,
                &mut lm,
                "zip_two_calls_same_tempdir",
                &bound,
                &mut |f| {
                    for ms in subsets.iter().filter(|s| !s.is_empty()) {
                        for pre in [false, true] {
                            for p1 in &pats2 {
                                for p2 in &pats2 {
                                    if !f(ZipCase { family: "zip_two_calls_same_tempdir".into(), mode: Mode::ArchivesTwice, members: ms.clone(), pattern: p1.clone(), pattern2: p2.clone(), pre, cuts: vec![] }) {
                                        return false;
                                    }
                                }
                            }
                        }
                    }
                    true
                },
            );
            if !done {
                return;
            }
        }
        // multi-volume: every single cut (0 and len give an empty first/last volume), and every cut with an
        // empty volume in the middle; thorough: every pair of cuts of the smallest archives
        {
            let subsets = member_subsets(6, ctx.tier.pick(2, 3));
            let bound = format!("members=subsets of size 1..={} of the first 6 x every cut position c in 0..=len as volumes [0..c][c..] and [0..c][][c..] x pattern in {{none, *.dlt}}", ctx.tier.pick(2, 3));
            let done = self.zip_block(
                ctx,
                &mut lm,
                "zip_multi_volume_cuts",
                &bound,
                &mut |f| {
                    for ms in subsets.iter().filter(|s| !s.is_empty()) {
                        let len = zip_len(ms);
                        for c in 0..=len {
                            for cuts in [vec![c], vec![c, c]] {
                                for p in [None, Some("*.dlt".to_string())] {
                                    if !f(ZipCase { family: "zip_multi_volume_cuts".into(), mode: Mode::ArchivesMultiVol, members: ms.clone(), pattern: p, pattern2: None, pre: false, cuts: cuts.clone() }) {
                                        return false;
                                    }
                                }
                            }
                        }
                    }
                    true
                },
            );
            if !done {
                return;
            }
            if thorough {
                let alpha = member_alphabet();
                let tiny = vec![vec![alpha[0].clone()], vec![alpha[0].clone(), alpha[3].clone()]];
                let done = self.zip_block(ctx, &mut lm, "zip_multi_volume_cut_pairs", "archives {a.dlt} and {a.dlt, ../x.dlt} x every pair of cut positions c1 <= c2 (3 volumes, empty ones included)", &mut |f| {
                    for ms in &tiny {
                        let len = zip_len(ms);
                        for c1 in 0..=len {
                            for c2 in c1..=len {
                                if !f(ZipCase { family: "zip_multi_volume_cut_pairs".into(), mode: Mode::ArchivesMultiVol, members: ms.clone(), pattern: None, pattern2: None, pre: false, cuts: vec![c1, c2] }) {
                                    return false;
                                }
                            }
                        }
                    }
                    true
                });
                if !done {
                    return;
                }
            }
        }
        // stale cached position sweep (CloneableSeekableReader::Inner::read_at): skipped first member of every
        // size 0..=S, only later members requested
        {
            // the zip reader's end-of-central-directory search window is 2048 bytes: the sweep must pass it
            let smax = ctx.tier.pick(2600, 6500);
            let bound = format!("first member s.bin of size 0..={smax} (not requested) + k1.dlt(40) + k2.dlt(3); requested: k1 | k2 | k*.dlt via extract_to_dir(filter) on the instrumented source and via extract_archives; plus extract_to_dir(all)");
            let done = self.zip_block(
                ctx,
                &mut lm,
                "zip_skipped_member_size_sweep",
                &bound,
                &mut |f| {
                    for s in 0..=smax {
                        let ms = vec![MSpec { id: 20, name: "s.bin".into(), size: s }, MSpec { id: 21, name: "k1.dlt".into(), size: 40 }, MSpec { id: 22, name: "k2.dlt".into(), size: 3 }];
                        if !f(ZipCase { family: "zip_skipped_member_size_sweep".into(), mode: Mode::ToDirAll, members: ms.clone(), pattern: None, pattern2: None, pre: false, cuts: vec![] }) {
                            return false;
                        }
                        for p in ["k1.dlt", "k2.dlt", "k*.dlt"] {
                            for mode in [Mode::ToDirFilter, Mode::Archives] {
                                if !f(ZipCase { family: "zip_skipped_member_size_sweep".into(), mode, members: ms.clone(), pattern: Some(p.to_string()), pattern2: None, pre: false, cuts: vec![] }) {
                                    return false;
                                }
                            }
                        }
                    }
                    true
                },
            );
            if !done {
                return;
            }
        }
        // thorough: deeper chain exploration of short streams
        if thorough {
            chain_family(ctx, VolKind::Mem, 0..=3, 3, 6);
        }
    }

    fn replay_inner(&self, case: &Value, ctx: &mut Ctx) {
        ctx.mine();
        if case["family"].as_str() == Some("chain") {
            let vols: Vec<Vec<u8>> = case["vols"].as_array().expect("vols").iter().map(|v| unhex(v.as_str().unwrap())).collect();
            let ops: Vec<Op> = case["ops"].as_array().expect("ops").iter().map(|o| Op::parse(o.as_str().unwrap()).expect("op")).collect();
            let kind = VolKind::parse(case["volumes"].as_str().unwrap_or("mem"));
            let concat: Vec<u8> = vols.iter().flatten().copied().collect();
            let mut bounds = vec![];
            let mut acc = 0;
            for v in &vols[..vols.len().saturating_sub(1)] {
                acc += v.len();
                if acc > 0 && acc < concat.len() {
                    bounds.push(acc);
                }
            }
            bounds.dedup();
            let mut lm = ChainLm::default();
            if !ref_valid(concat.len(), &ops) {
                println!("  replay: the reference rejects this sequence (seek before 0): excluded");
                return;
            }
            run_chain_case(ctx, &mut lm, kind, &vols, None, &concat, &bounds, &ops);
            lm.flush(ctx);
        } else {
            let zc = ZipCase::from_json(case).expect("zip case");
            let mut lm = ZipLm::default();
            run_zip_case(ctx, &mut lm, &zc);
            lm.flush(ctx);
        }
    }
}
