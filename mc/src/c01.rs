//! C01 — DLT framing between garbage. Exhaustive product of message shapes x garbage runs x framings,
//! parsed by the real DltMessageIterator, compared with the independent builder's expectation.
use crate::core::dltgen::*;
use crate::core::*;
use adlt::utils::{DltMessageIterator, LowMarkBufReader};
use serde_json::{json, Value};

pub struct C01;

pub fn payload_bytes(n: usize, seed: u8) -> Vec<u8> {
    // marker-free by construction: never contains b'L'
    (0..n)
        .map(|i| {
            let b = ((i * 31) as u8).wrapping_add(seed);
            if b == b'L' {
                b'M'
            } else {
                b
            }
        })
        .collect()
}

pub const IDSETS: [([u8; 4], [u8; 4], [u8; 4]); 6] = [
    (*b"ECU1", *b"APP1", *b"CTX1"),
    ([b'E', 0, 0, 0], [b'A', 0, 0, 0], [0, 0, 0, 0]),
    ([0xFF, 0x01, 0xFF, 0x01], [0x01, 0xFF, 0x7F, 0x80], [b'D', b'T', 0x01, b'S']),
    // ids that start with a NUL byte (the header ECU differs from the storage header's)
    ([0, b'C', b'U', b'2'], [0, b'P', b'P', b'2'], [0, b'T', b'X', b'2']),
    ([0, 0, 0, 0], [0, 0, 0, 0], [0, 0, 0, 1]),
    // ids made of the first three bytes of the storage marker (no marker: the fourth byte differs)
    (*b"DLT2", *b"DLTD", *b"xDLT"),
];

pub fn shape(framing: &Framing, flags: u8, psize: usize, idset: usize, mcnt: u8, seq: usize) -> MsgSpec {
    let (e, a, c) = IDSETS[idset];
    let mut m = MsgSpec {
        framing: framing.clone(),
        htyp: VERS1 | flags,
        storage_ecu: if idset == 0 || idset >= 3 { *b"STO1" } else { e },
        hdr_ecu: e,
        apid: a,
        ctid: c,
        mcnt,
        session_id: 0x01020304 + seq as u32,
        timestamp: 1000 + seq as u32 * 7,
        secs: 1_600_000_000 + seq as u32,
        micros: (seq as u32 * 333_333) % 1_000_000,
        verb_mstp_mtin: 0x41,
        noar: 1,
        payload: vec![],
    };
    let ps = if psize == usize::MAX { m.max_payload() } else { psize };
    m.payload = payload_bytes(ps, seq as u8);
    m
}

/// garbage run generator: (len, content kind)
pub fn garbage(len: usize, kind: usize) -> Vec<u8> {
    let pat: &[u8] = match kind {
        0 => &[0x00],
        1 => &[0xFF],
        2 => b"D",
        3 => b"DL",
        4 => b"DLT",
        5 => b"DLS",
        6 => &[],  // counting bytes
        _ => b"XLT\x01\x10\x20\x30\x40\x00\x00\x00\x00ECU1\x35\x00\x00\x20ECU1", // header look-alike w/o marker
    };
    if pat.is_empty() {
        return (0..len).map(|i| (i as u8).wrapping_mul(3).wrapping_add(0x40)).collect();
    }
    (0..len).map(|i| pat[i % pat.len()]).collect()
}
pub const GLENS: [usize; 12] = [0, 1, 2, 3, 4, 5, 7, 8, 19, 20, 21, 40];
pub const GKINDS: usize = 8;

/// reduced garbage set used in pair / triple families
pub fn g_small(i: usize) -> Vec<u8> {
    match i {
        0 => vec![],
        1 => garbage(1, 0),
        2 => garbage(3, 4),
        3 => garbage(4, 1),
        4 => garbage(5, 5),
        5 => garbage(20, 6),
        _ => garbage(21, 0),
    }
}
pub const G_SMALL: usize = 7;

pub struct Stream {
    pub bytes: Vec<u8>,
    pub msgs: Vec<MsgSpec>,
    pub starts: Vec<usize>,
    pub garbage_total: usize,
    pub trailing: usize,
    pub leading: usize,
}

pub fn build(msgs: Vec<MsgSpec>, garb: &[Vec<u8>]) -> Stream {
    assert_eq!(garb.len(), msgs.len() + 1);
    let mut bytes = vec![];
    let mut starts = vec![];
    for (i, m) in msgs.iter().enumerate() {
        bytes.extend_from_slice(&garb[i]);
        starts.push(bytes.len());
        bytes.extend_from_slice(&m.to_bytes());
    }
    bytes.extend_from_slice(&garb[msgs.len()]);
    Stream {
        garbage_total: garb.iter().map(|g| g.len()).sum(),
        trailing: garb[msgs.len()].len(),
        leading: garb[0].len(),
        bytes,
        msgs,
        starts,
    }
}

/// how the bytes reach the iterator: as one slice, or through the real LowMarkBufReader (capacity, low mark)
/// over a source that hands out at most `chunk` bytes per read call
#[derive(Clone, Copy, Debug, PartialEq)]
pub enum Via {
    Slice,
    Reader { cap: usize, low: usize, chunk: usize },
}
struct ChunkSrc<'a> {
    data: &'a [u8],
    pos: usize,
    chunk: usize,
}
impl std::io::Read for ChunkSrc<'_> {
    fn read(&mut self, buf: &mut [u8]) -> std::io::Result<usize> {
        let n = buf.len().min(self.chunk).min(self.data.len() - self.pos);
        buf[..n].copy_from_slice(&self.data[self.pos..self.pos + n]);
        self.pos += n;
        Ok(n)
    }
}
fn drain<R: std::io::BufRead>(mut it: DltMessageIterator<R>, max: usize) -> (Vec<adlt::dlt::DltMessage>, u32, usize, usize) {
    let mut got = vec![];
    for m in it.by_ref() {
        got.push(m);
        if got.len() > max {
            break;
        }
    }
    (got, it.index, it.bytes_processed, it.bytes_skipped)
}

fn judge(ctx: &mut Ctx, st: &Stream, case: &dyn Fn() -> Value, via: Via) -> bool {
    // premise: no marker except at message starts
    if stray_marker(&st.bytes, &st.starts) {
        ctx.landmark("premise_rejected(stray marker)");
        return false;
    }
    let serial = st.msgs[0].framing == Framing::Serial;
    let min_msg = if serial { 8 } else { 20 };
    let mut nontrivial = false;
    for start_index in [0u32, 1000] {
        let r = catch(|| match via {
            Via::Slice => drain(DltMessageIterator::new(start_index, &st.bytes[..]), st.msgs.len() + 4),
            Via::Reader { cap, low, chunk } => drain(DltMessageIterator::new(start_index, LowMarkBufReader::new(ChunkSrc { data: &st.bytes, pos: 0, chunk }, cap, low)), st.msgs.len() + 4),
        });
        let (got, index, processed, skipped) = match r {
            Err(p) => {
                ctx.violation("panic", &p.loc, case, p.msg);
                return true;
            }
            Ok(x) => x,
        };
        // known weak spot gets its own discriminator: serial framing, fewer than 20 bytes left at the
        // first message while the framing is still undetected
        let first_rem = st.bytes.len() - st.starts[0];
        let disc = if serial && first_rem < 20 { "serial_undetected_lt20" } else { "" };
        if got.len() != st.msgs.len() {
            ctx.violation("count", disc, case, format!("{} messages read, {} written (start_index {start_index})", got.len(), st.msgs.len()));
            return true;
        }
        for (i, (g, e)) in got.iter().zip(st.msgs.iter()).enumerate() {
            if g.index != start_index + i as u32 {
                ctx.violation("index", disc, case, format!("message {i} has index {} (start {start_index})", g.index));
                return true;
            }
            if let Some(d) = e.diff(g) {
                ctx.violation("field", disc, case, format!("message {i}: {d}"));
                return true;
            }
        }
        if index != start_index + st.msgs.len() as u32 {
            ctx.violation("index", "iterator_index", case, format!("iterator index {} after {} msgs from {start_index}", index, st.msgs.len()));
            return true;
        }
        let total = st.bytes.len();
        if processed > total {
            ctx.violation("processed_gt_input", disc, case, format!("{processed} > {total}"));
            return true;
        }
        let tail = total - processed;
        if tail > st.trailing.min(min_msg - 1) {
            ctx.violation("tail_too_long", disc, case, format!("{tail} bytes unconsumed, trailing garbage {} (minimal msg {min_msg})", st.trailing));
            return true;
        }
        if skipped + tail != st.garbage_total {
            ctx.violation("skipped", disc, case, format!("skipped {skipped} + tail {tail} != garbage {}", st.garbage_total));
            return true;
        }
        if skipped > 0 {
            nontrivial = true;
        }
    }
    if st.garbage_total > 0 {
        ctx.landmark("has_garbage");
    }
    if st.garbage_total >= 20 {
        ctx.landmark("garbage_ge_20");
    }
    if serial {
        ctx.landmark("serial");
    } else {
        ctx.landmark("storage");
    }
    if st.leading > 0 {
        ctx.landmark("leading_garbage(undetected phase)");
    }
    if st.msgs.iter().any(|m| m.std_len() == 65535) {
        ctx.landmark("max_size_msg");
    }
    ctx.outcome(fnv(&[(st.msgs.len() as u8), st.garbage_total as u8, st.trailing.min(20) as u8, serial as u8]));
    nontrivial
}

fn spec_json(m: &MsgSpec) -> Value {
    json!({"framing": format!("{:?}", m.framing), "flags": m.htyp & 0x1f, "payload_len": m.payload.len(), "mcnt": m.mcnt,
        "seq": m.secs - 1_600_000_000, "storage_ecu": hex(&m.storage_ecu),
        "hdr_ecu": hex(&m.hdr_ecu), "apid": hex(&m.apid), "ctid": hex(&m.ctid), "verb_mstp_mtin": m.verb_mstp_mtin, "noar": m.noar})
}

fn run_stream(ctx: &mut Ctx, family: &str, msgs: Vec<MsgSpec>, garb: Vec<Vec<u8>>) {
    run_stream_via(ctx, family, msgs, garb, Via::Slice)
}
fn run_stream_via(ctx: &mut Ctx, family: &str, msgs: Vec<MsgSpec>, garb: Vec<Vec<u8>>, via: Via) {
    let st = build(msgs, &garb);
    let cj = || {
        json!({"family": family, "via": match via { Via::Slice => Value::Null, Via::Reader { cap, low, chunk } => json!({"cap": cap, "low": low, "chunk": chunk}) }, "bytes_hex": if st.bytes.len() <= 400 { hex(&st.bytes) } else { format!("<{} bytes>", st.bytes.len()) },
            "msgs": st.msgs.iter().map(spec_json).collect::<Vec<_>>(),
            "garbage_hex": garb.iter().map(|g| hex(g)).collect::<Vec<_>>() })
    };
    if via != Via::Slice {
        ctx.landmark("via_lowmark_reader");
    }
    let nt = judge(ctx, &st, &cj, via);
    ctx.transitions(st.msgs.len() as u64);
    ctx.eval(nt);
    ctx.sample(cj);
}

const PSIZES: [usize; 8] = [0, 1, 2, 3, 4, 5, 9, usize::MAX];

impl Prop for C01 {
    fn meta(&self, _t: Tier) -> Meta {
        Meta {
            id: "C01",
            level: "exploration",
            rule: "exhaustive product: message shapes (all 32 UEH/MSBF/WEID/WSID/WTMS combinations x payload sizes {0,1,2,3,4,5,9,max} x 5 id sets (printable, NUL padded, arbitrary bytes, NUL-leading with a different storage-header ECU, all NUL) x mcnt {0,255}; family ext_header_bytes: all 256 message-info bytes x NOAR {0,1,3,255} for every flag set with an extended header) x garbage runs (12 lengths x 8 contents incl. marker prefixes and a header look-alike) before/between/after x both framings x start index {0,1000}; singles, all ordered pairs of the 32 shapes, triples over a 6-shape core. Streams are built by an independent byte builder; candidates containing a marker anywhere but at a message start are rejected and counted (premise). Oracle: field-by-field equality, consecutive indices, skipped+tail = garbage, tail <= min(trailing garbage, minimal message - 1), processed <= input. Non-trivial = at least one byte was skipped.".into(),
            assumptions: vec!["payload/garbage bytes come from the stated pattern sets, not all byte values".into(),
                "serial-framed messages have no reception time in the stream; the synthesised one is not compared".into()],
            budget_s: (90, 1200),
            workers: 0,
            required_landmarks: vec!["has_garbage", "garbage_ge_20", "serial", "storage", "leading_garbage(undetected phase)", "max_size_msg", "via_lowmark_reader", "reader_production", "non_verbose_with_noar"],
        }
    }

    fn run(&self, ctx: &mut Ctx) {
        let thorough = ctx.tier == Tier::Thorough;
        let framings = [Framing::Storage, Framing::Serial];
        // (a) singles: every shape variant x reduced garbage before/after
        ctx.begin_family("singles", "32 flag sets x 8 payload sizes x 6 id sets x 2 mcnt x 2 framings x (G_small)^2");
        let mut done = true;
        'a: for fr in &framings {
            for flags in 0u8..32 {
                for (pi, ps) in PSIZES.iter().enumerate() {
                    // max-size messages (64 KiB each): id set 0 only in quick
                    for ids in 0..IDSETS.len() {
                        if *ps == usize::MAX && !thorough && ids != 0 {
                            continue;
                        }
                        for mcnt in [0u8, 255] {
                            for gb in 0..G_SMALL {
                                for ga in 0..G_SMALL {
                                    if ctx.mine() {
                                        let m = shape(fr, flags, *ps, ids, mcnt, pi);
                                        run_stream(ctx, "singles", vec![m], vec![g_small(gb), g_small(ga)]);
                                    }
                                }
                            }
                            if ctx.out_of_time() {
                                done = false;
                                break 'a;
                            }
                        }
                    }
                }
            }
        }
        ctx.end_family(done);
        if !done {
            return;
        }
        // (a2) the two bytes of the extended header that the parser must hand on untouched: every message-info byte x
        // argument counts, for every flag set with an extended header (the other families use verbose log info, NOAR 1)
        ctx.begin_family("ext_header_bytes", "all 256 message-info bytes x NOAR {0,1,3,255} x 16 flag sets with extended header x payload {0,5} x 2 framings x garbage {none, 5 bytes before, 5 after}");
        done = true;
        'x: for fr in &framings {
            for flags in (0u8..32).filter(|f| f & UEH != 0) {
                for vmm in 0u16..256 {
                    for noar in [0u8, 1, 3, 255] {
                        for ps in [0usize, 5] {
                            for g in 0..3 {
                                if ctx.mine() {
                                    let mut m = shape(fr, flags, ps, 0, 7, 1);
                                    m.verb_mstp_mtin = vmm as u8;
                                    m.noar = noar;
                                    if vmm & 1 == 0 && noar != 0 {
                                        ctx.landmark("non_verbose_with_noar");
                                    }
                                    let garb = match g {
                                        0 => vec![vec![], vec![]],
                                        1 => vec![garbage(5, 6), vec![]],
                                        _ => vec![vec![], garbage(5, 1)],
                                    };
                                    run_stream(ctx, "ext_header_bytes", vec![m], garb);
                                }
                            }
                        }
                    }
                }
                if ctx.out_of_time() {
                    done = false;
                    break 'x;
                }
            }
        }
        ctx.end_family(done);
        if !done {
            return;
        }
        // (b) full garbage set around 8 core shapes
        ctx.begin_family("garbage_full", "8 core shapes x payload {0,3} x 2 framings x (12 lengths x 8 contents)^2 before/after");
        let core_flags = [0u8, UEH, WEID | WTMS, UEH | WEID | WSID | WTMS, MSBF | UEH, WSID, UEH | WTMS, 31];
        done = true;
        'b: for fr in &framings {
            for flags in core_flags {
                for ps in [0usize, 3] {
                    for gbl in GLENS {
                        for gbk in 0..GKINDS {
                            if gbl == 0 && gbk > 0 {
                                continue;
                            }
                            for gal in GLENS {
                                for gak in 0..GKINDS {
                                    if gal == 0 && gak > 0 {
                                        continue;
                                    }
                                    if ctx.mine() {
                                        let m = shape(fr, flags, ps, 0, 7, 1);
                                        run_stream(ctx, "garbage_full", vec![m], vec![garbage(gbl, gbk), garbage(gal, gak)]);
                                    }
                                }
                            }
                        }
                        if ctx.out_of_time() {
                            done = false;
                            break 'b;
                        }
                    }
                }
            }
        }
        ctx.end_family(done);
        if !done {
            return;
        }
        // (c) all ordered pairs of the 32 shapes x payload sizes {0,3}
        ctx.begin_family("pairs", "all ordered pairs of (32 flag sets x payload {0,3}) x 2 framings x (G_small)^3");
        done = true;
        'c: for fr in &framings {
            for f1 in 0u8..32 {
                for p1 in [0usize, 3] {
                    for f2 in 0u8..32 {
                        for p2 in [0usize, 3] {
                            for g in 0..G_SMALL * G_SMALL * G_SMALL {
                                if ctx.mine() {
                                    let m1 = shape(fr, f1, p1, 0, 0, 0);
                                    let m2 = shape(fr, f2, p2, 1, 255, 1);
                                    run_stream(ctx, "pairs", vec![m1, m2], vec![g_small(g % G_SMALL), g_small((g / G_SMALL) % G_SMALL), g_small(g / (G_SMALL * G_SMALL))]);
                                }
                            }
                        }
                    }
                    if ctx.out_of_time() {
                        done = false;
                        break 'c;
                    }
                }
            }
        }
        ctx.end_family(done);
        if !done {
            return;
        }
        // (d) triples over a 6-shape core
        let core6 = [0u8, UEH, WEID | WTMS, 31, MSBF | UEH | WSID, WTMS];
        let gset = if thorough { G_SMALL } else { 4 };
        ctx.begin_family("triples", &format!("6^3 shape triples x 2 framings x ({gset} garbage runs)^4"));
        done = true;
        'd: for fr in &framings {
            for a in core6 {
                for b in core6 {
                    for c in core6 {
                        for g in 0..gset * gset * gset * gset {
                            if ctx.mine() {
                                let ms = vec![shape(fr, a, 0, 0, 1, 0), shape(fr, b, 3, 1, 2, 1), shape(fr, c, 9, 2, 3, 2)];
                                let gs = vec![g_small(g % gset), g_small((g / gset) % gset), g_small((g / (gset * gset)) % gset), g_small(g / (gset * gset * gset))];
                                run_stream(ctx, "triples", ms, gs);
                            }
                        }
                        if ctx.out_of_time() {
                            done = false;
                            break 'd;
                        }
                    }
                }
            }
        }
        ctx.end_family(done);
        if !done {
            return;
        }
        // (r) the same contract when the bytes arrive through the real LowMarkBufReader (as every file reader of adlt
        // does): one message, a garbage run of every length 0..=max, three messages - the next marker falls on every
        // offset relative to the reader's window ends
        {
            let (cap, low) = (8192usize, 4096usize);
            let gmax = if !thorough { 8300 } else { 2 * 8192 + 200 };
            let chunks: &[usize] = if !thorough { &[usize::MAX, 5000] } else { &[usize::MAX, 5000, 4096, 1000, 1] };
            ctx.begin_family("reader_windows", &format!("storage+serial framing, msg G msg msg msg with G = 0..={gmax} bytes of 6 garbage kinds, through LowMarkBufReader(cap {cap}, low mark {low}) over sources with read chunk {:?}", chunks));
            done = true;
            'r: for fr in &framings {
                for kind in [0usize, 2, 3, 4, 5, 6] {
                    for glen in 0..=gmax {
                        for &chunk in chunks {
                            if ctx.mine() {
                                let ms: Vec<MsgSpec> = (0..4).map(|i| shape(fr, [31u8, 0, UEH, 31][i], [3usize, 0, 5, 1][i], i % 3, i as u8, i)).collect();
                                run_stream_via(ctx, "reader_windows", ms, vec![vec![], garbage(glen, kind), vec![], g_small(glen % G_SMALL), vec![]], Via::Reader { cap, low, chunk });
                            }
                        }
                        if glen % 64 == 0 && ctx.out_of_time() {
                            done = false;
                            break 'r;
                        }
                    }
                }
            }
            ctx.end_family(done);
            if !done {
                return;
            }
            // (r1b) a long run of garbage before the first message (framing still undetected), lengths around the
            // maximum message size and far beyond, from a slice and through the production reader
            {
                let lens: Vec<usize> = if !thorough { (65_540..=65_560).chain([70_000, 100_000, 200_000]).collect() } else { (65_500..=65_600).chain([70_000, 100_000, 131_072, 200_000, 600_000]).collect() };
                ctx.begin_family("long_leading_garbage", &format!("both framings, G msg msg msg with G = {} lengths in {}..={} of 4 garbage kinds before the first message, from a slice and through LowMarkBufReader(512 KiB, DLT_MIN_PARSER_LOOKAHEAD_SIZE)", lens.len(), lens[0], lens[lens.len() - 1]));
                done = true;
                'l: for fr in &framings {
                    for kind in [1usize, 4, 5, 6] {
                        for &glen in &lens {
                            for via in [Via::Slice, Via::Reader { cap: 512 * 1024, low: adlt::dlt::DLT_MIN_PARSER_LOOKAHEAD_SIZE, chunk: usize::MAX }] {
                                if ctx.mine() {
                                    let ms: Vec<MsgSpec> = (0..3).map(|i| shape(fr, [31u8, 0, UEH][i], [3usize, 0, 5][i], i % 3, i as u8, i)).collect();
                                    ctx.landmark("long_leading_garbage");
                                    run_stream_via(ctx, "long_leading_garbage", ms, vec![garbage(glen, kind), vec![], g_small(glen % G_SMALL), vec![]], via);
                                }
                            }
                        }
                        if ctx.out_of_time() {
                            done = false;
                            break 'l;
                        }
                    }
                }
                ctx.end_family(done);
                if !done {
                    return;
                }
            }
            // (r2) messages close to the low mark in size: every refill matters (a look-ahead below the low mark cuts them)
            let gmax2 = if !thorough { 4200 } else { 8400 };
            let chunks2: &[usize] = if !thorough { &[usize::MAX, 5000, 1000] } else { &[usize::MAX, 5000, 4096, 1000, 333] };
            ctx.begin_family("reader_windows_big", &format!("both framings, 5 messages of 3000..3900 payload bytes with one garbage run of every length 0..={gmax2} (2 kinds) after the first, through LowMarkBufReader(cap {cap}, low mark {low}) over sources with read chunk {:?}", chunks2));
            done = true;
            'r2: for fr in &framings {
                for kind in [0usize, 6] {
                    for glen in 0..=gmax2 {
                        for &chunk in chunks2 {
                            if ctx.mine() {
                                let ms: Vec<MsgSpec> = (0..5).map(|i| shape(fr, [31u8, 0, UEH, 31, WTMS][i], [3000usize, 3900, 3500, 3333, 3899][i], i % 3, i as u8, i)).collect();
                                run_stream_via(ctx, "reader_windows_big", ms, vec![vec![], garbage(glen, kind), vec![], vec![], g_small(glen % G_SMALL), vec![]], Via::Reader { cap, low, chunk });
                            }
                        }
                        if glen % 64 == 0 && ctx.out_of_time() {
                            done = false;
                            break 'r2;
                        }
                    }
                }
            }
            ctx.end_family(done);
            if !done {
                return;
            }
        }
        // (r3) the readers' production parameters: 512 KiB buffer, low mark = the repository's constants; a maximum-size
        // message starts where in_buf bytes are buffered, for every in_buf around the low mark
        {
            use adlt::dlt::{DLT_MAX_STORAGE_MSG_SIZE, DLT_MIN_PARSER_LOOKAHEAD_SIZE};
            let cap = 512usize * 1024;
            let (lo, hi) = if !thorough { (65_490usize, 65_610usize) } else { (64_000, 67_000) };
            ctx.begin_family("reader_production", &format!("both framings, 8 large messages + one of maximum size starting where in_buf = {lo}..={hi} bytes of the first 512 KiB window are left + 3 small ones, through LowMarkBufReader(512 KiB, low mark in {{DLT_MAX_STORAGE_MSG_SIZE={DLT_MAX_STORAGE_MSG_SIZE}, DLT_MIN_PARSER_LOOKAHEAD_SIZE={DLT_MIN_PARSER_LOOKAHEAD_SIZE}}})"));
            done = true;
            'r3: for fr in &framings {
                let frame = if *fr == Framing::Serial { 4 } else { 16 };
                for in_buf in lo..=hi {
                    for low in [DLT_MAX_STORAGE_MSG_SIZE, DLT_MIN_PARSER_LOOKAHEAD_SIZE] {
                        if ctx.mine() {
                            let o = cap - in_buf;
                            let mut ms: Vec<MsgSpec> = vec![];
                            let mut len = 0usize;
                            let mut i = 0usize;
                            while len + (60_000 + frame) + frame + 100 <= o {
                                let mut m = shape(fr, 0, 0, 0, i as u8, i);
                                m.payload = payload_bytes(60_000 - m.hdr_size(), i as u8);
                                len += frame + 60_000;
                                ms.push(m);
                                i += 1;
                            }
                            // one adjustable message so that the next one starts at offset o
                            let rest = o - len - frame;
                            let mut m = shape(fr, 0, 0, 0, i as u8, i);
                            m.payload = payload_bytes(rest - m.hdr_size(), i as u8);
                            ms.push(m);
                            i += 1;
                            ms.push(shape(fr, WTMS | UEH, usize::MAX, 0, i as u8, i));
                            for k in 0..3 {
                                ms.push(shape(fr, [0u8, 31, UEH][k], 3 + k, k, (i + 1 + k) as u8, i + 1 + k));
                            }
                            let n = ms.len();
                            ctx.landmark("reader_production");
                            run_stream_via(ctx, "reader_production", ms, vec![vec![]; n + 1], Via::Reader { cap, low, chunk: usize::MAX });
                        }
                    }
                    if in_buf % 8 == 0 && ctx.out_of_time() {
                        done = false;
                        break 'r3;
                    }
                }
            }
            ctx.end_family(done);
            if !done {
                return;
            }
        }
        if !thorough {
            return;
        }
        // (d2) thorough: triples over ALL 32 flag sets (payload sizes 0 / 3 / 1 by position) and quadruples over the core
        ctx.begin_family("triples_all_shapes", "32^3 flag-set triples x 2 framings x (G_small)^4");
        done = true;
        'd2: for fr in &framings {
            for a in 0u8..32 {
                for b in 0u8..32 {
                    for c in 0u8..32 {
                        for g in 0..G_SMALL * G_SMALL * G_SMALL * G_SMALL {
                            if ctx.mine() {
                                let ms = vec![shape(fr, a, 0, 0, 1, 0), shape(fr, b, 3, 1, 2, 1), shape(fr, c, 1, 2, 3, 2)];
                                let gs = vec![g_small(g % G_SMALL), g_small((g / G_SMALL) % G_SMALL), g_small((g / (G_SMALL * G_SMALL)) % G_SMALL), g_small(g / (G_SMALL * G_SMALL * G_SMALL))];
                                run_stream(ctx, "triples", ms, gs);
                            }
                        }
                        if ctx.out_of_time() {
                            done = false;
                            break 'd2;
                        }
                    }
                }
            }
        }
        ctx.end_family(done);
        if !done {
            return;
        }
        ctx.begin_family("quadruples", "6^4 core-shape quadruples x 2 framings x (G_small)^5");
        done = true;
        'd3: for fr in &framings {
            for a in core6 {
                for b in core6 {
                    for c in core6 {
                        for d in core6 {
                            for g in 0..G_SMALL.pow(5) {
                                if ctx.mine() {
                                    let ms = vec![shape(fr, a, 0, 0, 1, 0), shape(fr, b, 3, 1, 2, 1), shape(fr, c, 9, 2, 3, 2), shape(fr, d, 2, 0, 4, 3)];
                                    let gs: Vec<Vec<u8>> = (0..5).map(|k| g_small((g / G_SMALL.pow(k)) % G_SMALL)).collect();
                                    run_stream(ctx, "triples", ms, gs);
                                }
                            }
                            if ctx.out_of_time() {
                                done = false;
                                break 'd3;
                            }
                        }
                    }
                }
            }
        }
        ctx.end_family(done);
        if !done {
            return;
        }
        // (e) thorough: max-size messages in pairs with garbage
        ctx.begin_family("pairs_max", "pairs with one maximum-size message: 32 flag sets x position x 2 framings x (G_small)^3");
        done = true;
        'e: for fr in &framings {
            for f1 in 0u8..32 {
                for f2 in [0u8, 31, UEH] {
                    for pos in 0..2 {
                        for g in 0..G_SMALL * G_SMALL * G_SMALL {
                            if ctx.mine() {
                                let big = shape(fr, f1, usize::MAX, 0, 9, 0);
                                let small = shape(fr, f2, 3, 1, 1, 1);
                                let ms = if pos == 0 { vec![big, small] } else { vec![small, big] };
                                run_stream(ctx, "pairs_max", ms, vec![g_small(g % G_SMALL), g_small((g / G_SMALL) % G_SMALL), g_small(g / (G_SMALL * G_SMALL))]);
                            }
                        }
                        if ctx.out_of_time() {
                            done = false;
                            break 'e;
                        }
                    }
                }
            }
        }
        ctx.end_family(done);
    }

    fn replay(&self, case: &Value, ctx: &mut Ctx) {
        // a replay case carries the message specs and the garbage runs
        let msgs: Vec<MsgSpec> = case["msgs"]
            .as_array()
            .expect("msgs")
            .iter()
            .enumerate()
            .map(|(_i, m)| {
                let fr = if m["framing"] == "Serial" { Framing::Serial } else { Framing::Storage };
                let seq = m["seq"].as_u64().unwrap_or(0) as usize;
                let mut s = shape(&fr, m["flags"].as_u64().unwrap() as u8, m["payload_len"].as_u64().unwrap() as usize, 0, m["mcnt"].as_u64().unwrap() as u8, seq);
                s.hdr_ecu.copy_from_slice(&unhex(m["hdr_ecu"].as_str().unwrap()));
                s.storage_ecu.copy_from_slice(&unhex(m["storage_ecu"].as_str().unwrap()));
                s.apid.copy_from_slice(&unhex(m["apid"].as_str().unwrap()));
                s.ctid.copy_from_slice(&unhex(m["ctid"].as_str().unwrap()));
                if let Some(v) = m["verb_mstp_mtin"].as_u64() {
                    s.verb_mstp_mtin = v as u8;
                }
                if let Some(v) = m["noar"].as_u64() {
                    s.noar = v as u8;
                }
                s
            })
            .collect();
        let garb: Vec<Vec<u8>> = case["garbage_hex"].as_array().expect("garbage").iter().map(|g| unhex(g.as_str().unwrap())).collect();
        ctx.mine();
        let via = match case["via"].as_object() {
            Some(o) => Via::Reader { cap: o["cap"].as_u64().unwrap() as usize, low: o["low"].as_u64().unwrap() as usize, chunk: o["chunk"].as_u64().unwrap() as usize },
            None => Via::Slice,
        };
        run_stream_via(ctx, "replay", msgs, garb, via);
    }
}
