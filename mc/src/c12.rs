//! C12 — filter sets: positive OR, negative veto, event AND; order and counts kept.
//!
//! All ordered tuples (a superset of the multisets) of <= k filters from a fixed pool (every kind x enabled / disabled x
//! plain / negated, overlapping ECU / APID / payload / lifecycle criteria) are applied to a fixed message stream through
//! both implementations: `filter_as_streams` (the stream filter used by `adlt convert`) and `match_filters` on the filter
//! container built by the public constructor `StreamContext::from` (streams / searches of the remote server; the export
//! plugin builds its container the same way). Oracle: the statement, with the single-filter decision taken from the
//! independent evaluator of C11 (`c11::SpecFilter`).
use crate::c11::{to_json_text, AFilter, IdCrit, PayCrit, SpecFilter, Tri, UMsg};
use crate::core::*;
use adlt::dlt::DltMessage;
use adlt::filter::functions::filter_as_streams;
use adlt::filter::Filter;
use adlt::utils::remote_utils::{match_filters, StreamContext};
use serde_json::{json, Value};
use std::cell::RefCell;

pub struct PoolEntry {
    pub name: &'static str,
    pub af: AFilter,
    pub json: String,
    pub filter: Filter,
    /// statement-level decision per stream message
    pub spec: Vec<bool>,
    /// the same with the filter forced to enabled (non-vacuity: would the disabled filter have mattered?)
    pub spec_if_enabled: Vec<bool>,
}
impl PoolEntry {
    fn class(&self) -> String {
        let mut s = String::from(match self.af.kind {
            0 => "pos",
            1 => "neg",
            2 => "marker",
            _ => "event",
        });
        if !self.af.enabled {
            s.push_str(".disabled");
        }
        s
    }
}

fn id4(s: &str) -> [u8; 4] {
    let mut b = [0u8; 4];
    for (i, c) in s.bytes().take(4).enumerate() {
        b[i] = c;
    }
    b
}
/// the message stream: ECU x {no extended header, APP1, APP2} x lifecycle x text, plus repeated messages
pub fn stream() -> Vec<UMsg> {
    let mut v = vec![];
    for lc in [1u32, 2] {
        for text in ["foo", "bar"] {
            for ecu in ["ECU1", "ECU2"] {
                for ap in [None, Some("APP1"), Some("APP2")] {
                    v.push(UMsg {
                        ecu: id4(ecu),
                        ext: ap.map(|a| (0x41u8, id4(a), id4("CTX1"))),
                        lc,
                        text: text.into(),
                        real_payload: false,
                    });
                }
            }
        }
    }
    // duplicates (same content later in the stream; only the index differs)
    for i in [0usize, 4, 7, 13, 22, 1] {
        let d = v[i].clone();
        v.push(d);
    }
    v
}

fn spec_col(af: &AFilter, st: &[UMsg]) -> Vec<bool> {
    let s = SpecFilter::new(af);
    st.iter()
        .map(|m| match s.eval(m) {
            Tri::T => true,
            Tri::F => false,
            Tri::U => panic!("harness: pool filter with statement-undefined decision"),
        })
        .collect()
}

pub fn pool(st: &[UMsg]) -> Vec<PoolEntry> {
    let lit = |s: &str| Some(IdCrit::Lit(s.into()));
    let mk = |name: &'static str, kind: u8, enabled: bool, negated: bool, f: &dyn Fn(&mut AFilter)| {
        let mut af = AFilter::new(kind);
        af.enabled = enabled;
        af.negated = negated;
        f(&mut af);
        (name, af)
    };
    let foo = || Some(PayCrit::Sub { s: "foo".into(), ic: false });
    let defs = vec![
        mk("P_ecu1", 0, true, false, &|f| f.ecu = lit("ECU1")),
        mk("P_app1", 0, true, false, &|f| f.apid = lit("APP1")),
        mk("P_not_ecu1", 0, true, true, &|f| f.ecu = lit("ECU1")),
        mk("P_all", 0, true, false, &|_| {}),
        mk("P_ecu2_disabled", 0, false, false, &|f| f.ecu = lit("ECU2")),
        mk("P_all_disabled_negated", 0, false, true, &|_| {}),
        mk("N_ecu2", 1, true, false, &|f| f.ecu = lit("ECU2")),
        mk("N_app1", 1, true, false, &|f| f.apid = lit("APP1")),
        mk("N_not_app1", 1, true, true, &|f| f.apid = lit("APP1")),
        mk("N_foo", 1, true, false, &|f| f.payload = foo()),
        mk("N_not_lc1", 1, true, true, &|f| f.lifecycles = Some(vec![1])),
        mk("N_app2_lc1", 1, true, false, &|f| {
            f.apid = lit("APP2");
            f.lifecycles = Some(vec![1])
        }),
        mk("N_all_disabled", 1, false, false, &|_| {}),
        mk("E_ecu1", 3, true, false, &|f| f.ecu = lit("ECU1")),
        mk("E_app2", 3, true, false, &|f| f.apid = lit("APP2")),
        mk("E_not_foo", 3, true, true, &|f| f.payload = foo()),
        mk("E_ecu2_disabled", 3, false, false, &|f| f.ecu = lit("ECU2")),
        mk("M_ecu1", 2, true, false, &|f| f.ecu = lit("ECU1")),
        mk("M_none_negated", 2, true, true, &|_| {}),
        mk("M_app1_disabled", 2, false, false, &|f| f.apid = lit("APP1")),
    ];
    defs.into_iter()
        .map(|(name, af)| {
            let json = to_json_text(&af, false).expect("pool filter expressible in JSON");
            let filter = Filter::from_json(&json).expect("pool filter loads");
            let spec = spec_col(&af, st);
            let mut en = af.clone();
            en.enabled = true;
            let spec_if_enabled = spec_col(&en, st);
            PoolEntry { name, af, json, filter, spec, spec_if_enabled }
        })
        .collect()
}

/// statement of C12 for one message; `treat_disabled_as_enabled` / `marker_as_positive` are only used for non-vacuity counters
fn spec_keep(set: &[&PoolEntry], i: usize, with_events: bool, as_if_enabled: bool, marker_as_positive: bool) -> bool {
    let on = |p: &PoolEntry| p.af.enabled || as_if_enabled;
    let m = |p: &PoolEntry| if as_if_enabled { p.spec_if_enabled[i] } else { p.spec[i] };
    let is_pos = |p: &PoolEntry| p.af.kind == 0 || (marker_as_positive && p.af.kind == 2);
    let mut any_pos = false;
    let mut pos_match = false;
    let mut neg_match = false;
    let mut any_ev = false;
    let mut ev_match = false;
    for p in set {
        if !on(p) {
            continue;
        }
        if is_pos(p) {
            any_pos = true;
            pos_match |= m(p);
        } else if p.af.kind == 1 {
            neg_match |= m(p);
        } else if p.af.kind == 3 {
            any_ev = true;
            ev_match |= m(p);
        }
    }
    (!any_pos || pos_match) && !neg_match && (!with_events || !any_ev || ev_match)
}

pub struct Fixture {
    pub st: Vec<UMsg>,
    pub msgs: Vec<DltMessage>,
    pub pool: Vec<PoolEntry>,
    pub log: slog::Logger,
}
impl Fixture {
    pub fn new() -> Fixture {
        let st = stream();
        let msgs = st.iter().enumerate().map(|(i, m)| m.to_dlt(i as u32)).collect();
        let pool = pool(&st);
        Fixture { st, msgs, pool, log: slog::Logger::root(slog::Discard, slog::o!()) }
    }
}

struct Obs {
    /// indices (into the stream) of the forwarded messages, in forwarding order; None = a message that is not in the input
    fas_kept: Vec<Option<usize>>,
    fas_unchanged: bool,
    fas_counts: (usize, usize),
    mf_kept: Vec<bool>,
    /// (chunk limit, positions collected by process_stream_new_msgs)
    stream_sets: Vec<(usize, Vec<usize>)>,
    /// queries: (first window end, arrival batch size, positions collected after the window has been enlarged to the whole
    /// stream and every message has been examined)
    query_sets: Vec<(usize, usize, Vec<usize>)>,
    /// the export plugin configured with the same filter set: keys (reception time, timestamp, mcnt, payload) of the
    /// messages found in the file it wrote, without its own info messages. None = not observed for this set size
    export_keys: Option<Vec<(u64, u32, u8, Vec<u8>)>>,
    /// the same with a sync_all() after every 7 messages
    export_keys_synced: Option<Vec<(u64, u32, u8, Vec<u8>)>>,
    /// the same with a recorded-time window in the configuration that contains every message
    export_keys_timewin: Option<Vec<(u64, u32, u8, Vec<u8>)>>,
}

fn observe(fx: &Fixture, set: &[&PoolEntry]) -> Result<Obs, (String, String)> {
    // (a) filter_as_streams
    let filters: Vec<Filter> = set.iter().map(|p| p.filter.clone()).collect();
    let (tx, rx) = std::sync::mpsc::channel();
    for m in &fx.msgs {
        tx.send(m.clone()).unwrap();
    }
    drop(tx);
    let out: RefCell<Vec<DltMessage>> = RefCell::new(Vec::with_capacity(fx.msgs.len()));
    let r = catch(|| {
        filter_as_streams(&filters, &rx, &|m: DltMessage| {
            out.borrow_mut().push(m);
            Ok(())
        })
    });
    let counts = match r {
        Err(p) => return Err(("panic".into(), format!("{}|filter_as_streams: {}", p.loc, p.msg))),
        Ok(Err(e)) => return Err(("fas_error".into(), format!("|filter_as_streams returned an error: {e:?}"))),
        Ok(Ok(c)) => c,
    };
    let out = out.into_inner();
    let mut unchanged = true;
    let fas_kept = out
        .iter()
        .map(|m| {
            let i = m.index as usize;
            if i < fx.msgs.len() {
                if *m != fx.msgs[i] {
                    unchanged = false;
                }
                Some(i)
            } else {
                unchanged = false;
                None
            }
        })
        .collect();
    // (b) match_filters on the container of the public constructor
    let js = format!("{{\"filters\":[{}]}}", set.iter().map(|p| p.json.as_str()).collect::<Vec<_>>().join(","));
    let sc = match catch(|| StreamContext::from(&fx.log, "stream", &js).map_err(|e| e.to_string())) {
        Err(p) => return Err(("panic".into(), format!("{}|StreamContext::from: {}", p.loc, p.msg))),
        Ok(Err(e)) => return Err(("mf_construct".into(), format!("|StreamContext::from({js}) failed: {e}"))),
        Ok(Ok(sc)) => sc,
    };
    let mf_kept = match catch(|| fx.msgs.iter().map(|m| match_filters(m, &sc.filters)).collect::<Vec<bool>>()) {
        Err(p) => return Err(("panic".into(), format!("{}|match_filters: {}", p.loc, p.msg))),
        Ok(v) => v,
    };
    // (c) the stream path of the remote server: process_stream_new_msgs called the way the server loop does, for
    // several chunk limits; it must collect exactly the positions match_filters keeps (when filters are active)
    let mut stream_sets: Vec<(usize, Vec<usize>)> = vec![];
    for chunk in [1usize, 7, usize::MAX] {
        let r = catch(|| -> Result<Vec<usize>, String> {
            let mut st = StreamContext::from(&fx.log, "stream", &js).map_err(|e| e.to_string())?;
            if !st.filters_active {
                return Ok((0..fx.msgs.len()).collect());
            }
            for _ in 0..fx.msgs.len() + 2 {
                let last = st.all_msgs_last_processed_len.min(fx.msgs.len());
                adlt::utils::remote_utils::process_stream_new_msgs(&mut st, last, &fx.msgs[last..], chunk);
            }
            Ok(st.filtered_msgs.clone())
        });
        match r {
            Err(p) => return Err(("panic".into(), format!("{}|process_stream_new_msgs: {}", p.loc, p.msg))),
            Ok(Err(e)) => return Err(("mf_construct".into(), format!("|{e}"))),
            Ok(Ok(v)) => stream_sets.push((chunk, v)),
        }
    }
    // (c2) the query path: a small window, arrival in batches (a later batch holds more matches than the window still wants),
    // then the window is enlarged to the whole stream: every match must be collected in the end
    let mut query_sets: Vec<(usize, usize, Vec<usize>)> = vec![];
    for (w, batch) in [(3usize, 4usize), (2, 5), (1, 1), (5, 7)] {
        let r = catch(|| -> Result<Vec<usize>, String> {
            let jsq = format!("{{\"window\":[0,{w}],\"filters\":[{}]}}", set.iter().map(|p| p.json.as_str()).collect::<Vec<_>>().join(","));
            let mut st = StreamContext::from(&fx.log, "query", &jsq).map_err(|e| e.to_string())?;
            if !st.filters_active {
                return Ok((0..fx.msgs.len()).collect());
            }
            let n = fx.msgs.len();
            let mut avail = 0usize;
            while avail < n {
                avail = (avail + batch).min(n);
                let last = st.all_msgs_last_processed_len.min(avail);
                adlt::utils::remote_utils::process_stream_new_msgs(&mut st, last, &fx.msgs[last..avail], usize::MAX);
            }
            st.msgs_to_send = 0..n + 10;
            for _ in 0..n + 2 {
                let last = st.all_msgs_last_processed_len.min(n);
                adlt::utils::remote_utils::process_stream_new_msgs(&mut st, last, &fx.msgs[last..n], usize::MAX);
            }
            Ok(st.filtered_msgs.clone())
        });
        match r {
            Err(p) => return Err(("panic".into(), format!("{}|process_stream_new_msgs (query): {}", p.loc, p.msg))),
            Ok(Err(e)) => return Err(("mf_construct".into(), format!("|{e}"))),
            Ok(Ok(v)) => query_sets.push((w, batch, v)),
        }
    }
    // (d) the export plugin (sets of up to EXPORT_MAX_SET filters): it builds its own container from the same JSON
    let mut export_keys_synced: Option<Vec<(u64, u32, u8, Vec<u8>)>> = None;
    let mut export_keys_timewin: Option<Vec<(u64, u32, u8, Vec<u8>)>> = None;
    let export_keys = if set.len() <= export_max_set() {
        let dir = if std::path::Path::new("/dev/shm").is_dir() { "/dev/shm" } else { "/tmp" };
        let path = format!("{dir}/mc-c12-export-{}-{:?}.dlt", std::process::id(), std::thread::current().id());
        let _ = std::fs::remove_file(&path);
        let cfg = json!({"name": "Export", "exportFileName": path, "filters": set.iter().map(|p| serde_json::from_str::<Value>(&p.json).unwrap()).collect::<Vec<_>>()});
        // twice: in one go, and with a sync_all() after every 7 messages (the trait allows it at any time)
        let mut both = vec![];
        for (sync_every, time_window) in [(usize::MAX, false), (7, false), (usize::MAX, true)] {
            let mut cfg = cfg.clone();
            if time_window {
                cfg["recordedTimeFromMs"] = json!(0);
                cfg["recordedTimeToMs"] = json!(4_000_000_000_000u64);
            }
            let r = catch(|| -> Result<(), String> {
                let mut plugin = adlt::plugins::export::ExportPlugin::from_json(cfg.as_object().unwrap()).map_err(|e| e.to_string())?;
                use adlt::plugins::plugin::Plugin;
                for (i, m) in fx.msgs.iter().enumerate() {
                    let mut m = m.clone();
                    plugin.process_msg(&mut m);
                    if (i + 1) % sync_every == 0 {
                        plugin.sync_all();
                    }
                }
                plugin.sync_all();
                drop(plugin);
                Ok(())
            });
            match r {
                Err(p) => {
                    let _ = std::fs::remove_file(&path);
                    return Err(("panic".into(), format!("{}|ExportPlugin: {}", p.loc, p.msg)));
                }
                Ok(Err(e)) => {
                    let _ = std::fs::remove_file(&path);
                    return Err(("export_construct".into(), format!("|ExportPlugin::from_json failed: {e}")));
                }
                Ok(Ok(())) => {}
            }
            let bytes = std::fs::read(&path).unwrap_or_default();
            let _ = std::fs::remove_file(&path);
            let mut keys: Vec<(u64, u32, u8, Vec<u8>)> = adlt::utils::DltMessageIterator::new(0, &bytes[..])
                .filter(|m| !(m.apid().map(|a| a.as_buf() == b"VsDl").unwrap_or(false) && m.ctid().map(|c| c.as_buf() == b"Info").unwrap_or(false)))
                .map(|m| (m.reception_time_us, m.timestamp_dms, m.standard_header.mcnt, m.payload.clone()))
                .collect();
            keys.sort();
            both.push(keys);
        }
        export_keys_timewin = both.pop();
        export_keys_synced = both.pop();
        both.pop()
    } else {
        None
    };
    Ok(Obs { fas_kept, fas_unchanged: unchanged, fas_counts: counts, mf_kept, stream_sets, query_sets, export_keys, export_keys_synced, export_keys_timewin })
}

/// the export plugin is driven for filter sets up to this size (quick 2, thorough 3; set by the run)
static EXPORT_MAX_SET: std::sync::atomic::AtomicUsize = std::sync::atomic::AtomicUsize::new(2);
fn export_max_set() -> usize {
    EXPORT_MAX_SET.load(std::sync::atomic::Ordering::Relaxed)
}

/// evaluate all clauses; returns (clause, sub-discriminator, detail) of every failing clause
fn judge(fx: &Fixture, set: &[&PoolEntry]) -> Vec<(String, String, String)> {
    let n = fx.msgs.len();
    let mut v = vec![];
    let obs = match observe(fx, set) {
        Err((clause, d)) => {
            let (loc, detail) = d.split_once('|').unwrap_or(("", &d));
            v.push((clause, loc.to_string(), detail.to_string()));
            return v;
        }
        Ok(o) => o,
    };
    let exp_fas: Vec<bool> = (0..n).map(|i| spec_keep(set, i, false, false, false)).collect();
    let exp_mf: Vec<bool> = (0..n).map(|i| spec_keep(set, i, true, false, false)).collect();
    // kept messages unchanged
    if !obs.fas_unchanged {
        v.push(("fas_unchanged".into(), "".into(), "a forwarded message differs from the received one".into()));
    }
    // original order (strictly increasing positions; a duplicate forward is an order/selection defect too)
    let idxs: Vec<usize> = obs.fas_kept.iter().flatten().copied().collect();
    if idxs.windows(2).any(|w| w[0] >= w[1]) {
        v.push(("fas_order".into(), "".into(), format!("forwarded positions {:?}", idxs)));
    }
    // selection
    let mut got = vec![false; n];
    for i in &idxs {
        got[*i] = true;
    }
    if let Some(i) = (0..n).find(|i| got[*i] != exp_fas[*i]) {
        v.push((
            "fas_selection".into(),
            if got[i] { "kept_but_should_drop" } else { "dropped_but_should_keep" }.into(),
            format!("message {i} {}: filter_as_streams kept={}, statement kept={}", fx.st[i].to_value(), got[i], exp_fas[i]),
        ));
    }
    // counts
    let (passed, filtered) = obs.fas_counts;
    if passed + filtered != n {
        v.push(("fas_counts".into(), "sum".into(), format!("passed {passed} + filtered {filtered} != received {n}")));
    } else if passed != obs.fas_kept.len() {
        v.push(("fas_counts".into(), "passed".into(), format!("passed {passed} but {} messages forwarded", obs.fas_kept.len())));
    }
    // match_filters
    if let Some(i) = (0..n).find(|i| obs.mf_kept[*i] != exp_mf[*i]) {
        v.push((
            "mf_selection".into(),
            if obs.mf_kept[i] { "kept_but_should_drop" } else { "dropped_but_should_keep" }.into(),
            format!("message {i} {}: match_filters={}, statement kept={}", fx.st[i].to_value(), obs.mf_kept[i], exp_mf[i]),
        ));
    }
    // the stream path keeps exactly what match_filters keeps, whatever the chunk limit
    for (chunk, set_) in &obs.stream_sets {
        let want: Vec<usize> = (0..n).filter(|i| exp_mf[*i]).collect();
        if *set_ != want && !v.iter().any(|(c, _, _)| c == "mf_selection") {
            v.push(("stream_selection".into(), if *chunk == usize::MAX { "unlimited_chunk" } else { "chunked" }.into(), format!("process_stream_new_msgs (chunk limit {chunk}) collected positions {:?}, statement keeps {:?}", set_, want)));
            break;
        }
    }
    for (w, batch, set_) in &obs.query_sets {
        let want: Vec<usize> = (0..n).filter(|i| exp_mf[*i]).collect();
        if *set_ != want && !v.iter().any(|(c, _, _)| c == "mf_selection" || c == "stream_selection") {
            v.push(("stream_selection".into(), "query_window_enlarged".into(), format!("query with window [0,{w}), arrival in batches of {batch}, window then enlarged: process_stream_new_msgs collected positions {:?}, statement keeps {:?}", set_, want)));
            break;
        }
    }
    // the export plugin writes exactly the messages the set matcher keeps (event clause included)
    if let Some(keys) = &obs.export_keys {
        let mut want: Vec<(u64, u32, u8, Vec<u8>)> = (0..n).filter(|i| exp_mf[*i]).map(|i| { let m = &fx.msgs[i]; (m.reception_time_us, m.timestamp_dms, m.standard_header.mcnt, m.payload.clone()) }).collect();
        want.sort();
        if *keys != want && !v.iter().any(|(c, _, _)| c == "mf_selection") {
            v.push(("export_selection".into(), if keys.len() < want.len() { "exported_too_few" } else { "exported_other" }.into(), format!("the export plugin wrote {} messages, the statement keeps {} of {n}", keys.len(), want.len())));
        } else if let Some(ks) = &obs.export_keys_synced {
            if *ks != want && !v.iter().any(|(c, _, _)| c == "mf_selection") {
                v.push(("export_selection".into(), "with_intermediate_sync".into(), format!("with a sync_all() after every 7 messages the export file holds {} messages, the statement keeps {} of {n}", ks.len(), want.len())));
            } else if let Some(kt) = &obs.export_keys_timewin {
                if *kt != want && !v.iter().any(|(c, _, _)| c == "mf_selection") {
                    v.push(("export_selection".into(), "with_recorded_time_window".into(), format!("with recordedTimeFromMs / recordedTimeToMs set to a window that contains every message the export file holds {} messages, the statement keeps {} of {n}", kt.len(), want.len())));
                }
            }
        }
    }
    // agreement where both apply
    let any_event = set.iter().any(|p| p.af.kind == 3 && p.af.enabled);
    // (implied by the two selection clauses; reported on its own only if neither of them explains it)
    if !any_event && !v.iter().any(|(c, _, _)| c == "fas_selection" || c == "mf_selection") {
        if let Some(i) = (0..n).find(|i| obs.mf_kept[*i] != got[*i]) {
            v.push((
                "agreement".into(),
                "".into(),
                format!("message {i}: filter_as_streams kept={}, match_filters={}", got[i], obs.mf_kept[i]),
            ));
        }
    }
    v
}

fn case_json(family: &str, set: &[&PoolEntry]) -> Value {
    json!({"family": family, "filters": set.iter().map(|p| p.name).collect::<Vec<_>>(),
        "filters_json": set.iter().map(|p| serde_json::from_str::<Value>(&p.json).unwrap()).collect::<Vec<_>>()})
}

fn run_case(ctx: &mut Ctx, fx: &Fixture, family: &str, set: &[&PoolEntry]) {
    let n = fx.msgs.len();
    let fails = judge(fx, set);
    ctx.transitions(2 * n as u64);
    for (clause, sub, detail) in &fails {
        // discriminator: classes of a minimal sub-set (greedy removal) that still fails the same clause
        let mut cur: Vec<&PoolEntry> = set.to_vec();
        let mut i = 0;
        while i < cur.len() {
            let mut t = cur.clone();
            t.remove(i);
            if judge(fx, &t).iter().any(|(c, s, _)| c == clause && s == sub) {
                cur = t;
            } else {
                i += 1;
            }
        }
        let mut classes: Vec<String> = cur.iter().map(|p| p.class()).collect();
        classes.sort();
        let disc = if clause == "panic" {
            sub.clone()
        } else {
            format!("{}{}[{}]", sub, if sub.is_empty() { "" } else { ":" }, classes.join(","))
        };
        let min_names: Vec<&str> = cur.iter().map(|p| p.name).collect();
        ctx.violation(
            clause,
            &disc,
            || {
                let mut c = case_json(family, set);
                c["minimal_failing_subset"] = json!(min_names);
                c
            },
            detail.clone(),
        );
    }
    // landmarks
    let keep: Vec<bool> = (0..n).map(|i| spec_keep(set, i, false, false, false)).collect();
    let keep_ev: Vec<bool> = (0..n).map(|i| spec_keep(set, i, true, false, false)).collect();
    let nk = keep.iter().filter(|k| **k).count();
    let on = |p: &&&PoolEntry| p.af.enabled;
    let npos = set.iter().filter(on).filter(|p| p.af.kind == 0).count();
    let nneg = set.iter().filter(on).filter(|p| p.af.kind == 1).count();
    if npos >= 2 && (0..n).any(|i| set.iter().filter(|p| p.af.enabled && p.af.kind == 0 && p.spec[i]).count() == 1) {
        ctx.landmark("positive_or_decides");
    }
    if nneg >= 1 && (0..n).any(|i| !keep[i] && set.iter().any(|p| p.af.enabled && p.af.kind == 1 && p.spec[i])
        && (npos == 0 || set.iter().any(|p| p.af.enabled && p.af.kind == 0 && p.spec[i])))
    {
        ctx.landmark("negative_veto_decides");
    }
    if keep != keep_ev {
        ctx.landmark("event_clause_decides");
    }
    if npos == 0 && nk > 0 {
        ctx.landmark("no_enabled_positive_keeps");
    }
    if set.iter().any(|p| !p.af.enabled) {
        let alt: Vec<bool> = (0..n).map(|i| spec_keep(set, i, true, true, false)).collect();
        if alt != keep_ev {
            ctx.landmark("disabled_filter_would_change_selection");
        }
    }
    if set.iter().any(|p| p.af.kind == 2 && p.af.enabled) {
        let alt: Vec<bool> = (0..n).map(|i| spec_keep(set, i, true, false, true)).collect();
        if alt != keep_ev {
            ctx.landmark("marker_would_change_selection_if_positive");
        }
    }
    if !set.iter().any(|p| p.af.kind == 3 && p.af.enabled) {
        ctx.landmark("agreement_checked(no_enabled_event_filter)");
    }
    if set.iter().any(|p| p.af.negated && p.af.enabled && p.af.kind != 2) {
        ctx.landmark("negated_filter_in_set");
    }
    if (1..set.len()).any(|i| set[..i].iter().any(|p| std::ptr::eq(*p, set[i]))) {
        ctx.landmark("same_filter_twice");
    }
    let mut h: u64 = 0xcbf29ce484222325;
    for i in 0..n {
        h ^= 1 + keep[i] as u64 + 2 * keep_ev[i] as u64;
        h = h.wrapping_mul(0x100000001b3);
    }
    ctx.outcome(h);
    ctx.eval(nk > 0 && nk < n);
    ctx.sample(|| {
        let mut c = case_json(family, set);
        c["kept_by_statement"] = json!(nk);
        c["kept_with_event_clause"] = json!(keep_ev.iter().filter(|k| **k).count());
        c
    });
}

/// The export plugin configured with "lifecyclesToKeep": the plugin adds an internal negative filter and rewrites it
/// whenever it meets a lifecycle to keep. Real lifecycles (one per ECU x lifecycle number of the stream, published
/// through an evmap as the lifecycle stage does) x every subset of them to keep (empty list = no restriction; quick: 7 subsets) x every
/// filter set of up to 2 pool filters: the file holds exactly the messages the statement keeps among the messages
/// of the kept lifecycles.
fn export_keep_family(ctx: &mut Ctx, fx: &Fixture) {
    use adlt::lifecycle::{Lifecycle, LifecycleId, LifecycleItem};
    use adlt::plugins::plugin::Plugin;
    let (lcs_r, mut lcs_w) = evmap::Options::default().with_hasher(nohash_hasher::BuildNoHashHasher::<LifecycleId>::default()).construct::<LifecycleId, LifecycleItem>();
    // (ecu, lifecycle number of the stream) -> (real id, start, end)
    let mut real: Vec<(([u8; 4], u32), LifecycleId, u64, u64)> = vec![];
    for lc in [1u32, 2] {
        for ecu in ["ECU1", "ECU2"] {
            let t0 = 1_600_000_000_000_000u64 + lc as u64 * 1_000_000_000;
            let mut probe = crate::core::dltgen::mk_msg(0, &id4(ecu), t0 + 5_000_000, 50_000, true, None, vec![]);
            let l = Lifecycle::new(&mut probe);
            real.push(((id4(ecu), lc), l.id(), l.start_time, l.end_time()));
            lcs_w.insert(l.id(), l);
        }
    }
    lcs_w.refresh();
    let real_id = |ecu: &[u8; 4], lc: u32| real.iter().find(|r| r.0 == (*ecu, lc)).map(|r| r.1).expect("lifecycle of the stream");
    let msgs: Vec<DltMessage> = fx.msgs.iter().zip(fx.st.iter()).map(|(m, u)| { let mut m = m.clone(); m.lifecycle = real_id(&u.ecu, u.lc); m }).collect();
    let n = msgs.len();
    // 0 = the key is present with an empty list: nothing is restricted
    let subsets: Vec<u32> = if ctx.tier == Tier::Thorough { (0..16).collect() } else { vec![0, 0b0001, 0b0011, 0b0100, 0b0101, 0b1010, 0b1111] };
    let kmax = export_max_set();
    ctx.begin_family("export_lifecycles_to_keep", &format!("{} subsets of the 4 lifecycles to keep x filter sets of <= {kmax} of {} pool filters", subsets.len(), fx.pool.len()));
    let dir = if std::path::Path::new("/dev/shm").is_dir() { "/dev/shm" } else { "/tmp" };
    let path = format!("{dir}/mc-c12-keep-{}.dlt", std::process::id());
    let mut done = true;
    'o: for keep in &subsets {
        let kept: Vec<bool> = (0..4).map(|b| *keep == 0 || keep & (1 << b) != 0).collect();
        let to_keep: Vec<Value> = real.iter().enumerate().filter(|(i, _)| *keep != 0 && kept[*i]).map(|(_, r)| json!({"ecu": std::str::from_utf8(&r.0 .0).unwrap(), "startTime": r.2, "endTime": r.3})).collect();
        for k in 0..=kmax {
            let fin = enumr::sequences(k, fx.pool.len(), |ix| {
                if !ctx.mine() {
                    return true;
                }
                let set: Vec<&PoolEntry> = ix.iter().map(|i| &fx.pool[*i]).collect();
                // the user's filters, lifecycle numbers replaced by the real ids of both ECUs
                let filters: Vec<Value> = set
                    .iter()
                    .map(|p| {
                        let mut j: Value = serde_json::from_str(&p.json).unwrap();
                        if let Some(l) = &p.af.lifecycles {
                            j["lifecycles"] = json!(l.iter().flat_map(|lc| ["ECU1", "ECU2"].iter().map(|e| real_id(&id4(e), *lc)).collect::<Vec<_>>()).collect::<Vec<_>>());
                        }
                        j
                    })
                    .collect();
                let cj = || {
                    let mut c = case_json("export_lifecycles_to_keep", &set);
                    c["keep"] = json!(keep);
                    c
                };
                let _ = std::fs::remove_file(&path);
                let cfg = json!({"name": "Export", "exportFileName": path, "filters": filters, "lifecyclesToKeep": to_keep});
                let r = catch(|| -> Result<(), String> {
                    let mut plugin = adlt::plugins::export::ExportPlugin::from_json(cfg.as_object().unwrap()).map_err(|e| e.to_string())?;
                    plugin.set_lifecycle_read_handle(&lcs_r);
                    for m in &msgs {
                        let mut m = m.clone();
                        plugin.process_msg(&mut m);
                    }
                    plugin.sync_all();
                    Ok(())
                });
                ctx.transitions(n as u64);
                match r {
                    Err(p) => ctx.violation("panic", &p.loc, cj, format!("ExportPlugin with lifecyclesToKeep: {}", p.msg)),
                    Ok(Err(e)) => ctx.violation("export_construct", "lifecyclesToKeep", cj, e),
                    Ok(Ok(())) => {
                        let bytes = std::fs::read(&path).unwrap_or_default();
                        let mut keys: Vec<(u64, u32, u8, Vec<u8>)> = adlt::utils::DltMessageIterator::new(0, &bytes[..])
                            .filter(|m| !(m.apid().map(|a| a.as_buf() == b"VsDl").unwrap_or(false) && m.ctid().map(|c| c.as_buf() == b"Info").unwrap_or(false)))
                            .map(|m| (m.reception_time_us, m.timestamp_dms, m.standard_header.mcnt, m.payload.clone()))
                            .collect();
                        keys.sort();
                        let in_kept = |i: usize| real.iter().position(|r| r.0 == (fx.st[i].ecu, fx.st[i].lc)).map(|p| kept[p]).unwrap_or(false);
                        let stmt: Vec<bool> = (0..n).map(|i| spec_keep(&set, i, true, false, false)).collect();
                        let mut want: Vec<(u64, u32, u8, Vec<u8>)> = (0..n).filter(|i| stmt[*i] && in_kept(*i)).map(|i| { let m = &msgs[i]; (m.reception_time_us, m.timestamp_dms, m.standard_header.mcnt, m.payload.clone()) }).collect();
                        want.sort();
                        let vetoed_in_kept = (0..n).filter(|i| in_kept(*i) && !stmt[*i]).count();
                        if vetoed_in_kept > 0 && !want.is_empty() {
                            ctx.landmark("keep_lifecycles_and_filters_both_decide");
                        }
                        if set.iter().any(|p| p.af.enabled && p.af.kind == 1 && p.af.lifecycles.is_some()) {
                            ctx.landmark("keep_lifecycles_with_negative_lifecycle_filter");
                        }
                        ctx.outcome(fnv_str(&format!("{keep}:{:?}", want.iter().map(|w| w.1).collect::<Vec<_>>())));
                        ctx.eval(!want.is_empty() && want.len() < n);
                        ctx.sample(cj);
                        if keys != want {
                            let extra = keys.iter().filter(|k| !want.contains(k)).count();
                            ctx.violation("export_selection", if extra > 0 { "lifecycles_to_keep:exported_other" } else { "lifecycles_to_keep:exported_too_few" }, cj, format!("lifecyclesToKeep {:?}: the export plugin wrote {} messages ({} of them not to be kept), the statement keeps {} of the {} messages of the kept lifecycles", to_keep, keys.len(), extra, want.len(), (0..n).filter(|i| in_kept(*i)).count()));
                        }
                    }
                }
                !(ctx.sum.evaluations % 256 == 0 && ctx.out_of_time())
            });
            if !fin {
                done = false;
                break 'o;
            }
        }
    }
    let _ = std::fs::remove_file(&path);
    ctx.end_family(done);
}

pub struct C12;

impl Prop for C12 {
    fn meta(&self, _tier: Tier) -> Meta {
        Meta {
            id: "C12",
            level: "exploration",
            rule: "all ordered tuples (superset of the multisets) of <= k filters from a pool of 20 (positive / negative / event / marker x enabled / disabled x plain / negated, overlapping ECU / APID / payload / lifecycle criteria) x a 30-message stream (2 ECUs x {no extended header, 2 APIDs} x 2 lifecycles x 2 texts + 6 repeated messages), through filter_as_streams, through match_filters on the container built by StreamContext::from, and through the remote stream path process_stream_new_msgs (called like the server loop, chunk limits 1 / 7 / unlimited; as a query with a small window, batched arrival and a later window enlargement); searches: the paged stream_search sessions of the C16 explorer (stream filter set x search filter set x page size x start, following next_search_idx) on the real server handlers. Oracle from the statement (single-filter decisions from the independent C11 evaluator): selection, forwarded messages equal to the received ones, original order, passed + filtered = received and passed = number forwarded, event clause for match_filters, agreement of both implementations when no enabled event filter is present. A case is non-trivial when the statement keeps some but not all messages.".into(),
            assumptions: vec![
                "filter_as_streams is the convert path: the statement's event clause ('for streams and searches') is applied to match_filters only".into(),
                "the export plugin is driven for filter sets of up to 2 (thorough 3) filters: the file it writes (without its info messages) must hold exactly the messages the statement keeps; with 'lifecyclesToKeep' (family export_lifecycles_to_keep: 4 real lifecycles in an evmap, every subset of them to keep incl. the empty list = no restriction (quick 7), the lifecycle infos bracket exactly one lifecycle each) exactly those of them that belong to a kept lifecycle".into(),
                "the error path of filter_as_streams (downstream send fails) is outside the statement".into(),
            ],
            budget_s: (90, 1200),
            workers: 0,
            required_landmarks: vec![
                "positive_or_decides",
                "negative_veto_decides",
                "event_clause_decides",
                "no_enabled_positive_keeps",
                "disabled_filter_would_change_selection",
                "marker_would_change_selection_if_positive",
                "negated_filter_in_set",
                "same_filter_twice",
                "agreement_checked(no_enabled_event_filter)",
                "server_search",
                "keep_lifecycles_and_filters_both_decide",
                "keep_lifecycles_with_negative_lifecycle_filter",
            ],
        }
    }

    fn run(&self, ctx: &mut Ctx) {
        EXPORT_MAX_SET.store(ctx.tier.pick(2, 3), std::sync::atomic::Ordering::Relaxed);
        let fx = Fixture::new();
        ctx.extra_set("stream_messages", json!(fx.msgs.len()));
        ctx.extra_set("pool", json!(fx.pool.iter().map(|p| p.name).collect::<Vec<_>>()));
        let kmax = ctx.tier.pick(4, 6);
        let np = fx.pool.len();
        // the bounded families first (the tuple enumeration below is the one that may run into the time cap)
        export_keep_family(ctx, &fx);
        // searches on the real server handlers
        crate::c16::search_family(ctx);
        for k in 0..=kmax {
            ctx.begin_family("ordered_tuples", &format!("k={k} pool={np}"));
            let done = enumr::sequences(k, np, |ix| {
                if ctx.mine() {
                    let set: Vec<&PoolEntry> = ix.iter().map(|i| &fx.pool[*i]).collect();
                    run_case(ctx, &fx, "ordered_tuples", &set);
                    if ctx.sum.evaluations % 1024 == 0 && ctx.out_of_time() {
                        return false;
                    }
                }
                true
            });
            ctx.end_family(done);
            if !done {
                return;
            }
        }
    }

    fn prepare(&self, _t: Tier) -> Result<(), String> {
        crate::rem::build_adlt_bin()
    }
    fn replay(&self, case: &Value, ctx: &mut Ctx) {
        if case["family"] == "server_search" {
            ctx.mine();
            crate::c16::replay_scenario(case, ctx);
            return;
        }
        let fx = Fixture::new();
        let set: Vec<&PoolEntry> = case["filters"]
            .as_array()
            .expect("filters")
            .iter()
            .map(|n| fx.pool.iter().find(|p| p.name == n.as_str().unwrap()).expect("pool name"))
            .collect();
        ctx.mine();
        run_case(ctx, &fx, case["family"].as_str().unwrap_or("replay"), &set);
    }
}
