//! C10 — `buffer_sort_messages`: the output is a permutation of the input (always), and ordered by calculated time
//! (ties in original order) whenever reception times never decrease and no message is delayed by more than the
//! configured minimum buffering delay.
//!
//! Bounded exhaustive exploration: every stream of <= L symbols over per-family alphabets (ECU x lifecycle x
//! reception step x timestamp/delay grid x kind) x window size x minimum delay x lifecycle table is run on the real
//! function with a real evmap table of `Lifecycle::new` objects. The generator classifies every case into
//! "premise holds" / "premise does not hold" / "calculated time undefined (unknown lifecycle)"; O1 is checked on all
//! of them, O2 only where the premise holds.
use crate::core::dltgen::{mk_msg, CTRL_REQUEST_NV, MTIN_LOG_INFO_V};
use crate::core::*;
use adlt::dlt::DltMessage;
use adlt::lifecycle::{Lifecycle, LifecycleId, LifecycleItem};
use adlt::utils::buffer_sort_messages;
use serde_json::{json, Value};
use std::cell::RefCell;
use std::collections::BTreeMap;

const MS: u64 = 1_000;
const S: u64 = 1_000_000;
const BASE: u64 = 100_000 * S;
const U32MAX_S: u64 = u32::MAX as u64 * S;

const LC_NAMES: [&str; 6] = ["A1", "A2", "AU", "B1", "B2", "BU"];

#[derive(Clone, Copy, Debug, PartialEq, Eq)]
pub enum Ts {
    /// absolute timestamp in ms
    Abs(u32),
    /// timestamp chosen so that the message is `ms` late (reception - (lifecycle start + timestamp)); clamped at 0.
    /// For an unknown lifecycle the start is taken as 0.
    Delay(u32),
}
#[derive(Clone, Copy, Debug, PartialEq, Eq)]
pub struct Sym {
    /// index into LC_NAMES (A1 A2 AU B1 B2 BU; xU = an id that is not in the table)
    pub lc: u8,
    pub step_ms: i32,
    pub ts: Ts,
    /// control request (the statement's calculated time is the reception time)
    pub ctrl: bool,
    /// message type byte of a message that is no control request: 0 = verbose log info, otherwise the byte itself
    /// (control response 0x26, control messages with the reserved type-info values 0 and 7: 0x06, 0x76)
    pub other: u8,
}
impl Sym {
    pub fn name(&self) -> String {
        let (k, v) = match self.ts {
            Ts::Abs(v) => ('a', v),
            Ts::Delay(v) => ('d', v),
        };
        format!("{}{:+}ms:{}{}:{}", LC_NAMES[self.lc as usize], self.step_ms, k, v, match (self.ctrl, self.other) {
            (true, _) => "c".to_string(),
            (false, 0) => "n".to_string(),
            (false, b) => format!("t{b:02x}"),
        })
    }
    pub fn parse(s: &str) -> Option<Sym> {
        let lc = LC_NAMES.iter().position(|n| s.starts_with(n))? as u8;
        let rest = &s[2..];
        let (step, rest) = rest.split_once("ms:")?;
        let (ts, kind) = rest.split_once(':')?;
        let v: u32 = ts[1..].parse().ok()?;
        let ts = match ts.as_bytes()[0] {
            b'a' => Ts::Abs(v),
            b'd' => Ts::Delay(v),
            _ => return None,
        };
        let other = kind.strip_prefix('t').and_then(|h| u8::from_str_radix(h, 16).ok()).unwrap_or(0);
        Some(Sym { lc, step_ms: step.parse().ok()?, ts, ctrl: kind == "c", other })
    }
}

#[derive(Clone, Copy, Debug, PartialEq, Eq, PartialOrd, Ord)]
pub enum TableKind {
    /// A1 = base-1s, A2 = base+2s, B1 = base-2s, B2 = base
    Std,
    /// A1 = base, A2 = base-5s (older than A1), B1 = B2 = base-1s
    Overlap,
    /// no entry at all (every id is unknown)
    Empty,
    /// A1 = 0, A2 = u32::MAX s, B1 = B2 = base
    Extreme,
    /// A1 = base-1s; A2 = a lifecycle *resumed* from A1 (created by Lifecycle::update on a reception gap) whose start
    /// estimate lies before A1's: base-5s; B1 = base-2s, B2 = base
    Resume,
}
impl TableKind {
    fn name(&self) -> &'static str {
        match self {
            TableKind::Std => "std",
            TableKind::Overlap => "overlap",
            TableKind::Empty => "empty",
            TableKind::Extreme => "extreme",
            TableKind::Resume => "resume",
        }
    }
    fn parse(s: &str) -> Option<TableKind> {
        Some(match s {
            "std" => TableKind::Std,
            "overlap" => TableKind::Overlap,
            "empty" => TableKind::Empty,
            "extreme" => TableKind::Extreme,
            "resume" => TableKind::Resume,
            _ => return None,
        })
    }
    /// start times of A1, A2, B1, B2 (None = not in the table)
    fn starts(&self, base: u64) -> [Option<u64>; 4] {
        match self {
            TableKind::Std => [
                Some(base.saturating_sub(S)),
                Some(base + 2 * S),
                Some(base.saturating_sub(2 * S)),
                Some(base),
            ],
            TableKind::Overlap => [
                Some(base),
                Some(base.saturating_sub(5 * S)),
                Some(base.saturating_sub(S)),
                Some(base.saturating_sub(S)),
            ],
            TableKind::Empty => [None; 4],
            TableKind::Extreme => [Some(0), Some(U32MAX_S), Some(base), Some(base)],
            TableKind::Resume => [Some(base.saturating_sub(S)), Some(base.saturating_sub(5 * S)), Some(base.saturating_sub(2 * S)), Some(base)],
        }
    }
}

type Lr = evmap::ReadHandle<LifecycleId, LifecycleItem, (), nohash_hasher::BuildNoHashHasher<LifecycleId>>;
type Lw = evmap::WriteHandle<LifecycleId, LifecycleItem, (), nohash_hasher::BuildNoHashHasher<LifecycleId>>;

/// a real lifecycle table + the ids/start times behind the six symbolic lifecycles
pub struct Table {
    r: Lr,
    _w: Lw,
    /// per LC_NAMES entry: (id carried by the messages, start time if the id is in the table)
    lcs: [(LifecycleId, Option<u64>); 6],
}
fn ecu_of(lc: u8) -> [u8; 4] {
    if lc < 3 {
        *b"ECUA"
    } else {
        *b"ECUB"
    }
}
fn build_table(kind: TableKind, base: u64) -> Table {
    let (r, mut w) = evmap::Options::default()
        .with_hasher(nohash_hasher::BuildNoHashHasher::<LifecycleId>::default())
        .construct::<LifecycleId, LifecycleItem>();
    let starts = kind.starts(base);
    let mut lcs = [(0u32, None); 6];
    for lc in 0..6u8 {
        // slot in `starts`: A1 A2 - B1 B2 -
        let slot = match lc {
            0 => Some(0),
            1 => Some(1),
            3 => Some(2),
            4 => Some(3),
            _ => None,
        };
        let start = slot.and_then(|s| starts[s]);
        // a real lifecycle object, created from a message of that ECU received at the wanted start time
        let mut m = mk_msg(0, &ecu_of(lc), start.unwrap_or(base), 0, true, Some((MTIN_LOG_INFO_V, 0, *b"APID", *b"CTID")), vec![]);
        let mut l = Lifecycle::new(&mut m);
        if kind == TableKind::Resume && lc == 1 {
            // A2 as the detector creates a resumed lifecycle: a message of ECUA 20 s after the last one of A1 with a
            // continuing timestamp; its start estimate is then moved before A1's (as later, less delayed messages do)
            let mut m1 = mk_msg(0, &ecu_of(0), base, 10_000, true, Some((MTIN_LOG_INFO_V, 0, *b"APID", *b"CTID")), vec![]);
            let mut a1 = Lifecycle::new(&mut m1);
            let mut m2 = mk_msg(1, &ecu_of(0), base + 20 * S, 20_000, true, Some((MTIN_LOG_INFO_V, 0, *b"APID", *b"CTID")), vec![]);
            match a1.update(&mut m2, 60 * S) {
                Some(r) if r.is_resume() => l = r,
                _ => panic!("harness: the detector did not create a resumed lifecycle"),
            }
            // the origin's start as recorded in the resume info must not be later than A2's start for the case to be interesting
            assert!(l.resume_start_time() >= l.start_time, "harness: resume info");
        }
        if let Some(st) = start {
            l.start_time = st;
            w.insert(l.id(), l.clone());
        }
        lcs[lc as usize] = (l.id(), start);
    }
    w.refresh();
    Table { r, _w: w, lcs }
}

#[derive(Default)]
pub struct Env {
    tables: BTreeMap<(TableKind, u64), Table>,
}
impl Env {
    fn table(&mut self, kind: TableKind, base: u64) -> &Table {
        self.tables.entry((kind, base)).or_insert_with(|| build_table(kind, base))
    }
}

#[derive(Clone, Debug)]
pub struct Case {
    pub family: String,
    pub table: TableKind,
    pub base_us: u64,
    pub window_s: u8,
    pub min_delay_us: u64,
    pub syms: Vec<Sym>,
    /// message indices as sent: 0 = position in the stream, 1 = all 0 (index-less sources), 2 = every ECU numbers from 0
    /// (merged sources). The oracle identifies messages by their payload tag and judges the order only in mode 0.
    pub index_mode: u8,
    /// Some((k, ms)): the producer runs in its own thread and pauses ms milliseconds (wall clock) before sending message k;
    /// None: the channel is filled before the sorter starts
    pub pause: Option<(usize, u32)>,
}
impl Case {
    fn json(&self) -> Value {
        json!({"family": self.family, "table": self.table.name(), "base_us": self.base_us, "window_s": self.window_s,
            "min_delay_us": self.min_delay_us, "index_mode": self.index_mode, "producer_pause_before_msg_ms": self.pause.map(|(k, ms)| json!([k, ms])), "msgs": self.syms.iter().map(|s| s.name()).collect::<Vec<_>>()})
    }
    fn parse(v: &Value) -> Option<Case> {
        Some(Case {
            family: v["family"].as_str().unwrap_or("replay").into(),
            table: TableKind::parse(v["table"].as_str()?)?,
            base_us: v["base_us"].as_u64()?,
            window_s: v["window_s"].as_u64()? as u8,
            min_delay_us: v["min_delay_us"].as_u64()?,
            syms: v["msgs"].as_array()?.iter().map(|s| Sym::parse(s.as_str()?)).collect::<Option<Vec<_>>>()?,
            index_mode: v["index_mode"].as_u64().unwrap_or(0) as u8,
            pause: v["producer_pause_before_msg_ms"].as_array().map(|a| (a[0].as_u64().unwrap_or(0) as usize, a[1].as_u64().unwrap_or(0) as u32)),
        })
    }
}

/// values of `Sym::other` that select a header shape instead of a message type byte
pub const NO_EXT_HEADER: u8 = 0xFD;
pub const NO_TIMESTAMP: u8 = 0xFE;

/// symbols -> messages (index = position, payload = position)
fn gen_stream(t: &Table, base: u64, syms: &[Sym]) -> Vec<DltMessage> {
    let mut now = base;
    let mut out = Vec::with_capacity(syms.len());
    for (i, sy) in syms.iter().enumerate() {
        if sy.step_ms >= 0 {
            now += sy.step_ms as u64 * MS;
        } else {
            now = now.saturating_sub((-sy.step_ms) as u64 * MS);
        }
        let (id, start) = t.lcs[sy.lc as usize];
        let ts_us = match sy.ts {
            Ts::Abs(ms) => ms as u64 * MS,
            Ts::Delay(ms) => now.saturating_sub(start.unwrap_or(0)).saturating_sub(ms as u64 * MS),
        };
        let mut ts_dms = (ts_us / 100).min(u32::MAX as u64) as u32;
        let kind = if sy.ctrl {
            CTRL_REQUEST_NV
        } else if sy.other != 0 && sy.other < NO_EXT_HEADER {
            sy.other
        } else {
            MTIN_LOG_INFO_V
        };
        // header shapes of a normal message: without the timestamp field (its timestamp is 0, so the statement's
        // calculated time is the lifecycle start) and without an extended header (no message type at all)
        let with_tmsp = sy.other != NO_TIMESTAMP;
        if !with_tmsp {
            ts_dms = 0;
        }
        let ext = if sy.other == NO_EXT_HEADER { None } else { Some((kind, 0, *b"APID", *b"CTID")) };
        let mut m = mk_msg(i as u32, &ecu_of(sy.lc), now, ts_dms, with_tmsp, ext, vec![i as u8]);
        m.lifecycle = id;
        out.push(m);
    }
    out
}

/// the statement's calculated time; None = not defined by the statement (normal message of an unknown lifecycle)
fn model_calc(m: &DltMessage, start: Option<u64>, ctrl: bool) -> Option<u64> {
    if ctrl {
        Some(m.reception_time_us)
    } else {
        start.map(|s| s.saturating_add(m.timestamp_dms as u64 * 100).min(m.reception_time_us))
    }
}

pub fn run_case(ctx: &mut Ctx, env: &mut Env, case: &Case) {
    let cj = || case.json();
    let t = env.table(case.table, case.base_us);
    let msgs = gen_stream(t, case.base_us, &case.syms);
    let n = msgs.len();
    // ---- run the real function on a pre-filled channel
    let (tx, rx) = std::sync::mpsc::channel();
    let mut per_ecu = [0u32; 2];
    let sent_index: Vec<u32> = msgs
        .iter()
        .zip(case.syms.iter())
        .map(|(m, sy)| match case.index_mode {
            0 => m.index,
            1 => 0,
            _ => {
                let e = (sy.lc / 3) as usize;
                per_ecu[e] += 1;
                per_ecu[e] - 1
            }
        })
        .collect();
    let to_send: Vec<DltMessage> = msgs
        .iter()
        .zip(sent_index.iter())
        .map(|(m, ix)| {
            let mut m = m.clone();
            m.index = *ix;
            m
        })
        .collect();
    let producer = match case.pause {
        None => {
            for m in to_send {
                tx.send(m).unwrap();
            }
            drop(tx);
            None
        }
        Some((k, ms)) => {
            ctx.landmark("paced_producer");
            Some(std::thread::spawn(move || {
                for (i, m) in to_send.into_iter().enumerate() {
                    if i == k {
                        std::thread::sleep(std::time::Duration::from_millis(ms as u64));
                    }
                    if tx.send(m).is_err() {
                        break;
                    }
                }
            }))
        }
    };
    if case.index_mode != 0 {
        ctx.landmark("duplicate_indices");
    }
    let out: RefCell<Vec<DltMessage>> = RefCell::new(Vec::with_capacity(n));
    let res = catch(|| {
        buffer_sort_messages(
            rx,
            &|m: DltMessage| {
                out.borrow_mut().push(m);
                Ok(())
            },
            &t.r,
            case.window_s,
            case.min_delay_us,
        )
    });
    if let Some(p) = producer {
        let _ = p.join();
    }
    let mut out = out.into_inner();
    ctx.transitions(n as u64);
    // identify the delivered messages by their payload tag and give them their position as index again
    let mut index_changed = None;
    if case.index_mode != 0 {
        for m in out.iter_mut() {
            let p = m.payload.first().copied().unwrap_or(255) as usize;
            if p < n && m.index != sent_index[p] {
                index_changed = Some((p, m.index, sent_index[p]));
            }
            m.index = p as u32;
        }
    }

    // ---- classification (premise of the ordering clause), from the generated values only
    let calcs: Vec<Option<u64>> =
        msgs.iter().zip(case.syms.iter()).map(|(m, sy)| model_calc(m, t.lcs[sy.lc as usize].1, sy.ctrl)).collect();
    let undefined = calcs.iter().any(|c| c.is_none());
    let decreasing = msgs.windows(2).any(|w| w[1].reception_time_us < w[0].reception_time_us);
    let over = msgs.iter().zip(calcs.iter()).any(|(m, c)| match c {
        Some(c) => m.reception_time_us - c > case.min_delay_us,
        None => false,
    });
    #[derive(PartialEq)]
    enum Class {
        Undefined,
        Decreasing,
        Over,
        Holds,
    }
    let class = if undefined {
        ctx.landmark("o2_undefined_unknown_lifecycle");
        Class::Undefined
    } else if decreasing {
        ctx.landmark("o2_premise_fails_reception_decreases");
        Class::Decreasing
    } else if over {
        ctx.landmark("o2_premise_fails_delay_above_minimum");
        Class::Over
    } else {
        ctx.landmark("o2_premise_holds");
        Class::Holds
    };
    // calculated times with start 0 for unknown ids (what the code does) — only used for landmarks
    let calc0: Vec<u64> = msgs
        .iter()
        .zip(calcs.iter())
        .map(|(m, c)| c.unwrap_or_else(|| (m.timestamp_dms as u64 * 100).min(m.reception_time_us)))
        .collect();
    let needs_reorder = (1..n).any(|i| calc0[i] < calc0[i - 1]);
    let has_tie = {
        let mut c = calc0.clone();
        c.sort();
        c.windows(2).any(|w| w[0] == w[1])
    };
    let nontrivial = n >= 2 && (needs_reorder || has_tie);
    if class == Class::Holds {
        if needs_reorder {
            ctx.landmark("premise_holds_and_input_not_in_calc_order");
        }
        if has_tie && n >= 2 {
            ctx.landmark("premise_holds_with_calc_time_tie");
        }
    }
    if case.syms.iter().any(|s| s.ctrl) {
        ctx.landmark("control_request");
    }
    {
        let mut ecus = [false; 2];
        let mut lcs = [false; 6];
        for s in &case.syms {
            ecus[(s.lc / 3) as usize] = true;
            lcs[s.lc as usize] = true;
        }
        if ecus[0] && ecus[1] {
            ctx.landmark("two_ecus");
        }
        if (lcs[0] && lcs[1]) || (lcs[3] && lcs[4]) {
            ctx.landmark("two_lifecycles_one_ecu");
        }
    }
    ctx.eval(nontrivial);
    ctx.sample(cj);

    let describe = |v: &[DltMessage]| -> String {
        v.iter()
            .map(|m| {
                let p = m.index as usize;
                format!("#{}(r={} calc={})", m.index, m.reception_time_us as i128 - case.base_us as i128,
                    calc0.get(p).map(|c| (*c as i128 - case.base_us as i128).to_string()).unwrap_or("?".into()))
            })
            .collect::<Vec<_>>()
            .join(" ")
    };

    // ---- landmarks from the relative order of whatever was delivered (computed before the oracles so that a
    // violation cannot starve them)
    {
        let g: Vec<usize> = out.iter().map(|m| m.index as usize).filter(|p| *p < n).collect();
        if g.windows(2).any(|w| w[0] > w[1]) {
            ctx.landmark("output_reordered");
        }
        if g.windows(2).any(|w| (calc0[w[0]], w[0]) > (calc0[w[1]], w[1])) {
            // not what a sort of the whole stream would give => something was released before the end of the input
            ctx.landmark("early_release_observable(output_not_fully_sorted)");
            if class == Class::Over {
                ctx.landmark("premise_fails_and_output_unsorted");
            }
        }
    }
    // ---- O1: permutation (all cases)
    match res {
        Err(p) => {
            ctx.violation("panic", &p.loc, &cj, format!("{} (messages are lost)", p.msg));
            return;
        }
        Ok(Err(e)) => {
            ctx.violation("permutation", "send_error", &cj, format!("returned a send error although the outflow never fails: {:?}", e));
            return;
        }
        Ok(Ok(())) => {}
    }
    if let Some((p, got, sent)) = index_changed {
        ctx.violation("permutation", "altered", &cj, format!("message #{p} was sent with index {sent} and delivered with index {got}"));
        return;
    }
    let mut seen = vec![0u32; n];
    for m in &out {
        let p = m.index as usize;
        if p >= n || m.payload != [p as u8] {
            ctx.violation("permutation", "altered", &cj, format!("output message {:?} is no input message", m));
            return;
        }
        seen[p] += 1;
        if *m != msgs[p] {
            ctx.violation("permutation", "altered", &cj, format!("output {:?} != input {:?}", m, msgs[p]));
            return;
        }
    }
    if let Some(p) = seen.iter().position(|c| *c > 1) {
        ctx.violation("permutation", "duplicated", &cj, format!("message #{p} delivered {} times: {}", seen[p], describe(&out)));
        return;
    }
    if let Some(p) = seen.iter().position(|c| *c == 0) {
        ctx.violation("permutation", "lost", &cj, format!("message #{p} never delivered: {}", describe(&out)));
        return;
    }
    // outcome: the permutation + class
    {
        let mut s = String::new();
        for m in &out {
            s.push_str(&format!("{},", m.index));
        }
        s.push_str(match class {
            Class::Undefined => "U",
            Class::Decreasing => "D",
            Class::Over => "O",
            Class::Holds => "H",
        });
        ctx.outcome(fnv_str(&s));
    }
    let got: Vec<usize> = out.iter().map(|m| m.index as usize).collect();
    // ---- O2: ordered by (calculated time, original position) where the premise holds
    if class == Class::Holds && case.index_mode == 0 {
        let mut expect: Vec<usize> = (0..n).collect();
        expect.sort_by_key(|p| (calcs[*p].unwrap(), *p));
        if got != expect {
            // first adjacent pair in the wrong order
            let mut disc = "calc_time_order";
            for w in got.windows(2) {
                let (a, b) = (w[0], w[1]);
                let (ca, cb) = (calcs[a].unwrap(), calcs[b].unwrap());
                if ca > cb {
                    disc = "calc_time_order";
                    break;
                }
                if ca == cb && a > b {
                    disc = "tie_not_in_original_order";
                    break;
                }
            }
            ctx.violation("order", disc, &cj, format!("premise holds (receptions non-decreasing, every delay <= {} us) but output is {} ; expected order {:?}", case.min_delay_us, describe(&out), expect));
        }
    }
}

// ------------------------------------------------------------------ alphabets
fn alphabet(lcs: &[u8], steps: &[i32], tss: &[Ts], kinds: &[bool]) -> Vec<Sym> {
    let mut v = vec![];
    for lc in lcs {
        for st in steps {
            for ts in tss {
                for k in kinds {
                    // the delay grid is meaningless for ids without a start time: use it as absolute timestamp there
                    let ts = match (*ts, *lc == 2 || *lc == 5) {
                        (Ts::Delay(d), true) => Ts::Abs(d),
                        (t, _) => t,
                    };
                    let s = Sym { lc: *lc, step_ms: *st, ts, ctrl: *k, other: 0 };
                    if !v.contains(&s) {
                        v.push(s);
                    }
                }
            }
        }
    }
    v
}

pub struct C10;

struct Fam<'a> {
    name: &'a str,
    table: TableKind,
    base: u64,
    sigma: Vec<Sym>,
    sigma_desc: &'a str,
    min_len: usize,
    max_len: usize,
    windows: &'a [u8],
    delays: Vec<u64>,
}

fn run_family(ctx: &mut Ctx, env: &mut Env, f: &Fam) -> bool {
    for len in f.min_len..=f.max_len {
        ctx.begin_family(
            f.name,
            &format!("len={len} |sigma|={} ({}) table={} base={}us windows={:?}s min_delays={:?}us", f.sigma.len(), f.sigma_desc, f.table.name(), f.base, f.windows, f.delays),
        );
        let done = enumr::sequences(len, f.sigma.len(), |ix| {
            for w in f.windows {
                for d in &f.delays {
                    for im in if len <= 3 { &[0u8, 1, 2][..] } else { &[0u8][..] } {
                        if ctx.mine() {
                            let case = Case {
                                family: f.name.into(),
                                table: f.table,
                                base_us: f.base,
                                window_s: *w,
                                min_delay_us: *d,
                                syms: ix.iter().map(|i| f.sigma[*i]).collect(),
                                index_mode: *im,
                                pause: None,
                            };
                            run_case(ctx, env, &case);
                        }
                    }
                }
            }
            !(ctx.sum.evaluations % 2048 == 0 && ctx.out_of_time())
        });
        ctx.end_family(done);
        if !done {
            return false;
        }
    }
    true
}

impl C10 {
    /// longer streams (the window really slides): default symbol "A1, 1.001 s later, on time", all streams of length
    /// L with <= k deviations from it
    fn deviation_family(&self, ctx: &mut Ctx, env: &mut Env, plans: &[(usize, usize)]) -> bool {
        let sigma = alphabet(
            &[0, 3, 1],
            &[1001, 0, 3000],
            &[Ts::Delay(0), Ts::Delay(1000), Ts::Delay(2000), Ts::Delay(20_000)],
            &[false],
        );
        let windows: &[u8] = &[1, 2, 3, 4];
        let delays: &[u64] = &[S, 20 * S];
        for &(len, kmax) in plans {
            for k in 0..=kmax {
                ctx.begin_family(
                    "long_stream_deviations",
                    &format!("L={len} deviations={k} |sigma|={} ({{A1,B1,A2}} x steps {{1.001s,0,3s}} x late by {{0,1s,2s,20s}}; default {}) table=std windows={:?}s min_delays={:?}us", sigma.len(), sigma[0].name(), windows, delays),
                );
                let done = enumr::deviations_exact(len, k, sigma.len(), 0, &mut |ix| {
                    for w in windows {
                        for d in delays {
                            for im in if k <= 1 { &[0u8, 1][..] } else { &[0u8][..] } {
                                if ctx.mine() {
                                    let case = Case {
                                        family: "long_stream_deviations".into(),
                                        table: TableKind::Std,
                                        base_us: BASE,
                                        window_s: *w,
                                        min_delay_us: *d,
                                        syms: ix.iter().map(|i| sigma[*i]).collect(),
                                        index_mode: *im,
                                        pause: None,
                                    };
                                    run_case(ctx, env, &case);
                                }
                            }
                        }
                    }
                    !(ctx.sum.evaluations % 2048 == 0 && ctx.out_of_time())
                });
                ctx.end_family(done);
                if !done {
                    return false;
                }
            }
        }
        true
    }
}

impl Prop for C10 {
    fn meta(&self, _tier: Tier) -> Meta {
        Meta {
            id: "C10",
            level: "exploration",
            rule: "every stream of <= L messages over per-family alphabets (ECU {A,B} x lifecycle {known1, known2, id not in the table} x reception step {0, 1 s, 5 s, -1 s, ..} x timestamp grid {0, 1 s, 2 s, 30 s} or lateness grid {0, 1 s, 2 s, 20 s, 30 s} x {normal, control request}) x window {1,3,255 (2,4)} s x minimum delay {0, 1 s, 20 s} x message index mode {position, all 0, every ECU numbering from 0 - streams up to length 3 and long streams with <= 1 deviation; messages are identified by a payload tag, order judged in position mode only} x lifecycle table (real Lifecycle objects in an evmap) is run through the real buffer_sort_messages. O1 (all cases): returns Ok and the output is a permutation of the input with every field equal. Every case is classified: premise holds (receptions never decrease, every reception - calculated time <= minimum delay) / reception decreases / a delay exceeds the minimum / calculated time undefined (normal message whose lifecycle id is not in the table); O2 (premise holds): output order = stable sort by calculated time (lifecycle start + timestamp capped at reception; reception for control requests). A case is non-trivial when sorting has something to do (input not in calculated-time order, or a tie).".into(),
            assumptions: vec![
                "alphabets, lengths, windows, delays and tables as listed under coverage.families; window sizes >= 1 s only".into(),
                "message indices ascend with the position in the stream; the lifecycle table does not change while the function runs".into(),
                "message and lifecycle values stay within what the parsers/lifecycle detection can produce (reception <= u32::MAX s, lifecycle start <= reception)".into(),
                "normal messages whose lifecycle id is not in the table: the statement does not define their calculated time; such streams are checked for O1 only".into(),
            ],
            budget_s: (90, 1200),
            workers: 0,
            required_landmarks: vec![
                "o2_premise_holds",
                "paced_producer",
                "duplicate_indices",
                "o2_premise_fails_reception_decreases",
                "o2_premise_fails_delay_above_minimum",
                "o2_undefined_unknown_lifecycle",
                "premise_holds_and_input_not_in_calc_order",
                "premise_holds_with_calc_time_tie",
                "output_reordered",
                "early_release_observable(output_not_fully_sorted)",
                "premise_fails_and_output_unsorted",
                "control_request",
                "two_ecus",
                "two_lifecycles_one_ecu",
            ],
        }
    }

    fn run(&self, ctx: &mut Ctx) {
        let thorough = ctx.tier == Tier::Thorough;
        let mut env = Env::default();
        let w3: &[u8] = &[1, 3, 255];
        let d3: &[u64] = &[0, S, 20 * S];
        let dx: &[u64] = &[0, S, U32MAX_S];
        let abs4 = [Ts::Abs(0), Ts::Abs(1000), Ts::Abs(2000), Ts::Abs(30_000)];
        let absx = [Ts::Abs(0), Ts::Abs(1000), Ts::Abs(429_496_729)];
        let late5 = [Ts::Delay(0), Ts::Delay(1000), Ts::Delay(2000), Ts::Delay(20_000), Ts::Delay(30_000)];
        let late3 = [Ts::Delay(0), Ts::Delay(2000), Ts::Delay(20_000)];
        let late2 = [Ts::Delay(0), Ts::Delay(2000)];
        let late4 = [Ts::Delay(0), Ts::Delay(1000), Ts::Delay(2000), Ts::Delay(20_000)];
        let f = |name: &'static str, table: TableKind, base: u64, sigma: Vec<Sym>, sigma_desc: &'static str, lens: (usize, usize), windows: &'static [u8], delays: &[u64]| Fam {
            name,
            table,
            base,
            sigma,
            sigma_desc,
            min_len: lens.0,
            max_len: lens.1,
            windows,
            delays: delays.to_vec(),
        };
        const W3: &[u8] = &[1, 3, 255];
        const W4: &[u8] = &[1, 2, 3, 4];
        use TableKind::*;
        // ---- pass 1 (both tiers): every family at its small bound
        let pass1: Vec<Fam> = vec![
            // the full design alphabet, short streams
            f("full_alphabet", Std, BASE, alphabet(&[0, 1, 2, 3, 4, 5], &[0, 1000, 5000, -1000], &abs4, &[false, true]),
              "6 ids x steps {0,1s,5s,-1s} x abs ts {0,1s,2s,30s} x {normal,ctrl}", (1, 2), W3, d3),
            // one lifecycle, lateness grid around the minimum delays: the sliding-window logic
            f("one_lifecycle_lateness", Std, BASE, alphabet(&[0], &[0, 1000, 5000, -1000], &late5, &[false]),
              "A1 x steps {0,1s,5s,-1s} x late by {0,1s,2s,20s,30s} x normal", (1, 4), W3, d3),
            f("one_lifecycle_lateness", Std, BASE, alphabet(&[0], &[0, 1000, 5000], &late5, &[false]),
              "A1 x steps {0,1s,5s} x late by {0,1s,2s,20s,30s} x normal", (5, 5), W3, d3),
            // parallel lifecycles and ECUs, one unknown id
            f("parallel_lifecycles", Std, BASE, alphabet(&[0, 1, 3, 2], &[0, 1000, 5000], &late3, &[false]),
              "{A1,A2,B1,AU} x steps {0,1s,5s} x late by {0,2s,20s} (AU: abs ts) x normal", (1, 3), W3, d3),
            f("parallel_lifecycles", Std, BASE, alphabet(&[0, 1, 3, 2], &[0, 5000], &late3, &[false]),
              "{A1,A2,B1,AU} x steps {0,5s} x late by {0,2s,20s} (AU: abs ts) x normal", (4, 4), W3, d3),
            // control requests among normal messages
            f("control_requests", Std, BASE, alphabet(&[0, 3], &[0, 1000, -1000], &late2, &[false, true]),
              "{A1,B1} x steps {0,1s,-1s} x late by {0,2s} x {normal,ctrl}", (1, 4), W3, d3),
            // control messages that are no requests (response, reserved type-info values) are ordered like normal messages
            f("control_non_requests", Std, BASE, {
                let mut a = alphabet(&[0, 3], &[0, 1000], &late2, &[false, true]);
                for b in [0x26u8, 0x06, 0x76] {
                    let extra: Vec<Sym> = a.iter().filter(|s| !s.ctrl && s.other == 0).map(|s| Sym { other: b, ..*s }).collect();
                    a.extend(extra);
                }
                a
            }, "{A1,B1} x steps {0,1s} x late by {0,2s} x {normal, ctrl request, ctrl response, ctrl with reserved type 0 / 7}", (1, 3), W3, d3),
            // normal messages without the timestamp field (timestamp 0: calculated time = lifecycle start) and without
            // an extended header, among normal messages and control requests
            f("header_shapes", Std, BASE, {
                let mut a = alphabet(&[0, 3], &[0, 1000], &late3, &[false, true]);
                for b in [NO_TIMESTAMP, NO_EXT_HEADER] {
                    let extra: Vec<Sym> = a.iter().filter(|s| !s.ctrl && s.other == 0).map(|s| Sym { other: b, ..*s }).collect();
                    a.extend(extra);
                }
                a
            }, "{A1,B1} x steps {0,1s} x late by {0,2s,20s} x {normal, ctrl request, normal without timestamp field, normal without extended header}", (1, 3), W3, d3),
            // absolute timestamp grid over three lifecycles
            f("absolute_timestamps", Std, BASE, alphabet(&[0, 1, 3], &[0, 1000, 5000, -1000], &abs4, &[false]),
              "{A1,A2,B1} x steps {0,1s,5s,-1s} x abs ts {0,1s,2s,30s} x normal", (1, 3), W3, d3),
            // window bookkeeping: steps around the 1 s bucket size, more window sizes
            f("window_edges", Std, BASE, alphabet(&[0], &[999, 1000, 1001, 2000, 3000], &late4, &[false]),
              "A1 x steps {0.999s,1s,1.001s,2s,3s} x late by {0,1s,2s,20s} x normal", (1, 4), W4, &d3[1..]),
            // other lifecycle tables
            f("table_overlap", Overlap, BASE, alphabet(&[0, 1, 3, 4, 5], &[0, 1000], &late2, &[false, true]),
              "{A1,A2,B1,B2,BU} x steps {0,1s} x late by {0,2s} x {normal,ctrl}", (1, 3), W3, d3),
            f("table_empty", Empty, BASE, alphabet(&[0, 1, 3], &[0, 1000, -1000], &[Ts::Abs(0), Ts::Abs(2000)], &[false, true]),
              "{A1,A2,B1} (all unknown) x steps {0,1s,-1s} x abs ts {0,2s} x {normal,ctrl}", (1, 3), W3, d3),
            // a table with a resumed lifecycle whose start estimate lies before its origin's
            f("table_resume", Resume, BASE, alphabet(&[0, 1, 3], &[0, 1000, 5000], &late3, &[false, true]),
              "{A1,A2(resumed from A1, start before A1),B1} x steps {0,1s,5s} x late by {0,2s,20s} x {normal,ctrl}", (1, 3), W3, d3),
            // extreme but parser-reachable values
            f("extreme_values_base0", Extreme, 0, alphabet(&[0, 1, 3, 2], &[0, 1000, -1000], &absx, &[false, true]),
              "{A1(start 0),A2(start u32::MAX s),B1(start 0),AU} x steps {0,1s,-1s} x abs ts {0,1s,u32::MAX dms} x {normal,ctrl}", (1, 2), W3, dx),
            f("extreme_values_base_max", Extreme, U32MAX_S, alphabet(&[0, 1, 3, 2], &[0, 1000, -1000], &absx, &[false, true]),
              "{A1(start 0),A2(start u32::MAX s),B1(start base),AU} x steps {0,1s,-1s} x abs ts {0,1s,u32::MAX dms} x {normal,ctrl}", (1, 2), W3, dx),
        ];
        // ---- pass 2 (thorough): one level deeper, cheapest first
        let pass2: Vec<Fam> = vec![
            f("extreme_values_base0", Extreme, 0, alphabet(&[0, 1, 3, 2], &[0, 1000, -1000], &absx, &[false, true]),
              "{A1(start 0),A2(start u32::MAX s),B1(start 0),AU} x steps {0,1s,-1s} x abs ts {0,1s,u32::MAX dms} x {normal,ctrl}", (3, 3), W3, dx),
            f("extreme_values_base_max", Extreme, U32MAX_S, alphabet(&[0, 1, 3, 2], &[0, 1000, -1000], &absx, &[false, true]),
              "{A1(start 0),A2(start u32::MAX s),B1(start base),AU} x steps {0,1s,-1s} x abs ts {0,1s,u32::MAX dms} x {normal,ctrl}", (3, 3), W3, dx),
            f("table_empty", Empty, BASE, alphabet(&[0, 1, 3], &[0, 1000, -1000], &[Ts::Abs(0), Ts::Abs(2000)], &[false, true]),
              "{A1,A2,B1} (all unknown) x steps {0,1s,-1s} x abs ts {0,2s} x {normal,ctrl}", (4, 4), W3, d3),
            f("table_overlap", Overlap, BASE, alphabet(&[0, 1, 3, 4, 5], &[0, 1000], &late2, &[false, true]),
              "{A1,A2,B1,B2,BU} x steps {0,1s} x late by {0,2s} x {normal,ctrl}", (4, 4), W3, d3),
            f("parallel_lifecycles", Std, BASE, alphabet(&[0, 1, 3, 2], &[0, 1000, 5000], &late3, &[false]),
              "{A1,A2,B1,AU} x steps {0,1s,5s} x late by {0,2s,20s} (AU: abs ts) x normal", (4, 4), W3, d3),
            f("window_edges", Std, BASE, alphabet(&[0], &[999, 1000, 1001, 2000, 3000], &late4, &[false]),
              "A1 x steps {0.999s,1s,1.001s,2s,3s} x late by {0,1s,2s,20s} x normal", (5, 5), W4, &d3[1..]),
            f("one_lifecycle_lateness", Std, BASE, alphabet(&[0], &[0, 1000, 5000, -1000], &late5, &[false]),
              "A1 x steps {0,1s,5s,-1s} x late by {0,1s,2s,20s,30s} x normal", (5, 5), W3, d3),
            f("absolute_timestamps", Std, BASE, alphabet(&[0, 1, 3], &[0, 1000, 5000, -1000], &abs4, &[false]),
              "{A1,A2,B1} x steps {0,1s,5s,-1s} x abs ts {0,1s,2s,30s} x normal", (4, 4), W3, d3),
            f("full_alphabet", Std, BASE, alphabet(&[0, 1, 2, 3, 4, 5], &[0, 1000, 5000, -1000], &abs4, &[false, true]),
              "6 ids x steps {0,1s,5s,-1s} x abs ts {0,1s,2s,30s} x {normal,ctrl}", (3, 3), W3, d3),
            f("control_requests", Std, BASE, alphabet(&[0, 3], &[0, 1000, -1000], &late2, &[false, true]),
              "{A1,B1} x steps {0,1s,-1s} x late by {0,2s} x {normal,ctrl}", (5, 5), W3, d3),
            f("parallel_lifecycles", Std, BASE, alphabet(&[0, 1, 3, 2], &[0, 5000], &late3, &[false]),
              "{A1,A2,B1,AU} x steps {0,5s} x late by {0,2s,20s} (AU: abs ts) x normal", (5, 5), W3, d3),
            f("one_lifecycle_lateness", Std, BASE, alphabet(&[0], &[0, 1000, 5000], &late5, &[false]),
              "A1 x steps {0,1s,5s} x late by {0,1s,2s,20s,30s} x normal", (6, 6), W3, d3),
        ];
        // the empty stream
        ctx.begin_family("empty_stream", "len=0 windows=[1,3,255] min_delays=[0,1s,20s]");
        for w in w3 {
            for d in d3 {
                if ctx.mine() {
                    let case = Case { family: "empty_stream".into(), table: TableKind::Std, base_us: BASE, window_s: *w, min_delay_us: *d, index_mode: 0, pause: None, syms: vec![] };
                    run_case(ctx, &mut env, &case);
                }
            }
        }
        ctx.end_family(true);
        // a producer that pauses (wall clock) in the middle of the stream: the output is a function of the input
        // sequence, not of its pacing. Streams whose correct output reorders across the pause.
        {
            let sig = alphabet(&[0], &[1000], &late2, &[false]);
            let len = ctx.tier.pick(3, 4);
            ctx.begin_family("paced_producer", &format!("A1 x step 1s x late by {{0,2s}}: all streams of length {len} x a producer pause of 800 ms before message k = 1..{} x window 3 s x minimum delay 20 s (real threads, wall clock)", len - 1));
            enumr::sequences(len, sig.len(), |ix| {
                for k in 1..len {
                    if ctx.mine() {
                        let case = Case { family: "paced_producer".into(), table: TableKind::Std, base_us: BASE, window_s: 3, min_delay_us: 20_000_000, index_mode: 0, pause: Some((k, 800)), syms: ix.iter().map(|i| sig[*i]).collect() };
                        run_case(ctx, &mut env, &case);
                    }
                }
                true
            });
            ctx.end_family(true);
        }
        for f in &pass1 {
            if !run_family(ctx, &mut env, f) {
                return;
            }
        }
        if !self.deviation_family(ctx, &mut env, &[(8, 2), (10, 2)]) {
            return;
        }
        if !thorough {
            return;
        }
        if !self.deviation_family(ctx, &mut env, &[(14, 2), (10, 3)]) {
            return;
        }
        for f in &pass2 {
            if !run_family(ctx, &mut env, f) {
                return;
            }
        }
    }

    fn replay(&self, case: &Value, ctx: &mut Ctx) {
        let c = Case::parse(case).expect("C10 case");
        let mut env = Env::default();
        ctx.mine();
        run_case(ctx, &mut env, &c);
    }
}
