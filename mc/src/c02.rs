//! C02 — export fidelity: write / re-read round trip and normal form.
use crate::c01::{payload_bytes, shape};
use crate::core::dltgen::*;
use crate::core::*;
use adlt::dlt::{parse_dlt_with_storage_header, DltMessage};
use adlt::utils::{DltMessageIterator, LowMarkBufReader};
use serde_json::{json, Value};

pub struct C02;

fn parse_one(spec: &MsgSpec) -> Result<DltMessage, String> {
    let b = spec.to_bytes();
    let mut it = DltMessageIterator::new(7, &b[..]);
    let m = it.next().ok_or_else(|| "source message not parsed".to_string())?;
    if let Some(d) = spec.diff(&m) {
        return Err(format!("source message parsed wrongly: {d}"));
    }
    Ok(m)
}

fn cmp_fields(a: &DltMessage, b: &DltMessage) -> Option<String> {
    if a.ecu != b.ecu {
        return Some(format!("ecu {:?} -> {:?}", a.ecu, b.ecu));
    }
    if a.reception_time_us != b.reception_time_us {
        return Some(format!("reception {} -> {}", a.reception_time_us, b.reception_time_us));
    }
    if a.timestamp_dms != b.timestamp_dms {
        return Some(format!("timestamp {} -> {}", a.timestamp_dms, b.timestamp_dms));
    }
    if a.standard_header.has_timestamp() != b.standard_header.has_timestamp() {
        return Some("timestamp presence changed".into());
    }
    if a.mcnt() != b.mcnt() {
        return Some(format!("mcnt {} -> {}", a.mcnt(), b.mcnt()));
    }
    if a.is_big_endian() != b.is_big_endian() {
        return Some("byte order flag changed".into());
    }
    if a.extended_header != b.extended_header {
        return Some(format!("ext header {:?} -> {:?}", a.extended_header, b.extended_header));
    }
    if a.payload != b.payload {
        return Some(format!("payload changed (len {} -> {})", a.payload.len(), b.payload.len()));
    }
    None
}

fn judge_msg(ctx: &mut Ctx, spec: &MsgSpec, case: &dyn Fn() -> Value) -> bool {
    let r = catch(|| -> Result<(), (String, String)> {
        let m = parse_one(spec).map_err(|e| ("source_parse".to_string(), e))?;
        let mut w1 = Vec::new();
        m.to_write(&mut w1).map_err(|e| ("write_error".to_string(), e.to_string()))?;
        let (consumed, m2) = parse_dlt_with_storage_header(m.index, &w1)
            .map_err(|e| ("reread_error".to_string(), format!("{e:?}")))?;
        if consumed != w1.len() {
            return Err(("consumed".into(), format!("{} of {} written bytes consumed", consumed, w1.len())));
        }
        if let Some(d) = cmp_fields(&m, &m2) {
            return Err(("field".into(), d));
        }
        let mut w2 = Vec::new();
        m2.to_write(&mut w2).map_err(|e| ("write_error".to_string(), e.to_string()))?;
        if w1 != w2 {
            return Err(("normal_form".into(), format!("second export differs ({} vs {} bytes)", w1.len(), w2.len())));
        }
        Ok(())
    });
    match r {
        Err(p) => ctx.violation("panic", &p.loc, case, p.msg),
        Ok(Err((clause, d))) => ctx.violation(&clause, "", case, d),
        Ok(Ok(())) => {}
    }
    if spec.htyp & (WEID | WSID) != 0 {
        ctx.landmark("export_drops_header_field(WEID/WSID)");
    }
    if spec.framing == Framing::Serial {
        ctx.landmark("serial_source");
    }
    if spec.std_len() == 65535 {
        ctx.landmark("max_size");
    }
    ctx.outcome(fnv(&[spec.htyp, (spec.payload.len().min(255)) as u8]));
    spec.htyp & (WEID | WSID) != 0 || spec.payload.len() > 255
}

fn spec_json(family: &str, s: &MsgSpec) -> Value {
    json!({"family": family, "framing": format!("{:?}", s.framing), "htyp": s.htyp, "payload_len": s.payload.len(),
        "payload_seed": s.payload.first().copied().unwrap_or(0), "secs": s.secs, "micros": s.micros, "timestamp": s.timestamp,
        "mcnt": s.mcnt, "hdr_ecu": hex(&s.hdr_ecu), "storage_ecu": hex(&s.storage_ecu), "apid": hex(&s.apid), "ctid": hex(&s.ctid),
        "verb_mstp_mtin": s.verb_mstp_mtin, "noar": s.noar, "session_id": s.session_id})
}
fn spec_from_json(v: &Value) -> MsgSpec {
    let mut s = MsgSpec {
        framing: if v["framing"] == "Serial" { Framing::Serial } else { Framing::Storage },
        htyp: v["htyp"].as_u64().unwrap() as u8,
        mcnt: v["mcnt"].as_u64().unwrap() as u8,
        secs: v["secs"].as_u64().unwrap() as u32,
        micros: v["micros"].as_u64().unwrap() as u32,
        timestamp: v["timestamp"].as_u64().unwrap() as u32,
        verb_mstp_mtin: v["verb_mstp_mtin"].as_u64().unwrap() as u8,
        noar: v["noar"].as_u64().unwrap() as u8,
        session_id: v["session_id"].as_u64().unwrap() as u32,
        ..Default::default()
    };
    s.hdr_ecu.copy_from_slice(&unhex(v["hdr_ecu"].as_str().unwrap()));
    s.storage_ecu.copy_from_slice(&unhex(v["storage_ecu"].as_str().unwrap()));
    s.apid.copy_from_slice(&unhex(v["apid"].as_str().unwrap()));
    s.ctid.copy_from_slice(&unhex(v["ctid"].as_str().unwrap()));
    s.payload = payload_bytes(v["payload_len"].as_u64().unwrap() as usize, v["payload_seed"].as_u64().unwrap() as u8);
    s
}

/// pool of message variants for the stream-level family (incl. payloads with embedded markers)
fn pool() -> Vec<MsgSpec> {
    let mut v = vec![];
    let flags = [0u8, UEH, WEID | WTMS, 31, MSBF | UEH | WTMS, WSID | WTMS];
    for (i, f) in flags.iter().enumerate() {
        v.push(shape(&Framing::Storage, *f, [0, 3, 9, 1, 20, 5][i], i % 3, i as u8, i));
    }
    // payload containing the storage marker / the serial marker / a whole fake message
    let mut m = shape(&Framing::Storage, UEH | WEID | WTMS, 0, 0, 9, 6);
    m.payload = b"xxDLT\x01yy".to_vec();
    v.push(m);
    let mut m = shape(&Framing::Storage, WTMS, 0, 0, 10, 7);
    m.payload = b"DLS\x01".to_vec();
    v.push(m);
    let mut m = shape(&Framing::Storage, UEH, 0, 1, 11, 8);
    m.payload = shape(&Framing::Storage, 0, 2, 0, 1, 1).to_bytes();
    v.push(m);
    let mut m = shape(&Framing::Storage, 31, 4, 2, 255, 9);
    m.secs = u32::MAX;
    m.micros = 999_999;
    m.timestamp = u32::MAX;
    v.push(m);
    v
}

fn judge_stream(ctx: &mut Ctx, specs: &[&MsgSpec], case: &dyn Fn() -> Value) {
    let r = catch(|| -> Result<(), (String, String)> {
        let mut src = vec![];
        for s in specs {
            src.extend_from_slice(&s.to_bytes());
        }
        let orig: Vec<DltMessage> = DltMessageIterator::new(0, &src[..]).collect();
        if orig.len() != specs.len() {
            return Err(("source_parse".into(), format!("{} of {} source messages parsed", orig.len(), specs.len())));
        }
        let mut e1 = vec![];
        for m in &orig {
            m.to_write(&mut e1).map_err(|e| ("write_error".to_string(), e.to_string()))?;
        }
        let mut it = DltMessageIterator::new(0, &e1[..]);
        let re: Vec<DltMessage> = it.by_ref().collect();
        if re.len() != orig.len() {
            return Err(("stream_count".into(), format!("export of {} messages re-reads as {}", orig.len(), re.len())));
        }
        if it.bytes_skipped != 0 || it.bytes_processed != e1.len() {
            return Err(("stream_consumed".into(), format!("skipped {} processed {} of {}", it.bytes_skipped, it.bytes_processed, e1.len())));
        }
        for (i, (a, b)) in orig.iter().zip(re.iter()).enumerate() {
            if let Some(d) = cmp_fields(a, b) {
                return Err(("stream_field".into(), format!("message {i}: {d}")));
            }
            if a.index != b.index {
                return Err(("stream_order".into(), format!("message {i} index {}", b.index)));
            }
        }
        let mut e2 = vec![];
        for m in &re {
            m.to_write(&mut e2).map_err(|e| ("write_error".to_string(), e.to_string()))?;
        }
        if e1 != e2 {
            return Err(("stream_normal_form".into(), "export of the export differs".into()));
        }
        Ok(())
    });
    match r {
        Err(p) => ctx.violation("panic", &p.loc, case, p.msg),
        Ok(Err((clause, d))) => ctx.violation(&clause, "", case, d),
        Ok(Ok(())) => {}
    }
}

/// file-level export as `adlt convert -o` does it: the file is read through LowMarkBufReader(512 KiB, low mark) and
/// every message is written with to_write. A large message starts where `in_buf` bytes are left in the first
/// window. Reference: the same bytes parsed from one slice.
/// a normal-form file of ~600 KB: small messages, then one of std length `big_std_len` that starts where `in_buf` bytes of
/// the first 512 KiB are left, then 3 small ones. Returns (bytes, number of messages)
pub fn window_file(in_buf: usize, big_std_len: usize) -> (Vec<u8>, usize) {
    const CAP: usize = 512 * 1024;
    let o = CAP - in_buf; // offset of the large message
    let mut src: Vec<u8> = Vec::with_capacity(CAP + 70_000);
    let mut n = 0usize;
    let filler = |total: usize, n: usize| -> Vec<u8> {
        let mut m = shape(&Framing::Storage, 0, 0, 0, n as u8, n);
        m.payload = payload_bytes(total - 20, n as u8);
        m.to_bytes()
    };
    while src.len() + 2000 <= o {
        src.extend_from_slice(&filler(1000, n));
        n += 1;
    }
    let rest = o - src.len(); // 1000..2000
    src.extend_from_slice(&filler(rest, n));
    n += 1;
    assert_eq!(src.len(), o);
    let mut big = shape(&Framing::Storage, WTMS | UEH, 0, 0, 7, n);
    big.payload = payload_bytes(big_std_len - big.hdr_size(), 0x5a);
    src.extend_from_slice(&big.to_bytes());
    n += 1;
    for _ in 0..3 {
        src.extend_from_slice(&filler(100, n));
        n += 1;
    }
    (src, n)
}

/// `adlt convert -o` on a normal-form file of `n` messages from `necu` ECUs in round-robin order, `step_ms` apart
pub fn cli_interleaved_export(dir: &str, necu: usize, n: usize, step_ms: u32) -> Result<(), String> {
    let mut src: Vec<u8> = vec![];
    for i in 0..n {
        let mut m = shape(&Framing::Storage, WTMS | UEH, 4, 0, i as u8, 0);
        m.storage_ecu = [b'E', b'C', b'U', b'1' + (i % necu) as u8];
        m.hdr_ecu = m.storage_ecu;
        let t_ms = i as u32 * step_ms;
        m.secs = 1_600_000_000 + t_ms / 1000;
        m.micros = (t_ms % 1000) * 1000;
        m.timestamp = 10_000 + t_ms * 10;
        m.payload = payload_bytes(4 + i % 5, i as u8);
        src.extend_from_slice(&m.to_bytes());
    }
    let (fin, fout) = (format!("{dir}/il-{necu}-{n}-{step_ms}.dlt"), format!("{dir}/ilout-{necu}-{n}-{step_ms}.dlt"));
    std::fs::write(&fin, &src).map_err(|e| e.to_string())?;
    let _ = std::fs::remove_file(&fout);
    let out = std::process::Command::new(crate::rem::adlt_bin()).arg("convert").arg("-o").arg(&fout).arg(&fin).output();
    let written = std::fs::read(&fout).unwrap_or_default();
    let _ = std::fs::remove_file(&fin);
    let _ = std::fs::remove_file(&fout);
    match out {
        Err(e) => Err(format!("cannot run adlt: {e}")),
        Ok(o) if !o.status.success() => Err(format!("adlt convert -o exited with {:?}", o.status.code())),
        Ok(_) if written != src => {
            let got: Vec<u8> = DltMessageIterator::new(0, &written[..]).map(|m| m.standard_header.mcnt).collect();
            let first_bad = got.iter().enumerate().find(|(i, c)| **c != *i as u8).map(|(i, _)| i);
            Err(format!("adlt convert -o of {n} messages from {necu} interleaved ECUs is not identical to its normal-form input: {} messages written, first out-of-place message at position {:?}", got.len(), first_bad))
        }
        Ok(_) => Ok(()),
    }
}

/// symbols of the lifecycle explorer used for the exported histories: continuations, new boots, start estimates that move
/// (merges into a buffered or an already confirmed lifecycle), unusable timestamps, a second ECU
pub fn history_alphabet() -> Vec<crate::lcgen::Sym> {
    ["A+2000ms:Cont", "A+65000ms:Cont", "A+2000ms:New", "A+65000ms:New", "A+2000ms:Early30", "A+2000ms:Early3", "A+2000ms:Late3", "A+2000ms:Overlap", "A+2000ms:Ts0", "B+2000ms:Cont"]
        .iter()
        .map(|n| crate::lcgen::Sym::parse(n).expect("symbol"))
        .collect()
}
/// `adlt convert -o` on the file of a lifecycle history (every message passes lifecycle detection before the writer):
/// the output must be byte-identical to the input as serialised by the library
pub fn cli_history_export(dir: &str, syms: &[crate::lcgen::Sym], uptime0_ms: u64, tag: &str) -> Result<(), String> {
    let msgs = crate::lcgen::gen_stream(syms, uptime0_ms);
    let mut src: Vec<u8> = vec![];
    for m in &msgs {
        m.to_write(&mut src).map_err(|e| e.to_string())?;
    }
    let (fin, fout) = (format!("{dir}/h-{tag}.dlt"), format!("{dir}/hout-{tag}.dlt"));
    std::fs::write(&fin, &src).map_err(|e| e.to_string())?;
    let _ = std::fs::remove_file(&fout);
    let out = std::process::Command::new(crate::rem::adlt_bin()).arg("convert").arg("-o").arg(&fout).arg(&fin).output();
    let written = std::fs::read(&fout).unwrap_or_default();
    let _ = std::fs::remove_file(&fin);
    let _ = std::fs::remove_file(&fout);
    match out {
        Err(e) => Err(format!("cannot run adlt: {e}")),
        Ok(o) if !o.status.success() => Err(format!("adlt convert -o exited with {:?}: {}", o.status.code(), String::from_utf8_lossy(&o.stderr).chars().take(200).collect::<String>())),
        Ok(_) if written != src => {
            let got: Vec<u8> = DltMessageIterator::new(0, &written[..]).map(|m| m.standard_header.mcnt).collect();
            Err(format!("adlt convert -o of the {}-message history is not identical to its input: messages written (by message counter) {:?}", msgs.len(), got))
        }
        Ok(_) => Ok(()),
    }
}

/// `adlt convert -o` on such a file: the output must be byte-identical
pub fn cli_window_export(dir: &str, in_buf: usize, big_std_len: usize) -> Result<(), String> {
    let (src, n) = window_file(in_buf, big_std_len);
    let (fin, fout) = (format!("{dir}/win-{in_buf}-{big_std_len}.dlt"), format!("{dir}/wout-{in_buf}-{big_std_len}.dlt"));
    std::fs::write(&fin, &src).map_err(|e| e.to_string())?;
    let _ = std::fs::remove_file(&fout);
    let out = std::process::Command::new(crate::rem::adlt_bin()).arg("convert").arg("-o").arg(&fout).arg(&fin).output();
    let written = std::fs::read(&fout).unwrap_or_default();
    let _ = std::fs::remove_file(&fin);
    let _ = std::fs::remove_file(&fout);
    match out {
        Err(e) => Err(format!("cannot run adlt: {e}")),
        Ok(o) if !o.status.success() => Err(format!("adlt convert -o exited with {:?}", o.status.code())),
        Ok(_) if written != src => {
            let got = DltMessageIterator::new(0, &written[..]).count();
            Err(format!("adlt convert -o wrote {} bytes / {got} messages for a normal-form input of {} bytes / {n} messages (message of std length {big_std_len} starting where {in_buf} bytes of the first 512 KiB are left)", written.len(), src.len()))
        }
        Ok(_) => Ok(()),
    }
}

fn judge_file_window(ctx: &mut Ctx, low_mark: usize, in_buf: usize, big_std_len: usize, case: &dyn Fn() -> Value) {
    const CAP: usize = 512 * 1024;
    let o = CAP - in_buf; // offset of the large message
    let mut src: Vec<u8> = Vec::with_capacity(CAP + 70_000);
    let mut n = 0usize;
    let filler = |total: usize, n: usize| -> Vec<u8> {
        let mut m = shape(&Framing::Storage, 0, 0, 0, n as u8, n);
        m.payload = payload_bytes(total - 20, n as u8);
        m.to_bytes()
    };
    while src.len() + 2000 <= o {
        src.extend_from_slice(&filler(1000, n));
        n += 1;
    }
    let rest = o - src.len(); // 1000..2000
    src.extend_from_slice(&filler(rest, n));
    n += 1;
    assert_eq!(src.len(), o);
    let mut big = shape(&Framing::Storage, WTMS | UEH, 0, 0, 7, n);
    big.payload = payload_bytes(big_std_len - big.hdr_size(), 0x5a);
    src.extend_from_slice(&big.to_bytes());
    n += 1;
    for _ in 0..3 {
        src.extend_from_slice(&filler(100, n));
        n += 1;
    }
    let r = catch(|| -> Result<(), (String, String)> {
        let reference: Vec<DltMessage> = DltMessageIterator::new(0, &src[..]).collect();
        if reference.len() != n {
            return Err(("source_parse".into(), format!("{} of {n} source messages parsed from the slice", reference.len())));
        }
        let got: Vec<DltMessage> = DltMessageIterator::new(0, LowMarkBufReader::new(std::io::Cursor::new(&src[..]), CAP, low_mark)).collect();
        if got.len() != n {
            return Err(("file_export_count".into(), format!("file of {n} messages exports {} (large message of {} bytes at offset {o}, {in_buf} bytes buffered, low mark {low_mark})", got.len(), 16 + big_std_len)));
        }
        let (mut e_ref, mut e_got) = (vec![], vec![]);
        for (a, b) in reference.iter().zip(got.iter()) {
            a.to_write(&mut e_ref).map_err(|e| ("write_error".to_string(), e.to_string()))?;
            b.to_write(&mut e_got).map_err(|e| ("write_error".to_string(), e.to_string()))?;
        }
        if e_ref != e_got {
            return Err(("file_export_bytes".into(), "export through the file reader differs from the export of the slice parse".into()));
        }
        if e_got != src {
            return Err(("file_export_bytes".into(), "export of a normal-form file is not byte-identical".into()));
        }
        Ok(())
    });
    ctx.landmark("file_window");
    match r {
        Err(p) => ctx.violation("panic", &p.loc, case, p.msg),
        Ok(Err((clause, d))) => ctx.violation(&clause, "", case, d),
        Ok(Ok(())) => {}
    }
}

/// `adlt convert -o` on a normal-form file whose message number `pos` is large: the written file must be identical
fn judge_cli_export(ctx: &mut Ctx, dir: &str, big_std_len: usize, pos: usize, stale_output: bool, case: &dyn Fn() -> Value) {
    let mut src: Vec<u8> = vec![];
    let n = 6usize;
    for i in 0..n {
        let mut m = shape(&Framing::Storage, if i == pos { WTMS | UEH } else { 0 }, 0, 0, i as u8, i);
        let total = if i == pos { big_std_len } else { 60 + i };
        m.payload = payload_bytes(total - m.hdr_size(), i as u8);
        src.extend_from_slice(&m.to_bytes());
    }
    let (fin, fout) = (format!("{dir}/in-{big_std_len}-{pos}.dlt"), format!("{dir}/out-{big_std_len}-{pos}.dlt"));
    std::fs::write(&fin, &src).expect("write input");
    let _ = std::fs::remove_file(&fout);
    if stale_output {
        // the output path already holds a longer file (an earlier, larger export)
        let mut old = src.clone();
        old.extend_from_slice(&src);
        old.extend_from_slice(b"stale tail");
        std::fs::write(&fout, &old).expect("write stale output");
        ctx.landmark("cli_export_over_existing_output");
    }
    let out = std::process::Command::new(crate::rem::adlt_bin()).arg("convert").arg("-o").arg(&fout).arg(&fin).output();
    ctx.landmark("cli_export");
    match out {
        Err(e) => ctx.violation("cli_export", "spawn", case, format!("cannot run adlt: {e}")),
        Ok(o) => {
            let written = std::fs::read(&fout).unwrap_or_default();
            if !o.status.success() {
                ctx.violation("cli_export", "exit_status", case, format!("adlt convert -o exited with {:?}: {}", o.status.code(), String::from_utf8_lossy(&o.stderr).chars().take(200).collect::<String>()));
            } else if written != src {
                let got = DltMessageIterator::new(0, &written[..]).count();
                ctx.violation("cli_export", "content", case, format!("adlt convert -o wrote {} bytes / {got} messages for a normal-form input of {} bytes / {n} messages (message {pos} has std length {big_std_len})", written.len(), src.len()));
            }
        }
    }
    let _ = std::fs::remove_file(&fin);
    let _ = std::fs::remove_file(&fout);
}

impl Prop for C02 {
    fn meta(&self, _t: Tier) -> Meta {
        Meta {
            id: "C02",
            level: "exploration",
            rule: "exhaustive product over parsed messages: 32 header-flag sets x both framings x payload sizes {0..12,255,256,4096,max} and every size 0..max for 2 (thorough: all 32) flag sets x 3 id sets x reception corners (secs {0,1.6e9,u32::MAX} x micros {0,999999}) x timestamp {0,1,u32::MAX} x mcnt {0,255}; each message is parsed from independently built bytes, written with to_write, re-read with parse_dlt_with_storage_header (must consume exactly the written bytes and agree on ecu, reception time, timestamp and its presence, mcnt, byte-order flag, extended header, payload) and written again (byte-identical). ECU-id family: all 256 ids over the bytes {00,'E',7f,ff} (NUL in every position, bytes after a NUL) as header and as storage ECU id x 32 flag sets x both framings. Stream family: all sequences of <= 5 (thorough 6) messages from a 10-variant pool incl. payloads with embedded frame markers, exported back-to-back, re-read with DltMessageIterator (same messages in order, nothing skipped), exported again (byte-identical). File family: a 600 KB normal-form file is read the way `adlt convert` reads it (LowMarkBufReader, 512 KiB, low mark = the repository's DLT_MIN_PARSER_LOOKAHEAD_SIZE and DLT_MAX_STORAGE_MSG_SIZE) with a near-maximum message starting at every buffered-byte count around the low mark; every message must be exported, byte-identical. Non-trivial = export drops a header field (ECU/session id move) or payload > 255 bytes.".into(),
            assumptions: vec!["storage micros < 10^6 (premise of the property)".into(), "CLI level: adlt convert -o on files with a near-maximum message at the start / inside / at the end (family cli_export); the option product is C14's".into()],
            budget_s: (90, 900),
            workers: 0,
            required_landmarks: vec!["export_drops_header_field(WEID/WSID)", "serial_source", "max_size", "stream_with_embedded_marker", "file_window", "cli_export", "cli_export_over_existing_output", "cli_export_window", "cli_export_interleaved_ecus", "ecu_id_with_byte_after_nul"],
        }
    }
    fn prepare(&self, _t: Tier) -> Result<(), String> {
        crate::rem::build_adlt_bin()
    }
    fn run(&self, ctx: &mut Ctx) {
        let thorough = ctx.tier == Tier::Thorough;
        let mut sizes: Vec<usize> = (0..=12).collect();
        sizes.extend([255, 256, 4096, usize::MAX]);
        ctx.begin_family("messages", "32 flags x 2 framings x 17 payload sizes x 3 id sets x 6 reception corners x 3 timestamps x 2 mcnt");
        let mut done = true;
        'a: for fr in [Framing::Storage, Framing::Serial] {
            for flags in 0u8..32 {
                for ps in &sizes {
                    for ids in 0..3 {
                        if *ps == usize::MAX && !thorough && ids != 0 {
                            continue;
                        }
                        for secs in [0u32, 1_600_000_000, u32::MAX] {
                            for micros in [0u32, 999_999] {
                                for ts in [0u32, 1, u32::MAX] {
                                    for mcnt in [0u8, 255] {
                                        if *ps == usize::MAX && !thorough && (mcnt != 0 || ts == 1) {
                                            continue;
                                        }
                                        if ctx.mine() {
                                            let mut s = shape(&fr, flags, *ps, ids, mcnt, 3);
                                            s.secs = secs;
                                            s.micros = micros;
                                            s.timestamp = ts;
                                            let cj = || spec_json("messages", &s);
                                            let nt = judge_msg(ctx, &s, &cj);
                                            ctx.eval(nt);
                                            ctx.sample(cj);
                                        }
                                    }
                                }
                            }
                        }
                    }
                    if ctx.out_of_time() {
                        done = false;
                        break 'a;
                    }
                }
            }
        }
        ctx.end_family(done);
        if !done {
            return;
        }
        // every ECU id over a byte alphabet with NUL in every position (an id is four arbitrary bytes, not a C string):
        // as the header's ECU id and as the storage header's, both framings, all header-flag sets
        const IDB: [u8; 4] = [0, b'E', 0x7f, 0xff];
        ctx.begin_family("ecu_ids", "all 256 ids over {00,'E',7f,ff}^4 as header ECU id x storage ECU {same id, STO1} x 32 flags x 2 framings x apid/ctid {the id, APP1/CTX1}");
        let mut done = true;
        'e: for fr in [Framing::Storage, Framing::Serial] {
            for flags in 0u8..32 {
                for idn in 0..256usize {
                    let id = [IDB[idn & 3], IDB[(idn >> 2) & 3], IDB[(idn >> 4) & 3], IDB[(idn >> 6) & 3]];
                    for same_storage in [true, false] {
                        for ids_too in [false, true] {
                            if ctx.mine() {
                                let mut s = shape(&fr, flags, 2, 0, 5, 2);
                                s.hdr_ecu = id;
                                s.storage_ecu = if same_storage { id } else { *b"STO1" };
                                if ids_too {
                                    s.apid = id;
                                    s.ctid = [id[3], id[2], id[1], id[0]];
                                }
                                if id[0] == 0 && id[1..].iter().any(|b| *b != 0) || id.iter().position(|b| *b == 0).is_some_and(|z| id[z..].iter().any(|b| *b != 0)) {
                                    ctx.landmark("ecu_id_with_byte_after_nul");
                                }
                                let cj = || spec_json("ecu_ids", &s);
                                let nt = judge_msg(ctx, &s, &cj);
                                ctx.eval(nt);
                                ctx.sample(cj);
                            }
                        }
                    }
                }
                if ctx.out_of_time() {
                    done = false;
                    break 'e;
                }
            }
        }
        ctx.end_family(done);
        if !done {
            return;
        }
        // streams
        let pool = pool();
        let maxk = if thorough { 6 } else { 5 };
        for k in 1..=maxk {
            ctx.begin_family("streams", &format!("all sequences of {k} messages from a {}-variant pool", pool.len()));
            let done = enumr::sequences(k, pool.len(), |ix| {
                if ctx.mine() {
                    let specs: Vec<&MsgSpec> = ix.iter().map(|i| &pool[*i]).collect();
                    let cj = || json!({"family": "streams", "pool_indices": ix});
                    judge_stream(ctx, &specs, &cj);
                    let marker = ix.iter().any(|i| (6..=8).contains(i));
                    if marker {
                        ctx.landmark("stream_with_embedded_marker");
                    }
                    ctx.transitions(k as u64);
                    ctx.eval(marker);
                    ctx.sample(cj);
                }
                !(ctx.sum.evaluations % 1024 == 0 && ctx.out_of_time())
            });
            ctx.end_family(done);
            if !done {
                return;
            }
        }
        // the export through the binary: a large message as first / inner / last message of the file
        {
            let lens: &[usize] = if thorough { &[60_000, 65_000, 65_500, 65_519, 65_520, 65_521, 65_522, 65_530, 65_534, 65_535] } else { &[65_000, 65_520, 65_521, 65_535] };
            ctx.begin_family("cli_export", &format!("adlt convert -o on 6-message normal-form files, message at position {{0, 2, 5}} with std length in {:?}, into a fresh and over an existing longer output file; on the files of every lifecycle event sequence up to depth 3 (thorough 4) over a 10-symbol alphabet; and on 600 KB files with a maximum-size message at every buffered-byte count around the reader's low mark: output byte-identical", lens));
            let dir = crate::rem::scratch_dir();
            for &l in lens {
                for pos in [0usize, 2, 5] {
                    for stale in [false, true] {
                        if ctx.mine() {
                            let cj = || json!({"family": "cli_export", "big_std_len": l, "pos": pos, "stale_output": stale});
                            judge_cli_export(ctx, &dir, l, pos, stale, &cj);
                            ctx.transitions(1);
                            ctx.eval(true);
                            ctx.sample(cj);
                        }
                    }
                }
            }
            // several ECUs interleaved over more than a minute (lifecycles get confirmed mid-stream, messages of the other
            // ECUs are queued meanwhile): the export keeps the order
            for necu in [2usize, 3] {
                for (n, step_ms) in [(300usize, 500u32), (160, 1000)] {
                    if ctx.mine() {
                        let cj = || json!({"family": "cli_export", "interleaved_ecus": necu, "msgs": n, "step_ms": step_ms});
                        ctx.landmark("cli_export_interleaved_ecus");
                        if let Err(e) = cli_interleaved_export(&dir, necu, n, step_ms) {
                            ctx.violation("cli_export", "interleaved_ecus", &cj, e);
                        }
                        ctx.transitions(1);
                        ctx.eval(true);
                        ctx.sample(cj);
                    }
                }
            }
            // lifecycle histories: every event sequence up to depth 3 (thorough 4) over a 10-symbol alphabet of the
            // lifecycle explorer (merges into buffered and confirmed lifecycles, queued messages of a second ECU)
            let mut cli_done = true;
            {
                let sig = history_alphabet();
                let maxd = if thorough { 4 } else { 3 };
                for k in 1..=maxd {
                    let fin = enumr::sequences(k, sig.len(), |ix| {
                        if ctx.mine() {
                            let syms: Vec<crate::lcgen::Sym> = ix.iter().map(|i| sig[*i]).collect();
                            let cj = || json!({"family": "cli_export", "history": syms.iter().map(|s| s.name()).collect::<Vec<_>>(), "uptime0_ms": 20000});
                            ctx.landmark("cli_export_lifecycle_history");
                            if let Err(e) = cli_history_export(&dir, &syms, 20000, &format!("{}-{}", std::process::id(), ctx.sum.evaluations)) {
                                ctx.violation("cli_export", "lifecycle_history", &cj, e);
                            }
                            ctx.transitions(1);
                            ctx.eval(true);
                            ctx.sample(cj);
                        }
                        !(ctx.sum.evaluations % 64 == 0 && ctx.out_of_time())
                    });
                    if !fin {
                        cli_done = false;
                        break;
                    }
                }
            }
            // the same through the binary for a file larger than the reader's buffer: a maximum-size message at every
            // buffered-byte count around the low mark
            let (wlo, whi) = if thorough { (65_400usize, 65_700usize) } else { (65_520, 65_570) };
            for in_buf in wlo..=whi {
                if ctx.mine() {
                    let cj = || json!({"family": "cli_export", "window_in_buf": in_buf, "big_std_len": 65535});
                    ctx.landmark("cli_export_window");
                    if let Err(e) = cli_window_export(&dir, in_buf, 65535) {
                        ctx.violation("cli_export", "window", &cj, e);
                    }
                    ctx.transitions(1);
                    ctx.eval(true);
                    ctx.sample(cj);
                }
            }
            let _ = std::fs::remove_dir_all(&dir);
            ctx.end_family(cli_done);
        }
        // file-level export: a large message at every buffered-byte count around the reader's low mark
        {
            use adlt::dlt::{DLT_MAX_STORAGE_MSG_SIZE, DLT_MIN_PARSER_LOOKAHEAD_SIZE};
            let (lo, hi) = if thorough { (60_000usize, 70_000usize) } else { (65_380, 65_720) };
            let lows = [DLT_MIN_PARSER_LOOKAHEAD_SIZE, DLT_MAX_STORAGE_MSG_SIZE];
            let bigs = [65535usize, 65534, 65520];
            ctx.begin_family("file_windows", &format!("600 KB normal-form file read as `convert` reads it (LowMarkBufReader 512 KiB, low mark in {:?}); a message of std length {:?} starts where in_buf = {lo}..={hi} bytes are buffered", lows, bigs));
            let mut done = true;
            'w: for in_buf in lo..=hi {
                for &low in &lows {
                    for &big in &bigs {
                        if ctx.mine() {
                            let cj = || json!({"family": "file_windows", "low_mark": low, "in_buf": in_buf, "big_std_len": big});
                            judge_file_window(ctx, low, in_buf, big, &cj);
                            ctx.transitions(1);
                            ctx.eval(true);
                            ctx.sample(cj);
                        }
                    }
                }
                if in_buf % 16 == 0 && ctx.out_of_time() {
                    done = false;
                    break 'w;
                }
            }
            ctx.end_family(done);
            if !done {
                return;
            }
        }
        let all_flags: Vec<u8> = if thorough { (0u8..32).collect() } else { vec![0u8, 31] };
        ctx.begin_family("all_sizes", &format!("every payload size 0..max for {} flag sets (storage framing)", all_flags.len()));
        let mut done = true;
        'c: for flags in all_flags {
            let maxp = shape(&Framing::Storage, flags, 0, 0, 0, 0).max_payload();
            for ps in 0..=maxp {
                if ctx.mine() {
                    let s = shape(&Framing::Storage, flags, ps, 0, 1, 4);
                    let cj = || spec_json("messages", &s);
                    let nt = judge_msg(ctx, &s, &cj);
                    ctx.eval(nt);
                }
                if ps % 4096 == 0 && ctx.out_of_time() {
                    done = false;
                    break 'c;
                }
            }
        }
        ctx.end_family(done);
    }
    fn replay(&self, case: &Value, ctx: &mut Ctx) {
        ctx.mine();
        if case["family"] == "cli_export" {
            if crate::rem::build_adlt_bin().is_err() {
                return;
            }
            let dir = crate::rem::scratch_dir();
            let cj = || case.clone();
            if let Some(ne) = case["interleaved_ecus"].as_u64() {
                if let Err(e) = cli_interleaved_export(&dir, ne as usize, case["msgs"].as_u64().unwrap_or(300) as usize, case["step_ms"].as_u64().unwrap_or(500) as u32) {
                    ctx.violation("cli_export", "interleaved_ecus", &cj, e);
                }
            } else if let Some(h) = case["history"].as_array() {
                let syms: Vec<crate::lcgen::Sym> = h.iter().filter_map(|n| crate::lcgen::Sym::parse(n.as_str().unwrap_or(""))).collect();
                if let Err(e) = cli_history_export(&dir, &syms, case["uptime0_ms"].as_u64().unwrap_or(20000), "replay") {
                    ctx.violation("cli_export", "lifecycle_history", &cj, e);
                }
            } else if let Some(ib) = case["window_in_buf"].as_u64() {
                if let Err(e) = cli_window_export(&dir, ib as usize, case["big_std_len"].as_u64().unwrap_or(65535) as usize) {
                    ctx.violation("cli_export", "window", &cj, e);
                }
            } else {
                judge_cli_export(ctx, &dir, case["big_std_len"].as_u64().unwrap() as usize, case["pos"].as_u64().unwrap() as usize, case["stale_output"].as_bool().unwrap_or(false), &cj);
            }
            let _ = std::fs::remove_dir_all(&dir);
            ctx.eval(true);
        } else if case["family"] == "file_windows" {
            let cj = || case.clone();
            judge_file_window(ctx, case["low_mark"].as_u64().unwrap() as usize, case["in_buf"].as_u64().unwrap() as usize, case["big_std_len"].as_u64().unwrap() as usize, &cj);
            ctx.eval(true);
        } else if case["family"] == "streams" {
            let pool = pool();
            let ix: Vec<usize> = case["pool_indices"].as_array().unwrap().iter().map(|x| x.as_u64().unwrap() as usize).collect();
            let specs: Vec<&MsgSpec> = ix.iter().map(|i| &pool[*i]).collect();
            let cj = || case.clone();
            judge_stream(ctx, &specs, &cj);
            ctx.eval(true);
        } else {
            let s = spec_from_json(case);
            let cj = || case.clone();
            let nt = judge_msg(ctx, &s, &cj);
            ctx.eval(nt);
        }
    }
}
