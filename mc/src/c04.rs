//! C04 — parsing depends only on the bytes (not on read chunking / capacity / position) and the
//! LowMarkBufReader contract (explicit-state BFS over fill/consume/read/seek against a byte-vector model).
use crate::c01::{garbage, payload_bytes, shape};
use crate::core::dltgen::*;
use crate::core::*;
use adlt::dlt::{DltMessage, DLT_MIN_PARSER_LOOKAHEAD_SIZE};
use adlt::utils::{DltMessageIterator, LowMarkBufReader};
use serde_json::{json, Value};
use std::collections::{HashSet, VecDeque};
use std::io::{BufRead, Read, Seek, SeekFrom};
use std::rc::Rc;

pub struct C04;

// ------------------------------------------------------------------ scripted source
#[derive(Clone, Debug)]
pub enum Sched {
    /// every read returns at most k bytes
    Const(usize),
    /// cyclic list of per-call limits (0 = as much as asked)
    Cycle(Vec<usize>),
    /// "as much as asked" except at the listed call numbers: kind 0 -> 1 byte, 1 -> half, 2 -> asked-1
    Dev(Vec<(usize, u8)>),
}
pub struct Src {
    data: Rc<Vec<u8>>,
    pub pos: usize,
    sched: Sched,
    pub calls: usize,
    pub short_reads: usize,
}
impl Src {
    pub fn new(data: Rc<Vec<u8>>, sched: Sched) -> Src {
        Src { data, pos: 0, sched, calls: 0, short_reads: 0 }
    }
}
impl Read for Src {
    fn read(&mut self, buf: &mut [u8]) -> std::io::Result<usize> {
        let avail = self.data.len() - self.pos;
        let asked = buf.len().min(avail);
        let call = self.calls;
        self.calls += 1;
        let n = match &self.sched {
            Sched::Const(k) => asked.min(*k),
            Sched::Cycle(v) => {
                let k = v[call % v.len()];
                if k == 0 {
                    asked
                } else {
                    asked.min(k)
                }
            }
            Sched::Dev(d) => match d.iter().find(|(c, _)| *c == call) {
                Some((_, 0)) => asked.min(1),
                Some((_, 1)) => asked.min((asked / 2).max(1)),
                Some((_, _)) => asked.min(asked.saturating_sub(1).max(1)),
                None => asked,
            },
        };
        CALLS.with(|c| c.set(c.get() + 1));
        if n < asked {
            self.short_reads += 1;
            SHORTS.with(|c| c.set(c.get() + 1));
        }
        buf[..n].copy_from_slice(&self.data[self.pos..self.pos + n]);
        self.pos += n;
        Ok(n)
    }
}

// ------------------------------------------------------------------ part 1: iterator over reader over source
struct StreamDef {
    name: &'static str,
    bytes: Vec<u8>,
    /// (offset, spec) of the built messages (None when the stream deliberately violates C01's premise)
    built: Vec<(usize, MsgSpec)>,
    /// known-finding predicate: max-size message with an embedded marker followed by non-marker bytes
    lookahead_case: bool,
}

fn cat(parts: &[(Option<MsgSpec>, Vec<u8>)]) -> (Vec<u8>, Vec<(usize, MsgSpec)>) {
    let mut b = vec![];
    let mut built = vec![];
    for (m, g) in parts {
        if let Some(m) = m {
            built.push((b.len(), m.clone()));
            b.extend_from_slice(&m.to_bytes());
        }
        b.extend_from_slice(g);
    }
    (b, built)
}

fn streams() -> Vec<StreamDef> {
    let st = Framing::Storage;
    let se = Framing::Serial;
    let mut v = vec![];
    // S1 small messages with garbage
    let (bytes, built) = cat(&[
        (None, garbage(5, 1)),
        (Some(shape(&st, 31, 9, 0, 1, 0)), garbage(21, 6)),
        (Some(shape(&st, UEH, 0, 1, 2, 1)), vec![]),
        (Some(shape(&st, 0, 3, 2, 3, 2)), garbage(7, 0)),
    ]);
    v.push(StreamDef { name: "small_with_garbage", bytes, built, lookahead_case: false });
    // S2 max-size + small
    let (bytes, built) = cat(&[(Some(shape(&st, UEH | WEID | WTMS, usize::MAX, 0, 1, 0)), vec![]), (Some(shape(&st, 31, 3, 0, 2, 1)), vec![])]);
    v.push(StreamDef { name: "max_then_small", bytes, built, lookahead_case: false });
    // S3 three max-size back to back + small
    let (bytes, built) = cat(&[
        (Some(shape(&st, 0, usize::MAX, 0, 1, 0)), vec![]),
        (Some(shape(&st, 31, usize::MAX, 0, 2, 1)), vec![]),
        (Some(shape(&st, UEH, usize::MAX, 0, 3, 2)), vec![]),
        (Some(shape(&st, WTMS, 1, 0, 4, 3)), vec![]),
    ]);
    v.push(StreamDef { name: "three_max", bytes, built, lookahead_case: false });
    // S4 sixty mid-size messages (3 x capacity)
    let parts: Vec<(Option<MsgSpec>, Vec<u8>)> = (0..60).map(|i| (Some(shape(&st, (i % 32) as u8, 3400 + i * 7, i % 3, i as u8, i)), if i % 7 == 3 { garbage(i, i % 8) } else { vec![] })).collect();
    let (bytes, built) = cat(&parts);
    v.push(StreamDef { name: "sixty_mid", bytes, built, lookahead_case: false });
    // S5 embedded markers in small payloads (premise of C01 dropped on purpose)
    let mut m1 = shape(&st, UEH | WTMS, 0, 0, 1, 0);
    m1.payload = b"abDLT\x01cd".to_vec();
    let mut m2 = shape(&st, 31, 0, 0, 2, 1);
    m2.payload = shape(&st, 0, 2, 0, 9, 5).to_bytes();
    let (bytes, built) = cat(&[(Some(m1), vec![]), (Some(m2), garbage(9, 0)), (Some(shape(&st, 0, 1, 0, 3, 2)), garbage(4, 1))]);
    v.push(StreamDef { name: "embedded_markers_small", bytes, built, lookahead_case: false });
    // S6 serial with garbage, > capacity
    let parts: Vec<(Option<MsgSpec>, Vec<u8>)> = (0..40).map(|i| (Some(shape(&se, (i % 32) as u8, 2000 + i * 13, i % 3, i as u8, i)), if i % 5 == 1 { garbage(1 + i % 9, 5) } else { vec![] })).collect();
    let (bytes, built) = cat(&parts);
    v.push(StreamDef { name: "serial_forty", bytes, built, lookahead_case: false });
    // S6b serial, minimal messages (8..18 bytes): every suffix shorter than a minimal storage message must still parse
    let parts: Vec<(Option<MsgSpec>, Vec<u8>)> = (0..10).map(|i| (Some(shape(&se, [0u8, WTMS, 0, WEID, 0, WSID, 0, 0, WTMS, 0][i], [0usize, 1, 2, 0, 3, 0, 1, 0, 2, 0][i], i % 3, i as u8, i)), vec![])).collect();
    let (bytes, built) = cat(&parts);
    v.push(StreamDef { name: "serial_minimal_msgs", bytes, built, lookahead_case: false });
    // S7 100 KiB garbage then messages
    let (bytes, built) = cat(&[(None, garbage(100_000, 6)), (Some(shape(&st, 31, 5, 0, 1, 0)), vec![]), (Some(shape(&st, UEH, 2, 1, 2, 1)), vec![])]);
    v.push(StreamDef { name: "long_garbage_first", bytes, built, lookahead_case: false });
    // S8 maximum-size message containing a marker, followed by non-marker bytes, then a message
    for (name, mk) in [("max_embedded_marker_then_garbage", 65535usize), ("len65532_embedded_marker_then_garbage", 65532), ("len65531_embedded_marker_then_garbage", 65531)] {
        let mut m = shape(&st, 0, 0, 0, 1, 0);
        let plen = mk - m.hdr_size();
        let mut p = payload_bytes(plen, 1);
        p[100..104].copy_from_slice(b"DLT\x01");
        m.payload = p;
        let (bytes, built) = cat(&[(Some(m), garbage(6, 1)), (Some(shape(&st, 31, 3, 0, 2, 1)), vec![])]);
        v.push(StreamDef { name, bytes, built, lookahead_case: mk >= 65532 });
    }
    // S9 maximum-size messages containing a marker, followed directly by valid messages (the next marker is the only
    // look-ahead the parser can get: exactly 4 bytes when the window holds the minimum look-ahead)
    for (name, mk) in [("max_embedded_marker_then_msgs", 65535usize), ("len65534_embedded_marker_then_msgs", 65534)] {
        let mut m = shape(&st, 0, 0, 0, 1, 0);
        let plen = mk - m.hdr_size();
        let mut p = payload_bytes(plen, 1);
        p[100..104].copy_from_slice(b"DLT\x01");
        p[plen - 40..plen - 36].copy_from_slice(b"DLT\x01");
        m.payload = p;
        let (bytes, built) = cat(&[(Some(shape(&st, 31, 3, 0, 0, 0)), vec![]), (Some(m), vec![]), (Some(shape(&st, 31, 3, 0, 2, 1)), vec![]), (Some(shape(&st, UEH, 1, 1, 3, 2)), vec![])]);
        v.push(StreamDef { name, bytes, built, lookahead_case: false });
    }
    v
}

type Parse = (Vec<DltMessage>, usize, usize);
fn parse_all<R: BufRead>(r: R, start: u32) -> Parse {
    let mut it = DltMessageIterator::new(start, r);
    let mut msgs = vec![];
    for m in it.by_ref() {
        msgs.push(m);
        if msgs.len() > 100_000 {
            break;
        }
    }
    (msgs, it.bytes_processed, it.bytes_skipped)
}

fn describe_diff(a: &Parse, b: &Parse) -> String {
    if a.0.len() != b.0.len() {
        return format!("{} vs {} messages (processed {}/{} skipped {}/{})", a.0.len(), b.0.len(), a.1, b.1, a.2, b.2);
    }
    for (i, (x, y)) in a.0.iter().zip(b.0.iter()).enumerate() {
        if x != y {
            return format!("message {i} differs: index {} len {} vs index {} len {}", x.index, x.payload.len(), y.index, y.payload.len());
        }
    }
    format!("counters differ: processed {} vs {}, skipped {} vs {}", a.1, b.1, a.2, b.2)
}

fn sched_json(s: &Sched) -> Value {
    match s {
        Sched::Const(k) => json!({"const": k}),
        Sched::Cycle(v) => json!({"cycle": v}),
        Sched::Dev(d) => json!({"dev": d}),
    }
}
fn sched_from_json(v: &Value) -> Sched {
    if let Some(k) = v.get("const") {
        Sched::Const(k.as_u64().unwrap() as usize)
    } else if let Some(c) = v.get("cycle") {
        Sched::Cycle(c.as_array().unwrap().iter().map(|x| x.as_u64().unwrap() as usize).collect())
    } else {
        Sched::Dev(v["dev"].as_array().unwrap().iter().map(|p| (p[0].as_u64().unwrap() as usize, p[1].as_u64().unwrap() as u8)).collect())
    }
}

/// the low mark both production call sites (convert, remote) pass
const LOW: usize = DLT_MIN_PARSER_LOOKAHEAD_SIZE;
fn capacities() -> [usize; 3] {
    [LOW + 4096, LOW + 4097, 512 * 1024]
}

fn run_chunk_case(ctx: &mut Ctx, sd: &StreamDef, data: &Rc<Vec<u8>>, reference: &Parse, cap: usize, sched: &Sched) {
    let cj = || json!({"family": "chunking", "stream": sd.name, "capacity": cap, "low_mark": LOW, "schedule": sched_json(sched)});
    let r = catch(|| {
        let src = Src::new(data.clone(), sched.clone());
        let rd = LowMarkBufReader::new(src, cap, LOW);
        parse_all(rd, 0)
    });
    let disc = if sd.lookahead_case { "max_size_msg_embedded_marker_lookahead" } else { "" };
    match r {
        Err(p) => ctx.violation("panic", &p.loc, &cj, p.msg),
        Ok(got) => {
            if got != *reference {
                ctx.violation("chunk_dependent", disc, &cj, describe_diff(reference, &got));
            }
            ctx.outcome(fnv_str(&format!("{}:{}:{}:{}", sd.name, got.0.len(), got.1, got.2)));
        }
    }
    ctx.landmark("chunk_case");
    ctx.eval(true);
    ctx.sample(cj);
}

fn chunking(ctx: &mut Ctx) -> bool {
    let thorough = ctx.tier == Tier::Thorough;
    let sds = streams();
    for sd in &sds {
        ctx.begin_family("chunking", &format!("stream={} ({} bytes) x capacities x constant read sizes + <=2 deviations over 12 calls x 3 kinds", sd.name, sd.bytes.len()));
        let data = Rc::new(sd.bytes.clone());
        let reference = parse_all(&data[..], 0);
        // reference sanity: for premise-respecting streams the whole-slice parse equals the builder
        let mut consts: Vec<usize> = vec![usize::MAX, 4095, 4096, 4097, 65550, 65551, 65552, 65553, 65554, 65555, 65556, 1000];
        if sd.bytes.len() < 80_000 || thorough {
            consts.extend([1, 2, 3, 5]);
        }
        let mut scheds: Vec<Sched> = consts.into_iter().map(Sched::Const).collect();
        // deviation-bounded schedules
        let ncalls = 12usize;
        for i in 0..ncalls {
            for k in 0..3u8 {
                scheds.push(Sched::Dev(vec![(i, k)]));
            }
        }
        let two_dev_calls = if thorough { ncalls } else { 6 };
        for i in 0..two_dev_calls {
            for j in i + 1..two_dev_calls {
                for k1 in 0..3u8 {
                    for k2 in 0..3u8 {
                        scheds.push(Sched::Dev(vec![(i, k1), (j, k2)]));
                    }
                }
            }
        }
        scheds.push(Sched::Cycle(vec![1, 0]));
        scheds.push(Sched::Cycle(vec![65551, 1]));
        scheds.push(Sched::Cycle(vec![4096, 1, 0]));
        for cap in capacities() {
            for s in &scheds {
                if ctx.mine() {
                    run_chunk_case(ctx, sd, &data, &reference, cap, s);
                }
            }
            if ctx.out_of_time() {
                ctx.end_family(false);
                return false;
            }
        }
        // suffix property: parsing from message k on yields the tail (only where the whole parse equals the build)
        let builder_agrees = reference.0.len() == sd.built.len() && reference.0.iter().zip(sd.built.iter()).all(|(m, (_, s))| s.diff(m).is_none());
        if builder_agrees {
            for (k, (off, _)) in sd.built.iter().enumerate() {
                if ctx.mine() {
                    let cj = || json!({"family": "suffix", "stream": sd.name, "from_message": k});
                    let r = catch(|| parse_all(&data[*off..], 0));
                    match r {
                        Err(p) => ctx.violation("panic", &p.loc, &cj, p.msg),
                        Ok(got) => {
                            let tail = &reference.0[k..];
                            let ok = got.0.len() == tail.len()
                                && got.0.iter().zip(tail.iter()).all(|(a, b)| {
                                    let mut b2 = b.clone();
                                    b2.index -= k as u32;
                                    *a == b2
                                });
                            if !ok {
                                ctx.violation("position_dependent", "", &cj, format!("suffix from message {k}: {} messages vs tail {}", got.0.len(), tail.len()));
                            }
                        }
                    }
                    ctx.landmark("suffix_case");
                    ctx.eval(k > 0);
                }
            }
        } else {
            ctx.landmark("stream_outside_C01_premise(no suffix check)");
        }
        ctx.end_family(true);
    }
    true
}

/// messages, then a long marker-free region (longer than the reader's look-ahead), then messages: the first marker
/// after the region at every offset around the end of the buffered data
fn garbage_window_stream(g_len: usize, kind: usize) -> Vec<u8> {
    let st = Framing::Storage;
    let (bytes, _) = cat(&[
        (Some(shape(&st, 31, 5, 0, 1, 0)), vec![]),
        (Some(shape(&st, UEH, 2, 1, 2, 1)), vec![]),
        (Some(shape(&st, 0, 3, 2, 3, 2)), garbage(g_len, kind)),
        (Some(shape(&st, WTMS, 4, 0, 4, 3)), vec![]),
        (Some(shape(&st, 31, 1, 1, 5, 4)), garbage(3, 1)),
    ]);
    bytes
}
fn run_garbage_window_case(ctx: &mut Ctx, g_len: usize, kind: usize, cap: usize, sched: &Sched) {
    let cj = || json!({"family": "garbage_windows", "garbage_len": g_len, "garbage_kind": kind, "capacity": cap, "low_mark": LOW, "schedule": sched_json(sched)});
    let data = Rc::new(garbage_window_stream(g_len, kind));
    let reference = parse_all(&data[..], 0);
    // (the 3 trailing bytes are shorter than any header: they may stay unprocessed)
    if reference.0.len() != 5 || (reference.2 != g_len && reference.2 != g_len + 3) {
        ctx.violation("count", "garbage_windows", &cj, format!("whole-slice parse: {} messages, {} bytes skipped; built 5 messages, {} bytes of garbage between them + 3 at the end", reference.0.len(), reference.2, g_len));
    }
    let r = catch(|| {
        let src = Src::new(data.clone(), sched.clone());
        let rd = LowMarkBufReader::new(src, cap, LOW);
        parse_all(rd, 0)
    });
    match r {
        Err(p) => ctx.violation("panic", &p.loc, &cj, p.msg),
        Ok(got) => {
            if got != reference {
                ctx.violation("chunk_dependent", "garbage_windows", &cj, describe_diff(&reference, &got));
            }
            ctx.outcome(fnv_str(&format!("gw:{}:{}:{}", got.0.len(), got.1, got.2)));
        }
    }
    ctx.landmark("garbage_window_case");
    ctx.eval(true);
    ctx.sample(cj);
}
fn garbage_windows(ctx: &mut Ctx) -> bool {
    let thorough = ctx.tier == Tier::Thorough;
    // offset of the garbage region = length of the three leading messages
    let st = Framing::Storage;
    let prefix = cat(&[(Some(shape(&st, 31, 5, 0, 1, 0)), vec![]), (Some(shape(&st, UEH, 2, 1, 2, 1)), vec![]), (Some(shape(&st, 0, 3, 2, 3, 2)), vec![])]).0.len();
    // garbage lengths: around the look-ahead of the parser, and so that the next marker lies around the end of the
    // first buffer-full of each small capacity
    let w = if thorough { 24usize } else { 8 };
    let mut glens: Vec<usize> = (LOW + 20 - w..=LOW + 20 + w).collect();
    for cap in [LOW + 4096, LOW + 4097] {
        glens.extend(cap - prefix - w..=cap - prefix + 4);
    }
    glens.sort();
    glens.dedup();
    let scheds = [Sched::Const(usize::MAX), Sched::Const(1), Sched::Const(4096), Sched::Const(65551), Sched::Cycle(vec![1, 0]), Sched::Cycle(vec![4096, 1, 0])];
    ctx.begin_family("garbage_windows", &format!("3 messages + marker-free region of {} lengths ({}..{}) x 2 kinds + 2 messages x capacities x {} read schedules", glens.len(), glens[0], glens[glens.len() - 1], scheds.len()));
    for g in &glens {
        for kind in [1usize, 4] {
            for cap in capacities() {
                for s in &scheds {
                    if ctx.mine() {
                        run_garbage_window_case(ctx, *g, kind, cap, s);
                    }
                }
            }
        }
        if ctx.out_of_time() {
            ctx.end_family(false);
            return false;
        }
    }
    ctx.end_family(true);
    true
}

// ------------------------------------------------------------------ part 2: the reader alone, BFS
#[derive(Clone, Copy, Debug, PartialEq, Eq, Hash)]
enum Op {
    Fill,
    ConsumeOne,
    ConsumeHalf,
    ConsumeLowM1,
    ConsumeAll,
    Read1,
    Read4096,
    ReadLow,
    ReadHuge,
    SeekCur0,
    SeekFwd1,
    SeekEndOfBuffered,
    SeekBack1,
    SeekWindowStart,
    SeekWindowStart1,
    SeekZero,
    SeekCurPlus4096,
    SeekCurMinus4096,
    SeekBeyond,
}
const OPS: [Op; 19] = [
    Op::Fill,
    Op::ConsumeOne,
    Op::ConsumeHalf,
    Op::ConsumeLowM1,
    Op::ConsumeAll,
    Op::Read1,
    Op::Read4096,
    Op::ReadLow,
    Op::ReadHuge,
    Op::SeekCur0,
    Op::SeekFwd1,
    Op::SeekEndOfBuffered,
    Op::SeekBack1,
    Op::SeekWindowStart,
    Op::SeekWindowStart1,
    Op::SeekZero,
    Op::SeekCurPlus4096,
    Op::SeekCurMinus4096,
    Op::SeekBeyond,
];

fn pos_coded(n: usize) -> Vec<u8> {
    (0..n).map(|i| (i ^ (i >> 8) ^ (i >> 15)).wrapping_mul(167) as u8).collect()
}

struct Sim {
    rd: LowMarkBufReader<Src>,
    data: Rc<Vec<u8>>,
    /// model: absolute position of the next byte to be handed out
    cursor: usize,
    low: usize,
    /// what the last fill_buf showed (consume must stay within it)
    landm: Vec<&'static str>,
}

/// parse "pos: 12, abs_pos: 0, cap: 99" out of the Debug rendering (used only for choosing seek targets / fingerprint)
fn dbg_fields(rd: &LowMarkBufReader<Src>) -> (usize, usize, usize, bool) {
    let s = format!("{:?}", DebugShim(rd));
    let f = |k: &str| -> usize {
        let i = s.find(k).unwrap() + k.len();
        s[i..].split(|c: char| !c.is_ascii_digit()).next().unwrap().parse().unwrap()
    };
    (f(" pos: "), f("abs_pos: "), f(" cap: "), s.contains("empty_last_read: true"))
}
struct DebugShim<'a>(&'a LowMarkBufReader<Src>);
impl std::fmt::Debug for Src {
    fn fmt(&self, f: &mut std::fmt::Formatter<'_>) -> std::fmt::Result {
        write!(f, "Src")
    }
}
impl std::fmt::Debug for DebugShim<'_> {
    fn fmt(&self, f: &mut std::fmt::Formatter<'_>) -> std::fmt::Result {
        self.0.fmt(f)
    }
}

impl Sim {
    fn new(data: Rc<Vec<u8>>, cap: usize, low: usize, sched: Sched) -> Sim {
        CALLS.with(|c| c.set(0));
        SHORTS.with(|c| c.set(0));
        Sim { rd: LowMarkBufReader::new(Src::new(data.clone(), sched), cap, low), data, cursor: 0, low, landm: vec![] }
    }
    /// apply op; Err(clause, detail) on a contract violation
    fn step(&mut self, op: Op) -> Result<(), (&'static str, String)> {
        let len = self.data.len();
        let buffered = self.rd.buffer().len();
        match op {
            Op::Fill => {
                let cur = self.cursor;
                let s = self.rd.fill_buf().map_err(|e| ("io_error", e.to_string()))?.to_vec();
                if s.len() > len - cur || s[..] != self.data[cur..cur + s.len()] {
                    return Err(("wrong_bytes", format!("fill_buf at {cur}: {} bytes not equal to the source", s.len())));
                }
                if s.is_empty() && cur < len {
                    return Err(("early_eof", format!("fill_buf returned nothing at {cur} of {len}")));
                }
                if s.len() < self.low.min(len - cur) {
                    return Err(("low_mark", format!("fill_buf at {cur} returned {} < min(low mark {}, remaining {})", s.len(), self.low, len - cur)));
                }
                Ok(())
            }
            Op::ConsumeOne | Op::ConsumeHalf | Op::ConsumeLowM1 | Op::ConsumeAll => {
                let n = match op {
                    Op::ConsumeOne => 1.min(buffered),
                    Op::ConsumeHalf => buffered / 2,
                    Op::ConsumeLowM1 => (self.low - 1).min(buffered),
                    _ => buffered,
                };
                self.rd.consume(n);
                self.cursor += n;
                Ok(())
            }
            Op::Read1 | Op::Read4096 | Op::ReadLow | Op::ReadHuge => {
                let n = match op {
                    Op::Read1 => 1,
                    Op::Read4096 => 4096,
                    Op::ReadLow => self.low,
                    _ => self.rd.capacity() + 1,
                };
                let mut b = vec![0u8; n];
                let cur = self.cursor;
                let k = self.rd.read(&mut b).map_err(|e| ("io_error", e.to_string()))?;
                if k > len - cur || b[..k] != self.data[cur..cur + k] {
                    return Err(("wrong_bytes", format!("read({n}) at {cur}: {k} bytes not equal to the source")));
                }
                if k == 0 && cur < len {
                    return Err(("early_eof", format!("read({n}) returned 0 at {cur} of {len}")));
                }
                self.cursor += k;
                Ok(())
            }
            _ => {
                let (pos, abs_pos, _cap, _) = dbg_fields(&self.rd);
                let cur = self.cursor;
                debug_assert_eq!(abs_pos + pos, cur);
                let (target, via_current): (i64, Option<i64>) = match op {
                    Op::SeekCur0 => (cur as i64, Some(0)),
                    Op::SeekFwd1 => (cur as i64 + 1, Some(1)),
                    Op::SeekEndOfBuffered => ((cur + buffered) as i64, None),
                    Op::SeekBack1 => (cur as i64 - 1, Some(-1)),
                    Op::SeekWindowStart => (abs_pos as i64, None),
                    Op::SeekWindowStart1 => (abs_pos as i64 + 1, None),
                    Op::SeekZero => (0, None),
                    Op::SeekCurPlus4096 => (cur as i64 + 4096, Some(4096)),
                    Op::SeekCurMinus4096 => (cur as i64 - 4096, Some(-4096)),
                    _ => ((cur + buffered) as i64 + 10, None),
                };
                if target < 0 {
                    return Ok(()); // not an admissible request
                }
                let res = match via_current {
                    Some(d) => self.rd.seek(SeekFrom::Current(d)),
                    None => self.rd.seek(SeekFrom::Start(target as u64)),
                };
                let inside_buffered = buffered > 0 && target as usize >= cur && target as usize <= cur + buffered;
                match res {
                    Ok(p) => {
                        if p != target as u64 {
                            return Err(("seek_result", format!("seek to {target} returned {p}")));
                        }
                        if (target as usize) < cur {
                            self.landm.push("backward_seek_ok");
                        }
                        self.cursor = target as usize;
                        if self.cursor > len {
                            // beyond the data: nothing can be checked further; treat like the reference Cursor (reads give 0)
                            self.cursor = len.max(self.cursor);
                        }
                        Ok(())
                    }
                    Err(e) => {
                        if inside_buffered {
                            return Err(("seek_inside_window_failed", format!("seek to {target} (cursor {cur}, buffered {buffered}) failed: {e}")));
                        }
                        Ok(())
                    }
                }
            }
        }
    }
    /// state invariant: what is currently buffered is the source's bytes at the model cursor
    fn invariant(&self) -> Result<(), (&'static str, String)> {
        let b = self.rd.buffer();
        let cur = self.cursor;
        if cur > self.data.len() {
            return Ok(());
        }
        if b.len() > self.data.len() - cur || b != &self.data[cur..cur + b.len()] {
            return Err(("wrong_bytes", format!("buffered {} bytes at cursor {cur} are not the source's bytes", b.len())));
        }
        Ok(())
    }
}

fn exec(data: &Rc<Vec<u8>>, cap: usize, low: usize, sched: &Sched, hist: &[Op]) -> (Sim, Result<(), (&'static str, String, usize)>) {
    let mut sim = Sim::new(data.clone(), cap, low, sched.clone());
    for (i, op) in hist.iter().enumerate() {
        if let Err((c, d)) = sim.step(*op).and_then(|_| sim.invariant()) {
            return (sim, Err((c, d, i)));
        }
    }
    (sim, Ok(()))
}

fn reader_bfs(ctx: &mut Ctx) -> bool {
    let thorough = ctx.tier == Tier::Thorough;
    let configs: Vec<(usize, usize, usize)> = vec![
        // (capacity, low mark, data length)
        (8192, 4096, 20_000),
        (4096 + 5, 5, 13_000),
        (12288, 8000, 30_000),
        (LOW + 4096, LOW, 150_000),
    ];
    let scheds = [Sched::Const(usize::MAX), Sched::Const(1000), Sched::Const(4097), Sched::Cycle(vec![1, 0]), Sched::Cycle(vec![4096, 1])];
    let max_depth = if thorough { 9 } else { 7 };
    let state_cap: usize = if thorough { 1_000_000 } else { 120_000 };
    let mut cfg_no = 0u64;
    for (cap, low, dlen) in &configs {
        for sched in &scheds {
            cfg_no += 1;
            // whole configurations are sharded (a BFS is sequential)
            if !ctx.mine() {
                continue;
            }
            let data = Rc::new(pos_coded(*dlen));
            ctx.begin_family("reader_bfs", &format!("cap={cap} low={low} data={dlen} sched={} depth<={max_depth} ops={}", sched_json(sched), OPS.len()));
            let mut seen: HashSet<u64> = HashSet::new();
            let mut frontier: VecDeque<Vec<Op>> = VecDeque::new();
            frontier.push_back(vec![]);
            let mut states = 0u64;
            let mut transitions = 0u64;
            let mut complete = true;
            let mut depth_done = 0;
            while let Some(h) = frontier.pop_front() {
                if h.len() > depth_done {
                    depth_done = h.len();
                }
                if h.len() >= max_depth {
                    continue;
                }
                for op in OPS {
                    let mut h2 = h.clone();
                    h2.push(op);
                    let r = catch(|| {
                        let (sim, res) = exec(&data, *cap, *low, sched, &h2);
                        let fp = sim.fingerprint_with_src();
                        (fp, res, sim.landm.clone(), sim.short_reads(), dbg_fields(&sim.rd))
                    });
                    transitions += 1;
                    let cj = || json!({"family": "reader_bfs", "capacity": cap, "low_mark": low, "data_len": dlen, "schedule": sched_json(sched), "ops": h2.iter().map(|o| format!("{o:?}")).collect::<Vec<_>>()});
                    match r {
                        Err(p) => {
                            ctx.violation("panic", &p.loc, &cj, p.msg);
                        }
                        Ok((fp, res, lm, short, (_pos, abs_pos, _c, empty))) => {
                            if let Err((clause, detail, at)) = res {
                                let disc = if clause == "wrong_bytes" && lm.contains(&"backward_seek_ok") { "after_backward_seek" } else { "" };
                                ctx.violation(clause, disc, &cj, format!("at op #{at}: {detail}"));
                                continue;
                            }
                            for l in lm {
                                ctx.landmark(l);
                            }
                            if abs_pos > 0 {
                                ctx.landmark("compaction(abs_pos>0)");
                            }
                            if empty {
                                ctx.landmark("empty_last_read");
                            }
                            if short > 0 {
                                ctx.landmark("short_reads");
                            }
                            if seen.insert(fp) {
                                states += 1;
                                ctx.outcome(fp);
                                if seen.len() < state_cap {
                                    frontier.push_back(h2);
                                } else {
                                    complete = false;
                                }
                            }
                        }
                    }
                }
                if transitions % 4096 < OPS.len() as u64 && ctx.out_of_time() {
                    complete = false;
                    break;
                }
            }
            ctx.sum.states += states;
            ctx.sum.evaluations += states;
            ctx.sum.nontrivial += states.saturating_sub(1);
            ctx.sum.transitions += transitions;
            ctx.extra_add("bfs_configs", 1);
            let _ = cfg_no;
            ctx.sample(|| json!({"family":"reader_bfs","capacity":cap,"low_mark":low,"schedule":sched_json(sched),"states":states,"transitions":transitions,"depth":depth_done}));
            ctx.end_family(complete);
        }
    }
    // stateless (no dedup) tree to a smaller depth: guards against a too coarse fingerprint
    let d0 = if thorough { 5 } else { 4 };
    ctx.begin_family("reader_tree", &format!("no dedup: all op sequences of length {d0} over {} ops, cap=8192 low=4096, 2 schedules", OPS.len()));
    let data = Rc::new(pos_coded(20_000));
    let mut done = true;
    for sched in [Sched::Const(usize::MAX), Sched::Cycle(vec![4096, 1])] {
        done &= enumr::sequences(d0, OPS.len(), |ix| {
            if ctx.mine() {
                let h: Vec<Op> = ix.iter().map(|i| OPS[*i]).collect();
                let r = catch(|| exec(&data, 8192, 4096, &sched, &h).1);
                let cj = || json!({"family": "reader_bfs", "capacity": 8192, "low_mark": 4096, "data_len": 20000, "schedule": sched_json(&sched), "ops": h.iter().map(|o| format!("{o:?}")).collect::<Vec<_>>()});
                match r {
                    Err(p) => ctx.violation("panic", &p.loc, &cj, p.msg),
                    Ok(Err((clause, detail, at))) => ctx.violation(clause, "", &cj, format!("at op #{at}: {detail}")),
                    Ok(Ok(())) => {}
                }
                ctx.transitions(d0 as u64);
                ctx.eval(true);
            }
            !(ctx.sum.evaluations % 4096 == 0 && ctx.out_of_time())
        });
    }
    ctx.end_family(done);
    true
}

impl Sim {
    fn fingerprint_with_src(&self) -> u64 {
        let (pos, abs_pos, cap, e) = dbg_fields(&self.rd);
        // the source's own state (bytes delivered, calls made) is determined by abs_pos+cap and the call count
        // modulo the schedule period; we include both via the delivered count (= abs_pos + cap) and a call counter
        // mirrored in CALLS
        let calls = CALLS.with(|c| c.get());
        fnv_str(&format!("{pos}:{abs_pos}:{cap}:{e}:{}:{}:{}", calls % 6, self.cursor, fnv(self.rd.buffer())))
    }
    fn short_reads(&self) -> usize {
        SHORTS.with(|c| c.get())
    }
}
thread_local! {
    static CALLS: std::cell::Cell<usize> = const { std::cell::Cell::new(0) };
    static SHORTS: std::cell::Cell<usize> = const { std::cell::Cell::new(0) };
}

impl Prop for C04 {
    fn meta(&self, _t: Tier) -> Meta {
        Meta {
            id: "C04",
            level: "model_checking",
            rule: "(1) chunking: 13 byte streams (incl. serial framing with minimal 8..18 byte messages, maximum-size messages, embedded frame markers, 3 x capacity totals, serial framing, long garbage) x capacities {low+4096, low+4097, 512 KiB} (low = DLT_MIN_PARSER_LOOKAHEAD_SIZE, what the production call sites pass) x read-size schedules of a scripted source (constant k for 12-16 values incl. 1 and 65550..65556, every single deviation 'call #i returns 1 / half / asked-1 bytes' for i < 12, every pair of deviations, 3 cyclic patterns): DltMessageIterator over LowMarkBufReader must yield the same messages and counters as over the whole slice; every whole-message suffix parses to the tail; family garbage_windows: 3 messages + a marker-free region (two kinds: 0xFF and repeated 'DLT') + 2 messages, the region's length swept around the parser's look-ahead and around the end of the first buffer-full of each small capacity (17+13+13 lengths, thorough 49+29+29) x the capacities x 6 read schedules (unlimited, 1 byte, 4096, 65551, two cyclic). (2) reader alone: explicit-state BFS by re-execution over 19 operations (fill_buf, 4 consumes, 4 reads, 10 seeks with state-relative targets) from the initial state, per (capacity, low mark, data length, source schedule) configuration, states deduplicated on (pos, abs_pos, cap, empty_last_read, source call phase, model cursor, hash of the buffered bytes), plus an undeduplicated depth-4/5 tree. Oracle = byte vector + one cursor: bytes handed out / buffered equal the source's at the cursor, fill_buf returns >= min(low mark, remaining) and is empty only at the true end, seeks to targets inside the currently buffered range succeed, successful seeks re-deliver the source's bytes.".into(),
            assumptions: vec!["fingerprint argument: the reader's control flow depends only on its numeric fields and the source state; buffered content is hashed in; the undeduplicated tree cross-checks small depths".into(),
                "consume(n) is only called with n <= buffered bytes (BufRead contract)".into()],
            budget_s: (120, 1200),
            workers: 0,
            required_landmarks: vec!["chunk_case", "garbage_window_case", "suffix_case", "compaction(abs_pos>0)", "empty_last_read", "short_reads", "backward_seek_ok"],
        }
    }
    fn run(&self, ctx: &mut Ctx) {
        if !reader_bfs(ctx) {
            return;
        }
        if !chunking(ctx) {
            return;
        }
        garbage_windows(ctx);
    }
    fn replay(&self, case: &Value, ctx: &mut Ctx) {
        ctx.mine();
        match case["family"].as_str().unwrap_or("") {
            "chunking" => {
                let sds = streams();
                let sd = sds.iter().find(|s| s.name == case["stream"].as_str().unwrap()).expect("stream");
                let data = Rc::new(sd.bytes.clone());
                let reference = parse_all(&data[..], 0);
                run_chunk_case(ctx, sd, &data, &reference, case["capacity"].as_u64().unwrap() as usize, &sched_from_json(&case["schedule"]));
            }
            "garbage_windows" => {
                let u = |k: &str| case[k].as_u64().unwrap() as usize;
                run_garbage_window_case(ctx, u("garbage_len"), u("garbage_kind"), u("capacity"), &sched_from_json(&case["schedule"]));
            }
            "reader_bfs" => {
                let ops: Vec<Op> = case["ops"].as_array().unwrap().iter().map(|o| *OPS.iter().find(|x| format!("{x:?}") == o.as_str().unwrap()).expect("op")).collect();
                let data = Rc::new(pos_coded(case["data_len"].as_u64().unwrap() as usize));
                let sched = sched_from_json(&case["schedule"]);
                let r = catch(|| exec(&data, case["capacity"].as_u64().unwrap() as usize, case["low_mark"].as_u64().unwrap() as usize, &sched, &ops).1);
                let cj = || case.clone();
                match r {
                    Err(p) => ctx.violation("panic", &p.loc, &cj, p.msg),
                    Ok(Err((clause, detail, at))) => ctx.violation(clause, "", &cj, format!("at op #{at}: {detail}")),
                    Ok(Ok(())) => {}
                }
                ctx.eval(true);
            }
            _ => {
                // suffix cases are re-run through the chunking family of their stream
                let sds = streams();
                let sd = sds.iter().find(|s| s.name == case["stream"].as_str().unwrap()).expect("stream");
                let k = case["from_message"].as_u64().unwrap() as usize;
                let data = Rc::new(sd.bytes.clone());
                let reference = parse_all(&data[..], 0);
                let off = sd.built[k].0;
                let got = parse_all(&data[off..], 0);
                if got.0.len() != reference.0.len() - k {
                    ctx.violation("position_dependent", "", &|| case.clone(), "suffix parse differs".into());
                }
                ctx.eval(true);
            }
        }
    }
}
