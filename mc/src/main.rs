//! mc — bounded exhaustive explorers for the adlt properties (see /verif/DESIGN.md)
#![allow(clippy::type_complexity)]
mod c01;
mod c02;
mod c03;
mod c04;
mod c08;
mod c09;
mod c10;
mod c11;
mod c12;
mod c13r;
mod c14;
mod c16;
mod c17;
mod c18;
mod c19;
mod c20;
mod core;
mod lc;
mod lcgen;
mod rem;

use crate::core::*;

#[global_allocator]
static GLOBAL: crate::core::alloc::CachingAlloc = crate::core::alloc::CachingAlloc;

fn prop_by_id(id: &str) -> Option<Box<dyn Prop>> {
    Some(match id {
        "C01" => Box::new(c01::C01),
        "C02" => Box::new(c02::C02),
        "C03" => Box::new(c03::C03),
        "C04" => Box::new(c04::C04),
        "C08" => Box::new(c08::C08),
        "C05" => Box::new(lc::LcProp(lc::Which::C05)),
        "C06" => Box::new(lc::LcProp(lc::Which::C06)),
        // C07 is served by two engines: MC_ENGINE=remote_client selects the second one (the table as told to a remote client)
        "C07" if std::env::var("MC_ENGINE").ok().as_deref() == Some("remote_client") => Box::new(c13r::C13r("C07")),
        "C07" => Box::new(lc::LcProp(lc::Which::C07)),
        "C09" => Box::new(c09::C09),
        "C10" => Box::new(c10::C10),
        "C11" => Box::new(c11::C11),
        "C12" => Box::new(c12::C12),
        "C13" => Box::new(c13r::C13r("C13")),
        "C16" => Box::new(c16::C16),
        "C17" => Box::new(c17::C17Prop),
        "C18" => Box::new(c18::C18),
        "C19" => Box::new(c19::C19),
        "C20" => Box::new(c20::C20Prop),
        "C14" => Box::new(c14::C14),
        "C15" => Box::new(rem::C15),
        _ => return None,
    })
}

fn usage() -> ! {
    eprintln!("usage: mc <Cnn> quick|thorough [--replay <file>] [--worker i/n --out <file>]");
    std::process::exit(2)
}

fn main() {
    let args: Vec<String> = std::env::args().collect();
    if args.len() < 2 {
        usage();
    }
    let id = args[1].clone();
    let prop = match prop_by_id(&id) {
        Some(p) => p,
        None => {
            eprintln!("unknown property {id}");
            std::process::exit(2)
        }
    };
    install_panic_hook();
    let seed: u64 = std::env::var("VERIF_SEED").ok().and_then(|s| s.parse().ok()).unwrap_or(0);
    let mut tier = match std::env::var("VERIF_TIER").ok().as_deref() {
        Some("thorough") => Tier::Thorough,
        _ => Tier::Quick,
    };
    let mut i = 2;
    let mut replay: Option<String> = None;
    let mut worker: Option<(u64, u64)> = None;
    let mut out: Option<String> = None;
    let mut resume: Option<u64> = None;
    while i < args.len() {
        match args[i].as_str() {
            "quick" => tier = Tier::Quick,
            "thorough" => tier = Tier::Thorough,
            "--replay" => {
                i += 1;
                replay = Some(args.get(i).cloned().unwrap_or_else(|| usage()));
            }
            "--worker" => {
                i += 1;
                let s = args.get(i).cloned().unwrap_or_else(|| usage());
                let (a, b) = s.split_once('/').unwrap_or_else(|| usage());
                worker = Some((a.parse().unwrap(), b.parse().unwrap()));
            }
            "--out" => {
                i += 1;
                out = Some(args.get(i).cloned().unwrap_or_else(|| usage()));
            }
            "--resume-after" => {
                i += 1;
                resume = args.get(i).and_then(|x| x.parse::<u64>().ok());
            }
            _ => usage(),
        }
        i += 1;
    }
    let code = if let Some(r) = replay {
        replay_main(prop.as_ref(), &r)
    } else if let Some((s, n)) = worker {
        worker_main(prop.as_ref(), tier, seed, s, n, &out.unwrap_or_else(|| usage()), resume)
    } else {
        parent_main(prop.as_ref(), tier, seed)
    };
    std::process::exit(code)
}
