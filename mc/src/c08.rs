//! C08 — cleanly separated power cycles are detected exactly (ground-truth traces, exhaustive product).
use crate::core::dltgen::{mk_msg, MTIN_LOG_INFO_V};
use crate::core::*;
use crate::lc::run_stage;
use adlt::dlt::DltMessage;
use serde_json::{json, Value};
use std::collections::BTreeMap;

pub struct C08;

const S: u64 = 1_000_000;
const BASE: u64 = 1_600_000_000 * S;

/// timestamp profiles of a boot (us)
const PROFILES: [&[u64]; 8] = [
    &[0],
    &[S / 2],
    &[0, 3 * S],
    &[3 * S, 12 * S],
    &[0, 12 * S, 70 * S],
    &[70 * S],
    &[S / 2, 3 * S, 12 * S],
    &[12 * S, 70 * S],
];
const DELAYS: [u64; 3] = [0, 2 * S, 20 * S];
const OFFS: [u64; 4] = [1000, 5 * S, 15 * S, 100 * S];

#[derive(Clone, Debug)]
pub struct Boot {
    pub profile: usize,
    pub delay: usize,
    /// off time before this boot (index into OFFS; ignored for the first boot)
    pub off: usize,
    /// permutation index of the messages inside the boot
    pub perm: usize,
}
#[derive(Clone, Debug)]
struct Truth {
    ecu: u8,
    start: u64, // boot + delay
    end: u64,   // start + max ts
    nr: u32,
}

fn perms(n: usize) -> Vec<Vec<usize>> {
    let mut v = vec![];
    enumr::permutations(n, |p| {
        v.push(p.to_vec());
        true
    });
    v
}

/// build the per-ECU message list (stream order) + ground truth; returns None when the premise
/// ("all messages of a boot precede in reception time every message of the next boot") does not hold
fn ecu_trace(ecu: u8, boots: &[Boot], t0: u64, strict: bool) -> Option<(Vec<(u64, u32, usize)>, Vec<Truth>, bool)> {
    // (reception, ts_dms, boot index)
    let mut msgs = vec![];
    let mut truth = vec![];
    let mut boot_time = t0;
    let mut prev_max_recv = 0u64;
    let mut prev_end = 0u64;
    let mut delay_drop = false;
    for (bi, b) in boots.iter().enumerate() {
        let prof = PROFILES[b.profile];
        let d = DELAYS[b.delay];
        if bi > 0 {
            // previous boot ran for its largest timestamp, then was off for OFFS[off]
            let pb = &boots[bi - 1];
            let dur = *PROFILES[pb.profile].iter().max().unwrap();
            boot_time += dur + OFFS[b.off];
        }
        let maxts = *prof.iter().max().unwrap();
        let start = boot_time + d;
        let p = &perms(prof.len())[b.perm];
        let mut min_recv = u64::MAX;
        let mut max_recv = 0;
        for &i in p {
            let ts = prof[i];
            let recv = boot_time + ts + d;
            min_recv = min_recv.min(recv);
            max_recv = max_recv.max(recv);
            msgs.push((recv, (ts / 100) as u32, bi));
        }
        if strict && bi > 0 && min_recv <= prev_max_recv {
            return None; // not cleanly separated in reception time
        }
        if bi > 0 && start <= prev_end {
            delay_drop = true; // known heuristic limit: calculated start not after the previous calculated end
        }
        prev_max_recv = max_recv;
        prev_end = start + maxts;
        truth.push(Truth { ecu, start, end: start + maxts, nr: prof.len() as u32 });
    }
    Some((msgs, truth, delay_drop))
}

struct Case {
    ecus: Vec<Vec<Boot>>,
    /// interleaving: for each output position the ECU index
    inter: Vec<usize>,
    /// message index = position x stride (the detector schedules its regular table refresh by index distance)
    stride: u32,
    /// Some(k): the indices of the messages from position k on are 100 001 higher (one regular refresh, at position k)
    jump_at: Option<usize>,
    /// boot time of the first ECU's first boot (the recorder's clock); usually BASE, 0 = a clock that starts at the epoch
    base: u64,
}

fn case_json(c: &Case) -> Value {
    json!({"family": "boots", "ecus": c.ecus.iter().map(|bs| bs.iter().map(|b| json!({"ts_us": PROFILES[b.profile], "delay_us": DELAYS[b.delay], "off_us": OFFS[b.off], "perm": b.perm, "p": [b.profile, b.delay, b.off, b.perm]})).collect::<Vec<_>>()).collect::<Vec<_>>(), "interleaving": c.inter, "index_stride": c.stride, "index_jump_at": c.jump_at, "base_us": c.base})
}

fn run_case(ctx: &mut Ctx, c: &Case) {
    let cj = || case_json(c);
    // per ECU traces
    let mut per: Vec<(Vec<(u64, u32, usize)>, Vec<Truth>)> = vec![];
    let mut delay_drop = false;
    for (e, boots) in c.ecus.iter().enumerate() {
        match ecu_trace(e as u8, boots, c.base + e as u64 * 7 * S, true) {
            None => {
                ctx.landmark("premise_not_met(reception overlap)");
                return;
            }
            Some((m, t, dd)) => {
                delay_drop |= dd;
                per.push((m, t));
            }
        }
    }
    // interleave
    let mut cursors = vec![0usize; per.len()];
    let mut msgs: Vec<DltMessage> = vec![];
    let mut owner: Vec<(usize, usize)> = vec![]; // (ecu, boot)
    for &e in &c.inter {
        let (recv, ts, bi) = per[e].0[cursors[e]];
        cursors[e] += 1;
        let name = [b'E', b'C', b'U', b'A' + e as u8];
        let jump = if c.jump_at.map(|k| msgs.len() >= k).unwrap_or(false) { 100_001 } else { 0 };
        msgs.push(mk_msg(msgs.len() as u32 * c.stride + jump, &name, recv, ts, true, Some((MTIN_LOG_INFO_V, 0, *b"APID", *b"CTID")), vec![msgs.len() as u8]));
        owner.push((e, bi));
    }
    let res = run_stage(&[&msgs]);
    ctx.transitions(msgs.len() as u64);
    let disc = if delay_drop { "delay_drop_gt_offtime" } else { "" };
    let nboots: usize = c.ecus.iter().map(|b| b.len()).sum();
    let nontrivial = nboots >= 2;
    ctx.eval(nontrivial);
    ctx.sample(cj);
    if delay_drop {
        ctx.landmark("delay_drop_case");
    }
    if c.ecus.len() >= 2 {
        ctx.landmark("two_ecus");
    }
    if c.ecus.iter().any(|b| b.len() >= 2) {
        ctx.landmark("multi_boot");
    }
    if c.ecus.iter().flatten().any(|b| b.perm > 0) {
        ctx.landmark("permuted_within_boot");
    }
    let res = match res {
        Err(p) => {
            ctx.violation("panic", &p.loc, cj, p.msg);
            return;
        }
        Ok(r) => r,
    };
    if res.delivered.len() != msgs.len() {
        ctx.violation("lost_messages", disc, cj, format!("{} of {} delivered", res.delivered.len(), msgs.len()));
        return;
    }
    // map (ecu, boot) -> lifecycle id via the delivered messages
    let mut map: BTreeMap<(usize, usize), u32> = BTreeMap::new();
    let mut rev: BTreeMap<u32, (usize, usize)> = BTreeMap::new();
    for (m, _) in &res.delivered {
        let pos = if c.jump_at.is_some() && m.index >= 100_001 { (m.index - 100_001) / c.stride } else { m.index / c.stride };
        let o = owner[pos as usize];
        if let Some(prev) = map.insert(o, m.lifecycle) {
            if prev != m.lifecycle {
                ctx.violation("boot_split", disc, cj, format!("messages of ECU {} boot {} are in different lifecycles", o.0, o.1));
                return;
            }
        }
        if let Some(prev) = rev.insert(m.lifecycle, o) {
            if prev != o {
                ctx.violation("boots_fused", disc, cj, format!("ECU {} boot {} and ECU {} boot {} share one lifecycle", prev.0, prev.1, o.0, o.1));
                return;
            }
        }
    }
    if res.table.len() != nboots {
        ctx.violation("lifecycle_count", disc, cj, format!("{} lifecycles reported for {} boots", res.table.len(), nboots));
        return;
    }
    ctx.outcome(fnv_str(&format!("{}:{}:{}", nboots, c.ecus.len(), res.table.values().filter(|l| l.is_resume).count())));
    if res.table.values().any(|l| l.is_resume) {
        ctx.landmark("resume_flagged(allowed)");
    }
    for ((e, bi), id) in &map {
        let t = &per[*e].1[*bi];
        let l = match res.table.get(id) {
            Some(l) => l,
            None => {
                ctx.violation("id_unknown", disc, cj, format!("lifecycle {id} not in table"));
                return;
            }
        };
        if l.ecu[3] != b'A' + t.ecu {
            ctx.violation("wrong_ecu", disc, cj, format!("boot of ECU {} reported for {:?}", t.ecu, l.ecu));
            return;
        }
        if l.start != t.start {
            ctx.violation("start", disc, cj, format!("ECU {e} boot {bi}: start {} != boot+delay {}", l.start, t.start));
            return;
        }
        if l.end != t.end {
            ctx.violation("end", disc, cj, format!("ECU {e} boot {bi}: end {} != start+max ts {}", l.end, t.end));
            return;
        }
        if l.nr_msgs != t.nr {
            ctx.violation("nr_msgs", disc, cj, format!("ECU {e} boot {bi}: nr_msgs {} != {}", l.nr_msgs, t.nr));
            return;
        }
    }
}

/// the boot-history streams as plain message lists (premise not required): used by the C03 explorer as
/// valid multi-lifecycle inputs. f(messages as (ecu name, reception us, timestamp dms), case description)
pub fn history_streams(thorough: bool, f: &mut dyn FnMut(&[([u8; 4], u64, u32)], &dyn Fn() -> Value) -> bool) {
    let emit = |c: &Case, f: &mut dyn FnMut(&[([u8; 4], u64, u32)], &dyn Fn() -> Value) -> bool| -> bool {
        let per: Vec<Vec<(u64, u32, usize)>> = c.ecus.iter().enumerate().map(|(e, boots)| ecu_trace(e as u8, boots, BASE + e as u64 * 7 * S, false).unwrap().0).collect();
        let mut cursors = vec![0usize; per.len()];
        let mut out = vec![];
        for &e in &c.inter {
            let (recv, ts, _) = per[e][cursors[e]];
            cursors[e] += 1;
            out.push(([b'E', b'C', b'U', b'A' + e as u8], recv, ts));
        }
        f(&out, &|| case_json(c))
    };
    let all_p: Vec<usize> = (0..PROFILES.len()).collect();
    for nb in 1..=2usize {
        for bs in ecu_variants(nb, &all_p, &[0, 1, 2], &[0, 1, 2, 3], true) {
            let n: usize = bs.iter().map(|b| PROFILES[b.profile].len()).sum();
            if !emit(&Case { ecus: vec![bs], inter: vec![0; n], stride: 1, jump_at: None, base: BASE }, f) {
                return;
            }
        }
    }
    let profs2: Vec<usize> = if thorough { vec![0, 2, 3, 5, 7] } else { vec![0, 2, 5] };
    let dl2: Vec<usize> = if thorough { vec![0, 1, 2] } else { vec![0, 2] };
    let of2: Vec<usize> = if thorough { vec![0, 1, 3] } else { vec![0, 3] };
    for (na, nb) in [(1usize, 1usize), (2, 1), (2, 2)] {
        let va = ecu_variants(na, &profs2, &dl2, &of2, true);
        let vb = ecu_variants(nb, &profs2, &dl2, &of2, false);
        for a in &va {
            let la: usize = a.iter().map(|b| PROFILES[b.profile].len()).sum();
            for b in &vb {
                let lb: usize = b.iter().map(|x| PROFILES[x.profile].len()).sum();
                if la + lb > 7 {
                    continue;
                }
                let mut go = true;
                enumr::interleavings(&[la, lb], &mut |il| {
                    go = emit(&Case { ecus: vec![a.clone(), b.clone()], inter: il.to_vec(), stride: 1, jump_at: None, base: BASE }, f);
                    go
                });
                if !go {
                    return;
                }
            }
        }
    }
}

/// all boot parameter tuples for one ECU with nb boots over the given profile / delay / off index sets
fn ecu_variants(nb: usize, profs: &[usize], delays: &[usize], offs: &[usize], all_perms: bool) -> Vec<Vec<Boot>> {
    let mut per_boot: Vec<Boot> = vec![];
    for &p in profs {
        let np = if all_perms { perms(PROFILES[p].len()).len() } else { 1 };
        for &d in delays {
            for perm in 0..np {
                per_boot.push(Boot { profile: p, delay: d, off: 0, perm });
            }
        }
    }
    let mut out = vec![];
    let dims: Vec<usize> = (0..nb).map(|_| per_boot.len()).chain((1..nb).map(|_| offs.len())).collect();
    enumr::product(&dims, |ix| {
        let mut bs = vec![];
        for b in 0..nb {
            let mut bt = per_boot[ix[b]].clone();
            if b > 0 {
                bt.off = offs[ix[nb + b - 1]];
            }
            bs.push(bt);
        }
        out.push(bs);
        true
    });
    out
}

impl Prop for C08 {
    fn meta(&self, _t: Tier) -> Meta {
        Meta {
            id: "C08",
            level: "exploration",
            rule: "exhaustive product of ground-truth traces: 1..2 (thorough 3) ECUs x 1..3 boots each x per boot {8 timestamp profiles (1-3 messages, timestamps from {0,0.5,3,12,70} s) x delay {0,2,20} s x every permutation of the messages} x off-time {1 ms,5,15,100 s} x every interleaving of the ECUs' streams; reception = boot + timestamp + delay. Candidates whose boots overlap in reception time are classified as outside the premise and counted, not judged. Oracle: one lifecycle per boot, every message in its boot's lifecycle, start = boot+delay, end = start+max timestamp, nr_msgs. Cases where a later boot's calculated start is not after the previous boot's calculated end (delay dropped by more than the off-time) carry the discriminator delay_drop_gt_offtime. Non-trivial = >= 2 boots.".into(),
            assumptions: vec!["timestamps, delays and off-times from the stated grids".into()],
            budget_s: (90, 1200),
            workers: 0,
            required_landmarks: vec!["two_ecus", "multi_boot", "permuted_within_boot", "resume_flagged(allowed)", "epoch_zero"],
        }
    }
    fn run(&self, ctx: &mut Ctx) {
        let thorough = ctx.tier == Tier::Thorough;
        let all_p: Vec<usize> = (0..PROFILES.len()).collect();
        let all_d = [0usize, 1, 2];
        let all_o = [0usize, 1, 2, 3];
        // (a) one ECU, 1..2 boots, full parameter product incl. all permutations; 3 boots with a reduced profile set
        for nb in 1..=3usize {
            let profs: Vec<usize> = if nb < 3 { all_p.clone() } else if thorough { vec![0, 2, 3, 4, 5, 6] } else { vec![0, 2, 4, 5] };
            let vars = ecu_variants(nb, &profs, &all_d, &all_o, nb < 3 || thorough);
            ctx.begin_family("one_ecu", &format!("boots={nb} profiles={} delays=3 offs=4 perms={} -> {} traces", profs.len(), nb < 3 || thorough, vars.len()));
            let mut done = true;
            for bs in vars {
                if ctx.mine() {
                    let n: usize = bs.iter().map(|b| PROFILES[b.profile].len()).sum();
                    run_case(ctx, &Case { ecus: vec![bs], inter: vec![0; n], stride: 1, jump_at: None, base: BASE });
                    if ctx.sum.evaluations % 4096 == 0 && ctx.out_of_time() {
                        done = false;
                        break;
                    }
                }
            }
            ctx.end_family(done);
            if !done {
                return;
            }
        }
        // (a2) index gaps: indices 100 001 apart, so that a regular refresh of the published table follows every
        // directly forwarded message
        {
            let vars1 = ecu_variants(2, &all_p, &all_d, &all_o, true);
            ctx.begin_family("index_gaps", &format!("one ECU, boots=2, all profiles/delays/offs/perms ({} traces) + two ECUs boots=(2,1) reduced x all interleavings; index stride 100001", vars1.len()));
            for bs in vars1 {
                if ctx.mine() {
                    let n: usize = bs.iter().map(|b| PROFILES[b.profile].len()).sum();
                    run_case(ctx, &Case { ecus: vec![bs], inter: vec![0; n], stride: 100_001, jump_at: None, base: BASE });
                }
            }
            let va = ecu_variants(2, &[0, 2, 5], &[0, 2], &[0, 3], true);
            let vb = ecu_variants(1, &[0, 2, 5], &[0, 2], &[0, 3], false);
            for a in &va {
                let la: usize = a.iter().map(|b| PROFILES[b.profile].len()).sum();
                for b in &vb {
                    let lb: usize = b.iter().map(|x| PROFILES[x.profile].len()).sum();
                    if la + lb > 7 {
                        continue;
                    }
                    enumr::interleavings(&[la, lb], &mut |il| {
                        if ctx.mine() {
                            run_case(ctx, &Case { ecus: vec![a.clone(), b.clone()], inter: il.to_vec(), stride: 100_001, jump_at: None, base: BASE });
                        }
                        true
                    });
                }
            }
            ctx.end_family(true);
        }
        // (a3) one index jump: exactly one regular refresh, at every position of the stream
        {
            let vars1 = ecu_variants(2, &all_p, &all_d, &all_o, true);
            ctx.begin_family("index_jump", &format!("one ECU, boots=2, all profiles/delays/offs/perms ({} traces) x the indices jump by 100 001 at every position k >= 1 (one regular refresh of the published table, at message k)", vars1.len()));
            for bs in vars1 {
                let n: usize = bs.iter().map(|b| PROFILES[b.profile].len()).sum();
                for k in 1..n {
                    if ctx.mine() {
                        ctx.landmark("index_jump");
                        run_case(ctx, &Case { ecus: vec![bs.clone()], inter: vec![0; n], stride: 1, jump_at: Some(k), base: BASE });
                    }
                }
            }
            ctx.end_family(true);
        }
        // (a3) a recorder clock that starts at the epoch: boot time 0 (reception time = timestamp + delay)
        {
            ctx.begin_family("epoch_zero", "one ECU, boots=1..2, all profiles/delays/offs/perms, first boot at time 0 + two ECUs boots=(1,1) reduced x all interleavings");
            for nb in 1..=2usize {
                for bs in ecu_variants(nb, &all_p, &all_d, &all_o, true) {
                    if ctx.mine() {
                        let n: usize = bs.iter().map(|b| PROFILES[b.profile].len()).sum();
                        ctx.landmark("epoch_zero");
                        run_case(ctx, &Case { ecus: vec![bs], inter: vec![0; n], stride: 1, jump_at: None, base: 0 });
                    }
                }
            }
            let v1 = ecu_variants(1, &[0, 2, 5], &[0, 2], &[0], true);
            for a in &v1 {
                for b in &v1 {
                    let (la, lb) = (PROFILES[a[0].profile].len(), PROFILES[b[0].profile].len());
                    enumr::interleavings(&[la, lb], &mut |il| {
                        if ctx.mine() {
                            run_case(ctx, &Case { ecus: vec![a.clone(), b.clone()], inter: il.to_vec(), stride: 1, jump_at: None, base: 0 });
                        }
                        true
                    });
                }
            }
            ctx.end_family(true);
        }
        // (b) two ECUs, 1..2 boots each, reduced profiles, every interleaving
        let profs2: Vec<usize> = if thorough { vec![0, 1, 2, 3, 4, 5, 7] } else { vec![0, 2, 5] };
        let dl2: Vec<usize> = if thorough { vec![0, 1, 2] } else { vec![0, 2] };
        let of2: Vec<usize> = if thorough { vec![0, 1, 2, 3] } else { vec![0, 3] };
        let shapes: &[(usize, usize)] = if thorough { &[(1, 1), (2, 1), (1, 2), (2, 2), (3, 1)] } else { &[(1, 1), (2, 1), (2, 2)] };
        for &(na, nb) in shapes {
            let va = ecu_variants(na, &profs2, &dl2, &of2, true);
            let vb = ecu_variants(nb, &profs2, &dl2, &of2, false);
            ctx.begin_family("two_ecus", &format!("boots=({na},{nb}) profiles={} delays={} offs={} x all interleavings", profs2.len(), dl2.len(), of2.len()));
            let mut done = true;
            'o: for a in &va {
                let la: usize = a.iter().map(|b| PROFILES[b.profile].len()).sum();
                for b in &vb {
                    let lb: usize = b.iter().map(|x| PROFILES[x.profile].len()).sum();
                    if la + lb > if thorough { 8 } else { 7 } {
                        continue;
                    }
                    let cont = enumr::interleavings(&[la, lb], &mut |il| {
                        if ctx.mine() {
                            run_case(ctx, &Case { ecus: vec![a.clone(), b.clone()], inter: il.to_vec(), stride: 1, jump_at: None, base: BASE });
                        }
                        true
                    });
                    if !cont || (ctx.sum.evaluations % 1024 < 64 && ctx.out_of_time()) {
                        done = false;
                        break 'o;
                    }
                }
            }
            ctx.end_family(done);
            if !done {
                return;
            }
        }
        if !thorough {
            return;
        }
        // (c) three ECUs, one boot each, every interleaving
        let v1 = ecu_variants(1, &[0, 2, 5], &[0, 2], &[0], true);
        ctx.begin_family("three_ecus", "1 boot each, 3 profiles x 2 delays x perms, every interleaving");
        let mut done = true;
        'p: for a in &v1 {
            for b in &v1 {
                for c3 in &v1 {
                    let l: Vec<usize> = [a, b, c3].iter().map(|v| PROFILES[v[0].profile].len()).collect();
                    let cont = enumr::interleavings(&l, &mut |il| {
                        if ctx.mine() {
                            run_case(ctx, &Case { ecus: vec![a.clone(), b.clone(), c3.clone()], inter: il.to_vec(), stride: 1, jump_at: None, base: BASE });
                        }
                        true
                    });
                    if !cont || ctx.out_of_time() {
                        done = false;
                        break 'p;
                    }
                }
            }
        }
        ctx.end_family(done);
    }
    fn replay(&self, case: &Value, ctx: &mut Ctx) {
        ctx.mine();
        let ecus: Vec<Vec<Boot>> = case["ecus"]
            .as_array()
            .unwrap()
            .iter()
            .map(|bs| {
                bs.as_array()
                    .unwrap()
                    .iter()
                    .map(|b| {
                        let p = &b["p"];
                        Boot { profile: p[0].as_u64().unwrap() as usize, delay: p[1].as_u64().unwrap() as usize, off: p[2].as_u64().unwrap() as usize, perm: p[3].as_u64().unwrap() as usize }
                    })
                    .collect()
            })
            .collect();
        let inter: Vec<usize> = case["interleaving"].as_array().unwrap().iter().map(|x| x.as_u64().unwrap() as usize).collect();
        let stride = case["index_stride"].as_u64().unwrap_or(1) as u32;
        let jump_at = case["index_jump_at"].as_u64().map(|x| x as usize);
        let base = case["base_us"].as_u64().unwrap_or(BASE);
        run_case(ctx, &Case { ecus, inter, stride, jump_at, base });
    }
}
