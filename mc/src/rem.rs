//! Remote server explorers (C15, C16 server level): drive the real handler functions through the cfg-guarded
//! `adlt verif-driver` step executor (in-memory websocket, receive budget ticks).
use crate::core::dltgen::*;
use crate::core::*;
use serde_json::{json, Value};
use std::collections::{BTreeMap, BTreeSet, HashSet};
use std::io::{BufRead, BufReader, Write};
use std::process::{Child, ChildStdin, Command, Stdio};
use std::sync::mpsc::{channel, Receiver};
use std::sync::{Arc, Mutex};
use std::time::Duration;

/// where the adlt binary (hooks on) is built from / to; overridable for scratch runs against a worktree
pub fn adlt_repo() -> String {
    std::env::var("MC_ADLT_REPO").unwrap_or_else(|_| "/repo".into())
}
pub fn adlt_target() -> String {
    std::env::var("MC_ADLT_TARGET").unwrap_or_else(|_| "/verif/target-mc".into())
}
pub fn adlt_bin() -> String {
    format!("{}/release/adlt", adlt_target())
}

/// build the adlt binary (hooks on) from /repo's working tree
pub fn build_adlt_bin() -> Result<(), String> {
    let out = Command::new("cargo")
        .args(["build", "--offline", "--release", "--bin", "adlt", "--manifest-path", &format!("{}/Cargo.toml", adlt_repo())])
        .env("RUSTFLAGS", "--cfg adlt_verif")
        .env("CARGO_TARGET_DIR", adlt_target())
        .env("CARGO_PROFILE_RELEASE_OVERFLOW_CHECKS", "true")
        .env("CARGO_NET_OFFLINE", "true")
        .output()
        .map_err(|e| e.to_string())?;
    if !out.status.success() {
        return Err(String::from_utf8_lossy(&out.stderr).lines().filter(|l| l.starts_with("error")).take(10).collect::<Vec<_>>().join("; "));
    }
    Ok(())
}

// ------------------------------------------------------------------ generated log file
#[derive(Clone, Debug)]
pub struct LogMsg {
    pub index: u32,
    pub ecu: String,
    pub apid: String,
    pub ctid: String,
    pub reception_us: u64,
    pub timestamp_dms: u32,
    pub mcnt: u8,
    pub htyp: u8,
    pub verb_mstp_mtin: u8,
    pub noar: u8,
    pub text: String,
}
pub fn verbose_str_payload(s: &str) -> Vec<u8> {
    let mut p = vec![];
    p.extend_from_slice(&(0x0000_0200u32 | 0x8000).to_le_bytes());
    p.extend_from_slice(&((s.len() + 1) as u16).to_le_bytes());
    p.extend_from_slice(s.as_bytes());
    p.push(0);
    p
}
pub fn gen_log(n: usize) -> (Vec<u8>, Vec<LogMsg>) {
    let mut bytes = vec![];
    let mut infos = vec![];
    for i in 0..n {
        let ecu = if i % 3 == 2 { *b"ECU2" } else { *b"ECU1" };
        let apid = if i % 2 == 0 { *b"APA\0" } else { *b"APB\0" };
        let ctid = *b"CTX1";
        let text = format!("msg {} {}", i, if i % 2 == 0 { "even" } else { "odd" });
        let spec = MsgSpec {
            framing: Framing::Storage,
            htyp: VERS1 | UEH | WEID | WTMS,
            storage_ecu: ecu,
            hdr_ecu: ecu,
            apid,
            ctid,
            mcnt: i as u8,
            session_id: 0,
            // ECU2 has been up 40 s longer than ECU1: the two lifecycles start at clearly different times
            timestamp: if i % 3 == 2 { 500_000 } else { 100_000 } + i as u32 * 10_000,
            secs: 1_650_000_000 + i as u32,
            micros: 1000 * i as u32,
            verb_mstp_mtin: 0x41,
            noar: 1,
            payload: verbose_str_payload(&text),
        };
        bytes.extend_from_slice(&spec.to_bytes());
        infos.push(LogMsg {
            index: i as u32,
            ecu: String::from_utf8_lossy(&ecu).to_string(),
            apid: String::from_utf8_lossy(&apid).to_string(),
            ctid: String::from_utf8_lossy(&ctid).to_string(),
            reception_us: spec.secs as u64 * 1_000_000 + spec.micros as u64,
            timestamp_dms: spec.timestamp,
            mcnt: spec.mcnt,
            htyp: spec.htyp,
            verb_mstp_mtin: 0x41,
            noar: 1,
            text,
        });
    }
    (bytes, infos)
}
/// many minimal messages (one ECU, one lifecycle): used to saturate the bounded pipeline channels
pub fn gen_big_log(n: usize) -> Vec<u8> {
    let mut b = Vec::with_capacity(n * 36);
    for i in 0..n {
        let spec = MsgSpec {
            framing: Framing::Storage,
            htyp: VERS1 | WEID | WTMS,
            storage_ecu: *b"ECU1",
            hdr_ecu: *b"ECU1",
            mcnt: i as u8,
            timestamp: 100_000 + (i as u32) / 10,
            secs: 1_650_000_000 + (i / 100_000) as u32,
            micros: (i % 100_000) as u32 * 10,
            payload: vec![(i >> 16) as u8, (i >> 8) as u8, i as u8, 0],
            ..Default::default()
        };
        b.extend_from_slice(&spec.to_bytes());
    }
    b
}

/// "a close always completes - also while parsing is still running - after which a new open succeeds":
/// open a file large enough to fill the bounded channels while nothing is consumed (paused), wait until the
/// pipeline threads block in send, then close (watchdog) and open/close again.
pub fn backpressure_close(big: &str, small: &str, variant: &str) -> Vec<(String, String, String)> {
    let mut viol = vec![];
    let mut d = Driver::spawn();
    let mut run = || -> Result<(), DriverErr> {
        let open = match variant {
            "onepass_paused" => format!(r#"C open {{"files":["{big}"],"collect":"one_pass_streams"}}"#),
            "sorted_paused" => format!(r#"C open {{"files":["{big}"],"sort":true}}"#),
            _ => format!(r#"C open {{"files":["{big}"]}}"#),
        };
        let r = d.step(&open, 60)?;
        if !r["frames"][0]["t"].as_str().unwrap_or("").starts_with("ok:") {
            viol.push(("backpressure_open_rejected".into(), variant.into(), r["frames"].to_string()));
            return Ok(());
        }
        if variant != "onepass_paused" {
            d.step("C pause", 90)?;
        }
        // wait until the parser thread is done (its output sits in the bounded channels) or is blocked itself
        let t0 = std::time::Instant::now();
        loop {
            let r = d.step("T 0", 90)?;
            let fin = r["state"]["pipeline"]["parse_finished"].as_bool().unwrap_or(false);
            if fin || t0.elapsed() > Duration::from_secs(6) {
                break;
            }
            std::thread::sleep(Duration::from_millis(100));
        }
        std::thread::sleep(Duration::from_millis(300));
        match d.step("C close", 120) {
            Err(DriverErr::Hang) => {
                viol.push(("hang".into(), "close_under_backpressure".into(), format!("close did not return within 120 s with the pipeline blocked on full channels (variant {variant})")));
                return Err(DriverErr::Hang);
            }
            Err(e) => return Err(e),
            Ok(r) => {
                let t = r["frames"][0]["t"].as_str().unwrap_or("").to_string();
                if !t.starts_with("ok:") || r["state"]["open"] != false {
                    viol.push(("close_under_backpressure".into(), variant.into(), format!("close answered '{t}', state {}", r["state"])));
                }
            }
        }
        let r = d.step(&format!(r#"C open {{"files":["{small}"]}}"#), 90)?;
        if !r["frames"][0]["t"].as_str().unwrap_or("").starts_with("ok:") {
            viol.push(("open_after_close_failed".into(), variant.into(), r["frames"].to_string()));
        }
        let r = d.step("T inf", 90)?;
        if r["state"]["all_msgs"].as_u64() != Some(8) {
            viol.push(("open_after_close_failed".into(), "messages".into(), format!("re-opened small file shows {} messages", r["state"]["all_msgs"])));
        }
        d.step("C close", 90)?;
        Ok(())
    };
    if let Err(e) = run() {
        if !matches!(e, DriverErr::Hang) || viol.is_empty() {
            viol.push((if matches!(e, DriverErr::Hang) { "hang".into() } else { "driver_died".into() }, format!("backpressure:{variant}"), format!("{e:?}")));
        }
        d.kill();
    }
    viol
}

pub fn scratch_dir() -> String {
    let d = format!("{}/target-mc/tmp/remote-{}", verif_dir(), std::process::id());
    std::fs::create_dir_all(&d).ok();
    d
}

// ------------------------------------------------------------------ driver process
pub struct Driver {
    child: Child,
    stdin: ChildStdin,
    rx: Receiver<String>,
    pub steps: u64,
}
#[derive(Debug)]
pub enum DriverErr {
    Hang,
    Died(String),
}
impl Driver {
    pub fn spawn() -> Driver {
        let mut child = Command::new(adlt_bin()).arg("verif-driver").stdin(Stdio::piped()).stdout(Stdio::piped()).stderr(Stdio::null()).spawn().expect("spawn adlt verif-driver");
        let stdin = child.stdin.take().unwrap();
        let stdout = child.stdout.take().unwrap();
        let (tx, rx) = channel();
        std::thread::spawn(move || {
            for l in BufReader::new(stdout).lines() {
                match l {
                    Ok(l) => {
                        // adlt itself prints diagnostics to stdout (e.g. the file-transfer save command): only the
                        // driver's own result lines are protocol
                        if !(l.starts_with('{') && l.contains("\"frames\"")) {
                            continue;
                        }
                        if tx.send(l).is_err() {
                            break;
                        }
                    }
                    Err(_) => break,
                }
            }
        });
        Driver { child, stdin, rx, steps: 0 }
    }
    pub fn step(&mut self, line: &str, timeout_s: u64) -> Result<Value, DriverErr> {
        self.steps += 1;
        if writeln!(self.stdin, "{}", line).is_err() || self.stdin.flush().is_err() {
            return Err(DriverErr::Died("stdin closed".into()));
        }
        match self.rx.recv_timeout(Duration::from_secs(timeout_s)) {
            Ok(l) => serde_json::from_str(&l).map_err(|e| DriverErr::Died(format!("bad driver output: {e}"))),
            Err(std::sync::mpsc::RecvTimeoutError::Timeout) => Err(DriverErr::Hang),
            Err(_) => Err(DriverErr::Died(format!("driver exited: {:?}", self.child.try_wait()))),
        }
    }
    pub fn kill(&mut self) {
        let _ = self.child.kill();
        let _ = self.child.wait();
    }
}
impl Drop for Driver {
    fn drop(&mut self) {
        let _ = writeln!(self.stdin, "Q");
        let _ = self.stdin.flush();
        std::thread::sleep(Duration::from_millis(5));
        self.kill();
    }
}

// ------------------------------------------------------------------ C15: alphabet and session model
#[derive(Clone, Copy, Debug, PartialEq, Eq, Hash, PartialOrd, Ord)]
pub enum IdRef {
    Last,
    First,
    Stale,
    Never,
    NonNumeric,
    Missing,
}
#[derive(Clone, Debug, PartialEq, Eq, Hash)]
pub enum Sym {
    /// raw command text (no id substitution); expectation class
    Raw(&'static str, &'static str), // (name, text with {FILE})
    /// command with an id: "<cmd> <id>[ <body>]"
    WithId(&'static str, &'static str, IdRef, Option<&'static str>), // (name, cmd, id, body)
    Tick(&'static str),
}
impl Sym {
    pub fn name(&self) -> String {
        match self {
            Sym::Raw(n, _) => n.to_string(),
            Sym::WithId(n, ..) => n.to_string(),
            Sym::Tick(t) => format!("T{t}"),
        }
    }
}

pub fn alphabet() -> Vec<Sym> {
    use IdRef::*;
    vec![
        Sym::Raw("open_ok", r#"open {"files":["{FILE}"]}"#),
        Sym::Raw("open_onepass", r#"open {"files":["{FILE}"],"collect":"one_pass_streams"}"#),
        Sym::Raw("open_nocollect", r#"open {"files":["{FILE}"],"collect":false}"#),
        Sym::Raw("open_sorted", r#"open {"files":["{FILE}"],"sort":true}"#),
        // two plugins of the same name + one that does not support commands (only used in prepared start states)
        Sym::Raw("open_plugins", r#"open {"files":["{FILE}"],"plugins":[{"name":"FileTransfer","allowSave":false},{"name":"FileTransfer","allowSave":false,"keepFLDA":true},{"name":"Rewrite","rewrites":[]}]}"#),
        // an archive: `open` answers while the extraction is pending (no parser threads yet); only used in a flow search
        Sym::Raw("open_zip", r#"open {"files":["{FILE}.zip"]}"#),
        Sym::Raw("open_missing_file", r#"open {"files":["/nonexistent/x.dlt"]}"#),
        Sym::Raw("open_malformed_json", r#"open {"files":"#),
        Sym::Raw("open_noarg", "open"),
        Sym::Raw("open_badcollect", r#"open {"files":["{FILE}"],"collect":"bogus"}"#),
        Sym::Raw("close", "close"),
        Sym::Raw("pause", "pause"),
        Sym::Raw("resume", "resume"),
        Sym::Raw("stream_default", "stream {}"),
        Sym::Raw("stream_window_bin", r#"stream {"window":[1,3],"binary":true}"#),
        Sym::Raw("stream_filters", r#"stream {"window":[0,10],"filters":[{"type":0,"ecu":"ECU1"}]}"#),
        Sym::Raw("stream_onepass", r#"stream {"one_pass":true,"window":[0,100],"binary":true}"#),
        Sym::Raw("stream_onepass_filters", r#"stream {"one_pass":true,"window":[0,100],"binary":true,"filters":[{"type":0,"ecu":"ECU1"}]}"#),
        Sym::Raw("stream_badwindow", r#"stream {"window":"x"}"#),
        Sym::Raw("stream_nobody", "stream"),
        Sym::Raw("stream_malformed", r#"stream {"window":[1,"#),
        Sym::Raw("query_window", r#"query {"window":[0,2]}"#),
        Sym::Raw("query_filters", r#"query {"window":[0,2],"filters":[{"type":0,"ecu":"ECU2"}]}"#),
        // a query whose window is wider than the matches of the log (only used in flow searches)
        Sym::Raw("query_filters_wide", r#"query {"window":[0,10],"filters":[{"type":0,"ecu":"ECU1"}]}"#),
        Sym::WithId("stop_last", "stop", Last, None),
        Sym::WithId("stop_first", "stop", First, None),
        Sym::WithId("stop_stale", "stop", Stale, None),
        Sym::WithId("stop_never", "stop", Never, None),
        Sym::WithId("stop_nonnumeric", "stop", NonNumeric, None),
        Sym::WithId("stop_missing", "stop", Missing, None),
        Sym::WithId("chgwin_last", "stream_change_window", Last, Some("1,4")),
        // a window that ends below the number of matches a filtered query may have collected already
        Sym::WithId("chgwin_last_shrink", "stream_change_window", Last, Some("0,1")),
        Sym::WithId("chgwin_last_nobody", "stream_change_window", Last, None),
        Sym::WithId("chgwin_last_malformed", "stream_change_window", Last, Some("x")),
        Sym::WithId("chgwin_first", "stream_change_window", First, Some("1,4")),
        Sym::WithId("chgwin_stale", "stream_change_window", Stale, Some("0,2")),
        Sym::WithId("chgwin_never", "stream_change_window", Never, Some("0,2")),
        Sym::WithId("bsearch_index", "stream_binary_search", Last, Some("index=2")),
        Sym::WithId("bsearch_time", "stream_binary_search", Last, Some("time_ms=0")),
        Sym::WithId("bsearch_nobody", "stream_binary_search", Last, None),
        Sym::WithId("bsearch_unknown", "stream_binary_search", Last, Some("foo=1")),
        Sym::WithId("bsearch_first", "stream_binary_search", First, Some("index=2")),
        Sym::WithId("bsearch_stale", "stream_binary_search", Stale, Some("index=2")),
        Sym::WithId("ssearch_good", "stream_search", Last, Some(r#"{"filters":[{"type":0,"ecu":"ECU1"}]}"#)),
        Sym::WithId("ssearch_paged", "stream_search", Last, Some(r#"{"start_idx":0,"max_results":1,"filters":[]}"#)),
        Sym::WithId("ssearch_nobody", "stream_search", Last, None),
        Sym::WithId("ssearch_malformed", "stream_search", Last, Some("{")),
        Sym::WithId("ssearch_stale", "stream_search", Stale, Some(r#"{"filters":[]}"#)),
        Sym::WithId("ssearch_missing_id", "stream_search", Missing, None),
        Sym::Raw("plugin_cmd_unknown_plugin", r#"plugin_cmd {"name":"nope","cmd":"x"}"#),
        Sym::Raw("plugin_cmd_ft_save", r#"plugin_cmd {"name":"FileTransfer","cmd":"save","params":{"saveAs":"/nonexistent-dir/x.bin"},"cmdCtx":{"save":{"idx":0}}}"#),
        Sym::Raw("plugin_cmd_rewrite", r#"plugin_cmd {"name":"Rewrite","cmd":"anything"}"#),
        Sym::Raw("plugin_cmd_malformed", "plugin_cmd {"),
        Sym::Raw("plugin_cmd_nonobject", "plugin_cmd [1]"),
        Sym::Raw("fs_stat", r#"fs {"cmd":"stat","path":"/repo/tests"}"#),
        Sym::Raw("fs_malformed", "fs {"),
        Sym::Raw("fs_nonobject", "fs 42"),
        Sym::Raw("unknown_word", "frobnicate 1"),
        Sym::Raw("empty", ""),
        Sym::Tick("0"),
        Sym::Tick("1"),
        Sym::Tick("3"),
        Sym::Tick("inf"),
    ]
}

#[derive(Clone, Debug, Default)]
pub struct Model {
    pub open: bool,
    pub collect: String,
    /// live stream ids in creation order
    pub live: Vec<u64>,
    pub stale: Vec<u64>,
    pub seen_ids: BTreeSet<u64>,
    pub poisoned: bool,
}

pub struct StepOutcome {
    pub fingerprint: String,
    /// violations of the LAST step: (clause, disc, detail)
    pub violations: Vec<(String, String, String)>,
    pub enabled: bool,
    pub reply_class: String,
}

fn reply_class(frames: &[Value]) -> Vec<String> {
    frames
        .iter()
        .filter_map(|f| f.get("t").and_then(|t| t.as_str()))
        .filter_map(|t| {
            if t.starts_with("ok:") {
                Some("ok".to_string())
            } else if t.starts_with("err:") {
                Some("err".to_string())
            } else if t.starts_with("unknown command") {
                Some("unknown".to_string())
            } else {
                None
            }
        })
        .collect()
}

fn extract_id(reply: &str) -> Option<u64> {
    // ok: stream {"id":7, ...}   |  ok: stream_change_window 5={"id":9,"window":[1,4]}
    let i = reply.find("\"id\":")?;
    let rest = &reply[i + 5..];
    let digits: String = rest.trim_start().chars().take_while(|c| c.is_ascii_digit()).collect();
    digits.parse().ok()
}

/// canonical form of the driver snapshot + model (stream ids renumbered by order)
fn canon_state(state: &Value, model: &Model) -> String {
    let mut s = state.clone();
    if let Some(o) = s.as_object_mut() {
        o.remove("pipeline"); // thread progress is timing dependent and not part of the session state
    }
    if let Some(streams) = s.get_mut("streams").and_then(|x| x.as_array_mut()) {
        for (i, st) in streams.iter_mut().enumerate() {
            st["id"] = json!(i);
        }
    }
    format!("{}|live={}|stale={}|poison={}", s, model.live.len(), !model.stale.is_empty(), model.poisoned)
}

pub struct Session {
    pub d: Driver,
    pub file: String,
    pub model: Model,
    pub last_state: Value,
    pub last_class: String,
}
impl Session {
    pub fn new(file: &str) -> Session {
        Session { d: Driver::spawn(), file: file.to_string(), model: Model::default(), last_state: json!({"open": false}), last_class: String::new() }
    }
    pub fn reset(&mut self) -> Result<(), DriverErr> {
        self.d.step("RESET", 90)?;
        self.model = Model::default();
        self.last_state = json!({"open": false});
        self.last_class.clear();
        Ok(())
    }
    pub fn fingerprint(&self) -> String {
        canon_state(&self.last_state, &self.model)
    }
    /// execute one symbol on the live session and judge it. Ok(None) = symbol not enabled in this state
    pub fn exec(&mut self, sym: &Sym) -> Result<Option<Vec<(String, String, String)>>, DriverErr> {
        let mut viol: Vec<(String, String, String)> = vec![];
        let mut viol: Vec<(String, String, String)> = vec![];
        // concretise
        let (line, idref, used_id): (String, Option<IdRef>, Option<u64>) = match sym {
            Sym::Raw(_, t) => (format!("C {}", t.replace("{FILE}", &self.file)), None, None),
            Sym::Tick(t) => (format!("T {t}"), None, None),
            Sym::WithId(_, cmd, idr, body) => {
                let id: Option<String> = match idr {
                    IdRef::Last => self.model.live.last().map(|x| x.to_string()),
                    IdRef::First => {
                        if self.model.live.len() >= 2 {
                            self.model.live.first().map(|x| x.to_string())
                        } else {
                            None
                        }
                    }
                    IdRef::Stale => self.model.stale.last().map(|x| x.to_string()),
                    IdRef::Never => Some("999999".into()),
                    IdRef::NonNumeric => Some("abc".into()),
                    IdRef::Missing => Some(String::new()),
                };
                match id {
                    None => {
                        return Ok(None);
                    }
                    Some(id) => {
                        let n = id.parse::<u64>().ok();
                        let l = match body {
                            Some(b) => format!("C {cmd} {id} {b}"),
                            None => format!("C {cmd} {id}"),
                        };
                        (l.trim_end().to_string(), Some(*idr), n)
                    }
                }
            }
        };
        let r = self.d.step(&line, 90)?;
        let frames = r["frames"].as_array().cloned().unwrap_or_default();
        let state = r["state"].clone();
        let is_tick = matches!(sym, Sym::Tick(_));
        // ---- generic clauses
        if let Some(p) = r["panic"].as_str() {
            let (loc, msg) = p.split_once('|').unwrap_or((p, ""));
            viol.push(("panic".into(), loc.trim_start_matches("/repo/").to_string(), format!("{} panicked: {msg}", sym.name())));
            self.model.poisoned = true;
        }
        let classes = reply_class(&frames);
        if is_tick {
            if !classes.is_empty() {
                viol.push(("reply_without_command".into(), "".into(), format!("tick produced reply frames {:?}", classes)));
            }
            // frames for stream ids: only live ids may be addressed
            for f in &frames {
                let sid = if f["b"] == "DltMsgs" {
                    f["id"].as_u64()
                } else if f["b"] == "StreamInfo" {
                    f["stream_id"].as_u64()
                } else if let Some(t) = f.get("t").and_then(|t| t.as_str()) {
                    t.strip_prefix("stream:").and_then(|r| r.split(' ').next()).and_then(|x| x.parse().ok())
                } else {
                    None
                };
                if let Some(sid) = sid {
                    if !self.model.live.contains(&sid) {
                        viol.push(("frame_for_dead_stream".into(), "".into(), format!("frame for stream id {sid} which is not live (live {:?})", self.model.live)));
                    }
                    // end-of-query marker
                    if f["b"] == "DltMsgs" && f["msgs"].as_array().map(|a| a.is_empty()).unwrap_or(false) {
                        self.model.live.retain(|x| *x != sid);
                        self.model.stale.push(sid);
                    }
                }
            }
        } else if r["panic"].is_null() {
            if frames.len() != 1 || classes.len() != 1 {
                viol.push(("reply_count".into(), sym.name(), format!("{} frames ({} replies) for one command: {:?}", frames.len(), classes.len(), frames.iter().map(|f| f.to_string().chars().take(80).collect::<String>()).collect::<Vec<_>>())));
            }
            let class = classes.first().cloned().unwrap_or_default();
            self.last_class = class.clone();
            let reply = frames.first().and_then(|f| f["t"].as_str()).unwrap_or("").to_string();
            let name = sym.name();
            let expect: Option<&str> = match sym {
                Sym::Raw(n, _) => match *n {
                    "open_ok" | "open_onepass" | "open_nocollect" | "open_sorted" | "open_plugins" | "open_zip" => Some(if self.model.open { "err" } else { "ok" }),
                    "open_missing_file" | "open_malformed_json" | "open_noarg" | "open_badcollect" => Some("err"),
                    "close" | "pause" | "resume" => Some(if self.model.open { "ok" } else { "err" }),
                    "stream_nobody" | "stream_malformed" => Some("err"),
                    "stream_default" | "stream_window_bin" | "stream_filters" | "query_window" | "query_filters" | "query_filters_wide" => {
                        if !self.model.open {
                            Some("err")
                        } else if self.model.collect == "All" {
                            Some("ok")
                        } else {
                            None
                        }
                    }
                    "stream_onepass" | "stream_onepass_filters" => {
                        if !self.model.open {
                            Some("err")
                        } else if self.model.collect == "All" {
                            Some("ok")
                        } else {
                            None
                        }
                    }
                    "plugin_cmd_malformed" | "plugin_cmd_nonobject" | "fs_malformed" | "fs_nonobject" | "plugin_cmd_unknown_plugin" | "plugin_cmd_rewrite" => Some("err"),
                    "fs_stat" => Some("ok"),
                    "unknown_word" | "empty" => Some("unknown"),
                    _ => None,
                },
                Sym::WithId(_, cmd, idr, body) => match (idr, *cmd) {
                    (IdRef::Stale | IdRef::Never | IdRef::NonNumeric | IdRef::Missing, _) => Some("err"),
                    (_, "stop") => Some("ok"),
                    (_, "stream_change_window") => match body {
                        Some("1,4") | Some("0,1") => {
                            // window changes of one_pass streams are documented as unsupported: class not prescribed
                            let one_pass = used_id.and_then(|id| self.last_state["streams"].as_array().and_then(|a| a.iter().find(|s| s["id"].as_u64() == Some(id)).map(|s| s["one_pass"] == true))).unwrap_or(false);
                            if one_pass {
                                None
                            } else {
                                Some("ok")
                            }
                        }
                        _ => Some("err"),
                    },
                    (_, "stream_binary_search") if body.is_none() || *body == Some("foo=1") => Some("err"),
                    (_, "stream_search") if body.is_none() || *body == Some("{") => Some("err"),
                    _ => None,
                },
                Sym::Tick(_) => None,
            };
            if let Some(e) = expect {
                if class != e && !class.is_empty() {
                    viol.push(("reply_class".into(), name.clone(), format!("{} answered '{}' but the session model expects {e} (open={}, live={:?}, stale={:?})", name, reply.chars().take(120).collect::<String>(), self.model.open, self.model.live, self.model.stale)));
                }
            }
            // ---- model update from the reply
            if class == "ok" {
                match sym {
                    Sym::Raw(n, _) if n.starts_with("open_") => {
                        self.model.open = true;
                        self.model.collect = state["collect"].as_str().unwrap_or("").to_string();
                    }
                    Sym::Raw("close", _) => {
                        self.model.open = false;
                        let l = std::mem::take(&mut self.model.live);
                        self.model.stale.extend(l);
                    }
                    Sym::Raw(n, _) if n.starts_with("stream_") || n.starts_with("query_") => match extract_id(&reply) {
                        Some(id) => {
                            if !self.model.seen_ids.insert(id) {
                                viol.push(("id_not_fresh".into(), "".into(), format!("id {id} was issued before")));
                            }
                            self.model.live.push(id);
                        }
                        None => viol.push(("ok_without_id".into(), name.clone(), reply.clone())),
                    },
                    Sym::WithId(_, "stop", _, _) => {
                        if let Some(id) = used_id {
                            self.model.live.retain(|x| *x != id);
                            self.model.stale.push(id);
                        }
                    }
                    Sym::WithId(_, "stream_change_window", _, _) => {
                        if let (Some(old), Some(new)) = (used_id, extract_id(&reply)) {
                            if !self.model.seen_ids.insert(new) {
                                viol.push(("id_not_fresh".into(), "".into(), format!("id {new} was issued before")));
                            }
                            for x in self.model.live.iter_mut() {
                                if *x == old {
                                    *x = new;
                                }
                            }
                            self.model.stale.push(old);
                        }
                    }
                    _ => {}
                }
            }
            let _ = idref;
        }
        // ---- state consistency with the replies
        if r["panic"].is_null() {
            let open_now = state["open"].as_bool().unwrap_or(false);
            if open_now != self.model.open {
                viol.push(("open_state_mismatch".into(), "".into(), format!("server open={open_now} but the replies say open={}", self.model.open)));
                self.model.open = open_now;
            }
            let ids_now: Vec<u64> = state["streams"].as_array().map(|a| a.iter().filter_map(|s| s["id"].as_u64()).collect()).unwrap_or_default();
            let mut a = ids_now.clone();
            a.sort();
            let mut b = self.model.live.clone();
            b.sort();
            if a != b {
                viol.push(("stream_set_mismatch".into(), "".into(), format!("server streams {:?} but replies/markers say live {:?}", ids_now, self.model.live)));
                self.model.live = ids_now;
            }
        }
        self.last_state = state;
        Ok(Some(viol))
    }
    /// RESET and re-run a history (its steps were judged when they were first explored)
    pub fn goto(&mut self, hist: &[Sym]) -> Result<bool, DriverErr> {
        self.reset()?;
        for s in hist {
            if self.exec(s)?.is_none() {
                return Ok(false);
            }
        }
        Ok(true)
    }
}

/// run a history from RESET; report the violations of the last step
pub fn run_history(sess: &mut Session, hist: &[Sym]) -> Result<StepOutcome, DriverErr> {
    sess.reset()?;
    let mut last_viol = vec![];
    let mut enabled = true;
    for s in hist {
        match sess.exec(s)? {
            None => {
                enabled = false;
                break;
            }
            Some(v) => last_viol = v,
        }
    }
    Ok(StepOutcome { fingerprint: sess.fingerprint(), violations: last_viol, enabled, reply_class: sess.last_class.clone() })
}

// ------------------------------------------------------------------ C15 prop
pub struct C15;

fn hist_json(h: &[Sym]) -> Value {
    json!({"family": "history", "steps": h.iter().map(|s| s.name()).collect::<Vec<_>>()})
}

impl Prop for C15 {
    fn meta(&self, _t: Tier) -> Meta {
        Meta {
            id: "C15",
            level: "model_checking",
            rule: format!("explicit-state breadth-first search over command histories of the remote server: alphabet of {} symbols (open valid/collect variants/missing file/malformed/no argument, close, pause, resume, stream/query default/window/filters/one_pass/wrong-typed/no body/malformed, stop / stream_change_window / stream_binary_search / stream_search with live, stale, never-issued, non-numeric and missing ids and good/missing/malformed bodies, plugin_cmd and fs good/malformed/non-object, unknown word, empty string; ticks T0/T1/T3/Tinf = 'n parsed messages become available'), every transition executed by re-running the history from RESET on the real process_incoming_text_message / process_file_context through the cfg(adlt_verif) driver inside the adlt binary; states deduplicated on the canonical session snapshot (stream ids renumbered, async info frames ignored). Oracle = reference session model: exactly one reply frame per command of the form ok:/err:/unknown command, none on ticks, no panic, open/close/pause/resume/stream/stop/change-window reply classes as the model prescribes, ids fresh, server open flag and stream set equal to what the replies imply, frames only for live stream ids, every step answers within the watchdog.", alphabet().len()),
            assumptions: vec!["event loop abstracted by explicit ticks; socket-level I/O errors are not explored".into(),
                "dedup: the canonical snapshot (all FileContext/StreamContext fields the handlers branch on) determines future behaviour; lifecycle/eac timers only influence asynchronous info frames".into(),
                "one generated 8-message log file".into()],
            budget_s: (180, 1500),
            workers: 1,
            required_landmarks: vec!["reply_ok", "reply_err", "reply_unknown", "stream_created", "query_finished(marker)", "backpressure_close_scenario", "tcp_conformance_ok"],
        }
    }
    fn prepare(&self, _t: Tier) -> Result<(), String> {
        build_adlt_bin()
    }
    fn run(&self, ctx: &mut Ctx) {
        let max_depth = ctx.tier.pick(4, 6);
        let dir = scratch_dir();
        let file = format!("{dir}/log8.dlt");
        std::fs::write(&file, gen_log(8).0).expect("write log");
        // the same log inside an archive (opened through the archive path: extraction runs before the parser exists)
        std::fs::write(format!("{file}.zip"), crate::c20::write_zip(&[("log8.dlt".to_string(), gen_log(8).0)])).expect("write zip");
        // backpressure scenarios run concurrently with the search
        let big = format!("{dir}/big.dlt");
        std::fs::write(&big, gen_big_log(700_000)).expect("write big log");
        let mut bp_variants = vec!["onepass_paused", "all_paused", "sorted_paused"];
        let huge = format!("{dir}/huge.dlt");
        if ctx.tier == Tier::Thorough {
            std::fs::write(&huge, gen_big_log(1_800_000)).expect("write huge log");
            bp_variants.push("huge_onepass_paused");
        }
        let bp_handles: Vec<_> = bp_variants
            .into_iter()
            .map(|v| {
                let (big, huge, small) = (big.clone(), huge.clone(), file.clone());
                std::thread::spawn(move || {
                    if v == "huge_onepass_paused" {
                        (v, backpressure_close(&huge, &small, "onepass_paused"))
                    } else {
                        (v, backpressure_close(&big, &small, v))
                    }
                })
            })
            .collect();
        let sigma = Arc::new(alphabet());
        let nthreads = std::thread::available_parallelism().map(|n| n.get()).unwrap_or(4);
        let mut seen: HashSet<String> = HashSet::new();
        seen.insert("init".into());
        let mut total_states = 1u64;
        let mut total_trans = 0u64;
        // search 0 starts at the initial state; further searches start from prepared non-initial states
        // (streams in different modes with messages already consumed), sharing the seen-set
        let by = |names: &[&str]| -> Vec<Sym> { names.iter().map(|n| sigma.iter().find(|s| &s.name() == n).unwrap_or_else(|| panic!("symbol {n}")).clone()).collect() };
        // (start history, depth, alphabet of the search). The searches over the full alphabet share one seen-set; the
        // "flow" searches go deeper over the session-flow commands only (pause/resume/stream/stop/ticks) and keep their own
        // seen-set, so that states already met at a shallower depth are expanded again
        let full: Arc<Vec<Sym>> = Arc::new(sigma.iter().filter(|s| !["open_plugins", "open_zip", "query_filters_wide", "chgwin_last_shrink"].contains(&s.name().as_str())).cloned().collect());
        let sub = |names: &[&str]| -> Option<Arc<Vec<Sym>>> { Some(Arc::new(names.iter().map(|n| sigma.iter().find(|s| &s.name() == n).unwrap_or_else(|| panic!("symbol {n}")).clone()).collect())) };
        let flow_depth = ctx.tier.pick(4, 6);
        let seeds: Vec<(Vec<Sym>, usize, Option<Arc<Vec<Sym>>>)> = vec![
            (vec![], max_depth, None),
            (by(&["open_onepass", "stream_onepass", "resume", "T3"]), ctx.tier.pick(2, 4), None),
            (by(&["open_onepass", "stream_onepass_filters", "resume", "T3"]), ctx.tier.pick(2, 3), None),
            (by(&["open_ok", "stream_filters", "T3", "query_filters"]), ctx.tier.pick(2, 3), None),
            (by(&["open_sorted", "stream_window_bin", "T3", "chgwin_last"]), ctx.tier.pick(2, 3), None),
            (by(&["open_ok", "pause", "stream_default", "T3", "resume"]), ctx.tier.pick(2, 3), None),
            // two live streams: commands addressing the older one (ids are no longer in creation order after a window change)
            (by(&["open_ok", "stream_window_bin", "stream_filters", "T3"]), ctx.tier.pick(2, 3), None),
            // a session with plugins: two of the same name and one without command support
            (by(&["open_plugins", "stream_default", "T3"]), ctx.tier.pick(2, 3), None),
            (by(&["open_onepass", "stream_onepass", "resume", "T3"]), flow_depth, sub(&["pause", "resume", "stream_onepass", "stream_onepass_filters", "query_window", "stop_last", "close", "T1", "T3", "Tinf"])),
            (by(&["open_ok", "stream_default", "T3"]), flow_depth - 1, sub(&["pause", "resume", "stream_default", "stream_filters", "query_window", "stop_last", "chgwin_last", "T1", "T3", "Tinf"])),
            // a session on an archive: commands while the extraction is pending (before the first tick) and afterwards
            (by(&["open_zip"]), ctx.tier.pick(3, 4), sub(&["stream_default", "stream_filters", "query_window", "bsearch_time", "bsearch_index", "ssearch_good", "chgwin_last", "stop_last", "pause", "resume", "close", "T3", "Tinf"])),
            // a filtered query that has collected matches but is still running: window changes (also to a window that
            // ends below the matches collected so far) while further messages arrive
            (by(&["open_ok", "query_filters_wide", "T3"]), ctx.tier.pick(3, 4), sub(&["chgwin_last_shrink", "chgwin_last", "query_filters_wide", "stream_filters", "stop_last", "pause", "resume", "T1", "T3", "Tinf"])),
        ];
        'seeds: for (seed_no, (seed, seed_depth, sub_sigma)) in seeds.iter().enumerate() {
        let sigma = sub_sigma.clone().unwrap_or_else(|| full.clone());
        let mut flow_seen: HashSet<String> = HashSet::new();
        let mut frontier: Vec<Vec<Sym>> = vec![seed.clone()];
        for depth in 1..=*seed_depth {
            ctx.begin_family("bfs", &format!("start={} depth={depth} frontier={} alphabet={}", if seed_no == 0 { "initial".to_string() } else { format!("{:?}", seed.iter().map(|s| s.name()).collect::<Vec<_>>()) }, frontier.len(), sigma.len()));
            // tasks = frontier states; a worker re-runs the state's history once and then tries every symbol;
            // after a symbol that changed the canonical state the history is re-run before the next symbol
            // (a self-loop leaves the session in the same canonical state, so it can be reused).
            let tasks: Arc<Mutex<Vec<Vec<Sym>>>> = Arc::new(Mutex::new(frontier.iter().rev().cloned().collect()));
            let results: Arc<Mutex<Vec<(Vec<Sym>, Result<StepOutcome, String>)>>> = Arc::new(Mutex::new(vec![]));
            let stop = Arc::new(std::sync::atomic::AtomicBool::new(false));
            let reruns = Arc::new(std::sync::atomic::AtomicU64::new(0));
            let mut handles = vec![];
            for _ in 0..nthreads {
                let (tasks, results, file, stop, sigma, reruns) = (tasks.clone(), results.clone(), file.clone(), stop.clone(), sigma.clone(), reruns.clone());
                handles.push(std::thread::spawn(move || {
                    let mut sess = Session::new(&file);
                    'task: loop {
                        if stop.load(std::sync::atomic::Ordering::Relaxed) {
                            break;
                        }
                        let h = match tasks.lock().unwrap().pop() {
                            Some(h) => h,
                            None => break,
                        };
                        let mut at_parent = false;
                        let mut parent_fp = String::new();
                        for sym in sigma.iter() {
                            if stop.load(std::sync::atomic::Ordering::Relaxed) {
                                break 'task;
                            }
                            let mut h2 = h.clone();
                            h2.push(sym.clone());
                            let r = (|| -> Result<StepOutcome, DriverErr> {
                                if !at_parent {
                                    reruns.fetch_add(1, std::sync::atomic::Ordering::Relaxed);
                                    sess.goto(&h)?;
                                    parent_fp = sess.fingerprint();
                                }
                                match sess.exec(sym)? {
                                    None => Ok(StepOutcome { fingerprint: parent_fp.clone(), violations: vec![], enabled: false, reply_class: String::new() }),
                                    Some(v) => Ok(StepOutcome { fingerprint: sess.fingerprint(), violations: v, enabled: true, reply_class: sess.last_class.clone() }),
                                }
                            })();
                            match r {
                                Ok(o) => {
                                    at_parent = o.fingerprint == parent_fp && o.violations.is_empty();
                                    results.lock().unwrap().push((h2, Ok(o)));
                                }
                                Err(e) => {
                                    sess.d.kill();
                                    sess = Session::new(&file);
                                    at_parent = false;
                                    results.lock().unwrap().push((h2, Err(format!("{e:?}"))));
                                }
                            }
                        }
                    }
                }));
            }
            // watch the budget while the pool works
            loop {
                std::thread::sleep(Duration::from_millis(200));
                if tasks.lock().unwrap().is_empty() || ctx.out_of_time() {
                    break;
                }
            }
            let timed_out = !tasks.lock().unwrap().is_empty();
            if timed_out {
                stop.store(true, std::sync::atomic::Ordering::Relaxed);
            }
            for h in handles {
                let _ = h.join();
            }
            let mut res = std::mem::take(&mut *results.lock().unwrap());
            res.sort_by_key(|(h, _)| h.iter().map(|s| s.name()).collect::<Vec<_>>());
            let mut next = vec![];
            for (h, r) in res {
                match r {
                    Err(e) => {
                        let clause = if e.contains("Hang") { "hang" } else { "driver_died" };
                        ctx.mine();
                        ctx.violation(clause, &h.last().unwrap().name(), || hist_json(&h), e);
                        total_trans += 1;
                    }
                    Ok(o) => {
                        if !o.enabled {
                            continue;
                        }
                        ctx.mine();
                        total_trans += 1;
                        ctx.transitions(1);
                        match o.reply_class.as_str() {
                            "ok" => ctx.landmark("reply_ok"),
                            "err" => ctx.landmark("reply_err"),
                            "unknown" => ctx.landmark("reply_unknown"),
                            _ => {}
                        }
                        if o.fingerprint.contains("\"is_stream\":true") {
                            ctx.landmark("stream_created");
                        }
                        if o.fingerprint.contains("stale=true") && o.fingerprint.contains("\"open\":true") && h.iter().any(|s| s.name().starts_with("query")) && h.iter().any(|s| matches!(s, Sym::Tick(_))) {
                            ctx.landmark("query_finished(marker)");
                        }
                        let had_viol = !o.violations.is_empty();
                        for (clause, disc, detail) in o.violations {
                            ctx.violation(&clause, &disc, || hist_json(&h), detail);
                        }
                        let globally_new = seen.insert(o.fingerprint.clone());
                        if globally_new {
                            total_states += 1;
                            ctx.outcome(fnv_str(&o.fingerprint));
                            ctx.sum.evaluations += 1;
                            ctx.sum.states += 1;
                            ctx.sum.nontrivial += 1;
                            ctx.sample(|| hist_json(&h));
                        }
                        let expand = if sub_sigma.is_some() { flow_seen.insert(o.fingerprint.clone()) } else { globally_new };
                        // states reached through a violating step are reported, not expanded
                        if expand && !had_viol {
                            next.push(h);
                        }
                    }
                }
            }
            ctx.end_family(!timed_out);
            ctx.extra_add("history_reruns", reruns.load(std::sync::atomic::Ordering::Relaxed));
            frontier = next;
            if timed_out {
                break 'seeds;
            }
            if frontier.is_empty() {
                break;
            }
        }
        }
        ctx.begin_family("backpressure_close", "open a 700k-message file (thorough: also 1.8M) paused / one_pass / sorted, wait until the pipeline blocks on its full bounded channels, close (120 s watchdog), re-open, close");
        for h in bp_handles {
            if let Ok((v, viol)) = h.join() {
                ctx.mine();
                ctx.landmark("backpressure_close_scenario");
                ctx.sum.evaluations += 1;
                ctx.sum.states += 1;
                ctx.sum.nontrivial += 1;
                for (c, d, detail) in viol {
                    ctx.violation(&c, &d, || json!({"family": "backpressure_close", "variant": v}), detail);
                }
            }
        }
        ctx.end_family(true);
        fs_family(ctx, &dir, &file);
        tcp_conformance(ctx, &file);
        ctx.extra_set("bfs_states", json!(total_states));
        ctx.extra_set("bfs_transitions", json!(total_trans));
        let _ = std::fs::remove_dir_all(&dir);
    }
    fn replay(&self, case: &Value, ctx: &mut Ctx) {
        ctx.mine();
        if case["family"] == "backpressure_close" {
            if build_adlt_bin().is_err() {
                return;
            }
            let dir = scratch_dir();
            let (big, small) = (format!("{dir}/big.dlt"), format!("{dir}/log8.dlt"));
            let v = case["variant"].as_str().unwrap_or("onepass_paused");
            std::fs::write(&big, gen_big_log(if v.starts_with("huge") { 1_800_000 } else { 700_000 })).expect("write");
            std::fs::write(&small, gen_log(8).0).expect("write");
            for (c, d, detail) in backpressure_close(&big, &small, v.trim_start_matches("huge_")) {
                ctx.violation(&c, &d, || case.clone(), detail);
            }
            ctx.eval(true);
            let _ = std::fs::remove_dir_all(&dir);
            return;
        }
        if case["family"] == "fs_product" {
            if build_adlt_bin().is_err() {
                return;
            }
            let dir = scratch_dir();
            let small = format!("{dir}/log8.dlt");
            std::fs::write(&small, gen_log(8).0).expect("write");
            let _ = fs_cases(&dir);
            let mut d = Driver::spawn();
            if case["open"] == true {
                let _ = d.step(&format!(r#"C open {{"files":["{small}"]}}"#), 90);
            }
            let path = case["path"].as_str().unwrap_or("").replace("{D}", &dir);
            match d.step(&format!("C fs {}", json!({"cmd": case["cmd"], "path": path})), 60) {
                Err(e) => ctx.violation("driver_died", "fs", || case.clone(), format!("{e:?}")),
                Ok(r) => {
                    if !r["panic"].is_null() {
                        let p = r["panic"].as_str().unwrap_or("");
                        ctx.violation("panic", p.split('|').next().unwrap_or(""), || case.clone(), p.to_string());
                    } else if r["frames"].as_array().map(|a| a.len()).unwrap_or(0) != 1 {
                        ctx.violation("reply_count", "fs", || case.clone(), format!("frames: {}", r["frames"]));
                    }
                }
            }
            d.kill();
            ctx.eval(true);
            let _ = std::fs::remove_dir_all(&dir);
            return;
        }
        let sigma = alphabet();
        let h: Vec<Sym> = case["steps"].as_array().unwrap().iter().map(|n| sigma.iter().find(|s| s.name() == n.as_str().unwrap()).expect("symbol").clone()).collect();
        if build_adlt_bin().is_err() {
            return;
        }
        let dir = scratch_dir();
        let file = format!("{dir}/log8.dlt");
        std::fs::write(&file, gen_log(8).0).expect("write log");
        // the same log inside an archive (opened through the archive path: extraction runs before the parser exists)
        std::fs::write(format!("{file}.zip"), crate::c20::write_zip(&[("log8.dlt".to_string(), gen_log(8).0)])).expect("write zip");
        let mut sess = Session::new(&file);
        // judge every prefix so that the failing step is reported wherever it sits
        for k in 1..=h.len() {
            match run_history(&mut sess, &h[..k]) {
                Ok(o) => {
                    for (clause, disc, detail) in o.violations {
                        ctx.violation(&clause, &disc, || case.clone(), detail);
                    }
                }
                Err(e) => {
                    ctx.violation(if format!("{e:?}").contains("Hang") { "hang" } else { "driver_died" }, &h[k - 1].name(), || case.clone(), format!("{e:?}"));
                    sess.d.kill();
                    sess = Session::new(&file);
                }
            }
        }
        ctx.eval(true);
        let _ = std::fs::remove_dir_all(&dir);
    }
}

#[allow(dead_code)]
pub fn unused(_: BTreeMap<u8, u8>) {}

// ------------------------------------------------------------------ TCP conformance of the driver abstraction
/// An endpoint executes one command and returns the frames that followed it once the session has settled
/// (all parsed messages arrived and were served): the driver does that with explicit ticks, the real server
/// by running its own event loop for a short while.
pub trait Endpoint {
    fn exec(&mut self, cmd: &str) -> Result<Vec<Value>, String>;
}
pub struct DriverEndpoint(pub Driver);
impl Endpoint for DriverEndpoint {
    fn exec(&mut self, cmd: &str) -> Result<Vec<Value>, String> {
        let mut frames = vec![];
        for l in [format!("C {cmd}"), "T inf".to_string(), "T 0".to_string(), "T 0".to_string()] {
            let r = self.0.step(&l, 90).map_err(|e| format!("{e:?}"))?;
            if let Some(p) = r["panic"].as_str() {
                return Err(format!("panic {p}"));
            }
            frames.extend(r["frames"].as_array().cloned().unwrap_or_default());
        }
        Ok(frames)
    }
}
pub struct TcpServer {
    child: Child,
    pub port: u16,
}
impl TcpServer {
    pub fn start(port: u16) -> Result<TcpServer, String> {
        let mut child = Command::new(adlt_bin()).args(["remote", "-p", &port.to_string()]).stdout(Stdio::piped()).stderr(Stdio::null()).spawn().map_err(|e| e.to_string())?;
        let out = child.stdout.take().unwrap();
        let mut rd = BufReader::new(out);
        let mut line = String::new();
        // "remote server listening on .."
        if rd.read_line(&mut line).is_err() || !line.contains("listening") {
            let _ = child.kill();
            return Err(format!("server did not start on port {port}: '{line}'"));
        }
        std::thread::spawn(move || {
            let mut s = String::new();
            while rd.read_line(&mut s).map(|n| n > 0).unwrap_or(false) {
                s.clear();
            }
        });
        Ok(TcpServer { child, port })
    }
}
impl Drop for TcpServer {
    fn drop(&mut self) {
        let _ = self.child.kill();
        let _ = self.child.wait();
    }
}
pub struct TcpEndpoint {
    ws: tungstenite::WebSocket<tungstenite::stream::MaybeTlsStream<std::net::TcpStream>>,
    /// silence (ms) after which the session counts as settled
    pub settle_ms: u64,
}
impl TcpEndpoint {
    pub fn connect(port: u16) -> Result<TcpEndpoint, String> {
        let (ws, _) = tungstenite::connect(format!("ws://127.0.0.1:{port}")).map_err(|e| e.to_string())?;
        if let tungstenite::stream::MaybeTlsStream::Plain(s) = ws.get_ref() {
            let _ = s.set_read_timeout(Some(Duration::from_millis(50)));
        }
        Ok(TcpEndpoint { ws, settle_ms: 400 })
    }
}
fn char4(v: u32) -> String {
    String::from_utf8_lossy(&v.to_le_bytes()).to_string()
}
impl Endpoint for TcpEndpoint {
    fn exec(&mut self, cmd: &str) -> Result<Vec<Value>, String> {
        self.ws.write_message(tungstenite::Message::Text(cmd.to_string())).map_err(|e| e.to_string())?;
        let mut frames = vec![];
        let start = std::time::Instant::now();
        let mut last = std::time::Instant::now();
        let mut got_reply = false;
        loop {
            match self.ws.read_message() {
                Ok(tungstenite::Message::Text(t)) => {
                    if t.starts_with("ok:") || t.starts_with("err:") || t.starts_with("unknown command") {
                        got_reply = true;
                    }
                    frames.push(json!({"t": t}));
                    last = std::time::Instant::now();
                }
                Ok(tungstenite::Message::Binary(b)) => {
                    let cfg = bincode::config::legacy();
                    if let Ok((bt, _)) = bincode::decode_from_slice::<adlt::utils::remote_types::BinType, _>(&b, cfg) {
                        if let adlt::utils::remote_types::BinType::DltMsgs((id, msgs)) = bt {
                            frames.push(json!({"b":"DltMsgs","id":id,"msgs":msgs.iter().map(|m| json!({"index": m.index, "ecu": char4(m.ecu), "payload": m.payload_as_text})).collect::<Vec<_>>()}));
                        }
                    }
                    last = std::time::Instant::now();
                }
                Ok(_) => {}
                Err(tungstenite::Error::Io(e)) if e.kind() == std::io::ErrorKind::WouldBlock || e.kind() == std::io::ErrorKind::TimedOut => {
                    // settled: a reply was seen and nothing arrived for 400 ms (the server loop ticks every ~100 ms)
                    if (got_reply && last.elapsed() > Duration::from_millis(self.settle_ms)) || start.elapsed() > Duration::from_secs(60) {
                        break;
                    }
                }
                Err(e) => return Err(e.to_string()),
            }
        }
        if !got_reply {
            return Err(format!("no reply to '{cmd}' within 60 s"));
        }
        Ok(frames)
    }
}

/// the `fs` command is stateless: every (cmd, path) of a product over directories, files, archives (with members,
/// without any entry, corrupt), archive-internal paths and malformed forms is sent to a closed and to an open
/// session; each must be answered by exactly one ok:/err: frame and never panic.
pub fn fs_cases(dir: &str) -> Vec<(String, String)> {
    let zip = crate::c20::write_zip(&[("x.dlt".to_string(), b"abc".to_vec()), ("sub/y.dlt".to_string(), b"defg".to_vec()), ("sub/deep/z.txt".to_string(), vec![])]);
    std::fs::write(format!("{dir}/a.zip"), &zip).expect("write zip");
    std::fs::write(format!("{dir}/empty.zip"), crate::c20::write_zip(&[])).expect("write empty zip");
    std::fs::write(format!("{dir}/corrupt.zip"), b"PK\x03\x04 this is not a zip archive").expect("write");
    std::fs::write(format!("{dir}/truncated.zip"), &zip[..zip.len() / 2]).expect("write");
    std::fs::write(format!("{dir}/plain.txt"), b"hello").expect("write");
    let _ = std::fs::create_dir_all(format!("{dir}/sub dir"));
    std::fs::write(format!("{dir}/sub dir/f.dlt"), b"x").expect("write");
    let paths = [
        "{D}", "{D}/", "{D}/plain.txt", "{D}/missing", "{D}/sub dir", "{D}/sub dir/f.dlt", "{D}/a.zip", "{D}/a.zip!", "{D}/a.zip!/", "{D}/a.zip!/x.dlt", "{D}/a.zip!/sub", "{D}/a.zip!/sub/",
        "{D}/a.zip!/sub/y.dlt", "{D}/a.zip!/sub/deep", "{D}/a.zip!/sub/deep/z.txt", "{D}/a.zip!/nomatch", "{D}/a.zip!/../x", "{D}/empty.zip", "{D}/empty.zip!", "{D}/empty.zip!/", "{D}/empty.zip!/x",
        "{D}/corrupt.zip!/", "{D}/corrupt.zip!/x", "{D}/truncated.zip!/", "{D}/truncated.zip!/x.dlt", "{D}/plain.txt!/", "{D}/plain.txt!/x", "{D}/missing.zip!/x", "{D}/missing.zip!", "", "!", "!/", "/", "relative/path",
    ];
    let mut v = vec![];
    for cmd in ["stat", "readDirectory", "bogus"] {
        for p in paths {
            v.push((cmd.to_string(), p.replace("{D}", dir)));
        }
    }
    v
}
fn fs_family(ctx: &mut Ctx, dir: &str, file: &str) {
    let cases = fs_cases(dir);
    ctx.begin_family("fs_product", &format!("{} (cmd, path) pairs of the stateless fs command x session {{closed, open}}: directories, files, zip archives (3 members / no entry / corrupt / truncated), archive-internal paths, malformed forms", cases.len()));
    let mut d = Driver::spawn();
    for open in [false, true] {
        let _ = d.step("RESET", 90);
        if open {
            let _ = d.step(&format!(r#"C open {{"files":["{file}"]}}"#), 90);
        }
        for (cmd, path) in &cases {
            ctx.mine();
            let cj = || json!({"family": "fs_product", "cmd": cmd, "path": path.replace(dir, "{D}"), "open": open});
            let line = format!("C fs {}", json!({"cmd": cmd, "path": path}));
            ctx.landmark("fs_product_case");
            ctx.sum.evaluations += 1;
            ctx.sum.states += 1;
            ctx.sum.nontrivial += 1;
            match d.step(&line, 60) {
                Err(e) => {
                    ctx.violation(if format!("{e:?}").contains("Hang") { "hang" } else { "driver_died" }, "fs", cj, format!("{e:?}"));
                    d.kill();
                    d = Driver::spawn();
                    if open {
                        let _ = d.step(&format!(r#"C open {{"files":["{file}"]}}"#), 90);
                    }
                }
                Ok(r) => {
                    if !r["panic"].is_null() {
                        let p = r["panic"].as_str().unwrap_or("");
                        ctx.violation("panic", p.split('|').next().unwrap_or(""), cj, format!("fs {cmd} panicked: {}", p.split('|').nth(1).unwrap_or("")));
                        continue;
                    }
                    let frames = r["frames"].as_array().cloned().unwrap_or_default();
                    let replies: Vec<&str> = frames.iter().filter_map(|f| f["t"].as_str()).filter(|t| t.starts_with("ok:") || t.starts_with("err:")).collect();
                    if replies.len() != 1 || frames.len() != 1 {
                        ctx.violation("reply_count", "fs", cj, format!("{} frames ({} replies) for one fs command", frames.len(), replies.len()));
                    } else if replies[0].starts_with("ok:") {
                        ctx.landmark("fs_reply_ok");
                    } else {
                        ctx.landmark("fs_reply_err");
                    }
                }
            }
        }
    }
    d.kill();
    ctx.end_family(true);
}

/// transcript of a history on an endpoint: per command (reply class, canonical id announced) and per canonical
/// stream id the delivered message indices in order and whether the end marker was seen
pub fn transcript(ep: &mut dyn Endpoint, file: &str, hist: &[Sym]) -> Result<Value, String> {
    let mut live: Vec<u64> = vec![];
    let mut stale: Vec<u64> = vec![];
    let mut order: Vec<u64> = vec![]; // announcement order = canonical numbering
    let mut replies = vec![];
    let mut data: BTreeMap<usize, (Vec<u64>, bool)> = BTreeMap::new();
    for sym in hist {
        let cmd: String = match sym {
            Sym::Raw(_, t) => t.replace("{FILE}", file),
            Sym::Tick(_) => continue,
            Sym::WithId(_, c, idr, body) => {
                let id = match idr {
                    IdRef::Last => live.last().map(|x| x.to_string()),
                    IdRef::First => live.first().map(|x| x.to_string()),
                    IdRef::Stale => stale.last().map(|x| x.to_string()),
                    IdRef::Never => Some("999999".into()),
                    IdRef::NonNumeric => Some("abc".into()),
                    IdRef::Missing => Some(String::new()),
                };
                match id {
                    None => {
                        replies.push(json!("not_enabled"));
                        continue;
                    }
                    Some(id) => match body {
                        Some(b) => format!("{c} {id} {b}"),
                        None => format!("{c} {id}").trim_end().to_string(),
                    },
                }
            }
        };
        let frames = ep.exec(&cmd)?;
        let classes = reply_class(&frames);
        let reply = frames.iter().filter_map(|f| f["t"].as_str()).find(|t| t.starts_with("ok:") || t.starts_with("err:") || t.starts_with("unknown")).unwrap_or("").to_string();
        let mut announced = None;
        if classes.first().map(|c| c == "ok").unwrap_or(false) {
            match sym {
                Sym::Raw(n, _) if n.starts_with("stream_") || n.starts_with("query_") => {
                    if let Some(id) = extract_id(&reply) {
                        live.push(id);
                        order.push(id);
                        announced = Some(order.len() - 1);
                    }
                }
                Sym::Raw("close", _) => {
                    stale.extend(live.drain(..));
                }
                Sym::WithId(_, "stop", _, _) => {
                    if let Some(id) = cmd.split(' ').nth(1).and_then(|x| x.parse::<u64>().ok()) {
                        live.retain(|x| *x != id);
                        stale.push(id);
                    }
                }
                Sym::WithId(_, "stream_change_window", _, _) => {
                    if let (Some(old), Some(new)) = (cmd.split(' ').nth(1).and_then(|x| x.parse::<u64>().ok()), extract_id(&reply)) {
                        for x in live.iter_mut() {
                            if *x == old {
                                *x = new;
                            }
                        }
                        stale.push(old);
                        order.push(new);
                        announced = Some(order.len() - 1);
                    }
                }
                _ => {}
            }
        }
        replies.push(json!({"class": classes, "announced": announced}));
        for f in &frames {
            let (sid, idxs, end): (Option<u64>, Vec<u64>, bool) = if f["b"] == "DltMsgs" {
                let m = f["msgs"].as_array().cloned().unwrap_or_default();
                (f["id"].as_u64(), m.iter().filter_map(|x| x["index"].as_u64()).collect(), m.is_empty())
            } else if let Some(t) = f["t"].as_str().and_then(|t| t.strip_prefix("stream:")) {
                let sid = t.split(' ').next().and_then(|x| x.parse().ok());
                let idx = t.split_once("):").and_then(|(_, h)| h.split(' ').next()).and_then(|x| x.parse::<u64>().ok());
                (sid, idx.into_iter().collect(), false)
            } else {
                (None, vec![], false)
            };
            if let Some(sid) = sid {
                let canon = order.iter().position(|x| *x == sid).unwrap_or(usize::MAX);
                let e = data.entry(canon).or_default();
                e.0.extend(idxs);
                e.1 |= end;
                if end {
                    live.retain(|x| *x != sid);
                    stale.push(sid);
                }
            }
        }
    }
    Ok(json!({"replies": replies, "streams": data.iter().map(|(k, v)| json!({"stream": k, "indices": v.0, "ended": v.1})).collect::<Vec<_>>()}))
}

/// alphabet of the conformance replay (commands only; arrival timing is equalised by settling after each command)
pub fn conformance_alphabet(thorough: bool) -> Vec<Sym> {
    let all = alphabet();
    let core = ["open_ok", "open_missing_file", "close", "pause", "resume", "stream_window_bin", "stream_filters", "query_filters", "stop_last", "stop_never", "chgwin_last", "ssearch_good", "unknown_word"];
    let more = ["open_sorted", "open_nocollect", "open_malformed_json", "stream_default", "stream_nobody", "query_window", "stop_stale", "stop_nonnumeric", "chgwin_stale", "chgwin_last_nobody", "bsearch_index", "bsearch_time", "ssearch_nobody", "ssearch_paged", "plugin_cmd_malformed", "fs_stat", "fs_nonobject", "empty"];
    all.into_iter().filter(|s| core.contains(&s.name().as_str()) || (thorough && more.contains(&s.name().as_str()))).collect()
}

/// replay command histories on the driver and over a real websocket against `adlt remote`; both transcripts must agree
pub fn tcp_conformance(ctx: &mut Ctx, file: &str) {
    let thorough = ctx.tier == Tier::Thorough;
    let sigma = conformance_alphabet(thorough);
    let open_ok = sigma.iter().find(|s| s.name() == "open_ok").unwrap().clone();
    let sf = sigma.iter().find(|s| s.name() == "stream_filters").unwrap().clone();
    let mut hists: Vec<Vec<Sym>> = vec![];
    for prefix in [vec![], vec![open_ok.clone()], vec![open_ok, sf]] {
        for a in &sigma {
            let mut h = prefix.clone();
            h.push(a.clone());
            hists.push(h.clone());
            if prefix.is_empty() || thorough {
                for b in &sigma {
                    let mut h2 = h.clone();
                    h2.push(b.clone());
                    hists.push(h2);
                }
            }
        }
    }
    ctx.begin_family("tcp_conformance", &format!("{} command histories (prefix in {{-, open, open+stream}} x 1-2 commands over {} symbols) replayed on the driver and over a real websocket against `adlt remote`", hists.len(), sigma.len()));
    let tasks = Arc::new(Mutex::new(hists.into_iter().rev().collect::<Vec<_>>()));
    let results: Arc<Mutex<Vec<(Vec<Sym>, Result<(Value, Value), String>)>>> = Default::default();
    let nthreads = std::thread::available_parallelism().map(|n| n.get()).unwrap_or(4);
    let base_port = 21000 + (std::process::id() % 2000) as u16 * 16;
    let mut hs = vec![];
    for ti in 0..nthreads {
        let (tasks, results, file) = (tasks.clone(), results.clone(), file.to_string());
        hs.push(std::thread::spawn(move || {
            let server = match TcpServer::start(base_port + ti as u16) {
                Ok(s) => s,
                Err(e) => {
                    results.lock().unwrap().push((vec![], Err(e)));
                    return;
                }
            };
            let mut drv = DriverEndpoint(Driver::spawn());
            loop {
                let h = match tasks.lock().unwrap().pop() {
                    Some(h) => h,
                    None => break,
                };
                let r = (|| -> Result<(Value, Value), String> {
                    drv.0.step("RESET", 90).map_err(|e| format!("{e:?}"))?;
                    let a = transcript(&mut drv, &file, &h)?;
                    let mut tcp = TcpEndpoint::connect(server.port)?;
                    let mut b = transcript(&mut tcp, &file, &h)?;
                    let _ = tcp.ws.close(None);
                    if a != b {
                        // the real server is only observed through time: a loaded machine may need longer to settle.
                        // A mismatch is reported only if it persists with a 5x longer settle time.
                        let mut tcp = TcpEndpoint::connect(server.port)?;
                        tcp.settle_ms = 2000;
                        b = transcript(&mut tcp, &file, &h)?;
                        let _ = tcp.ws.close(None);
                    }
                    Ok((a, b))
                })();
                if r.is_err() {
                    drv.0.kill();
                    drv = DriverEndpoint(Driver::spawn());
                }
                results.lock().unwrap().push((h, r));
            }
        }));
    }
    for h in hs {
        let _ = h.join();
    }
    let mut res = std::mem::take(&mut *results.lock().unwrap());
    res.sort_by_key(|(h, _)| h.iter().map(|s| s.name()).collect::<Vec<_>>());
    let mut validated = 0u64;
    for (h, r) in res {
        ctx.mine();
        match r {
            Err(e) => ctx.violation("tcp_conformance_error", "", || hist_json(&h), e),
            Ok((a, b)) => {
                if a != b {
                    ctx.violation("tcp_conformance_mismatch", "", || hist_json(&h), format!("driver transcript {a} != websocket transcript {b}"));
                } else {
                    validated += 1;
                    ctx.landmark("tcp_conformance_ok");
                }
            }
        }
        ctx.sum.evaluations += 1;
        ctx.sum.states += 1;
        ctx.sum.nontrivial += 1;
    }
    ctx.extra_set("traces_replayed_over_tcp", json!(validated));
    ctx.end_family(true);
}
