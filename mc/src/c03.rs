//! C03 — no input content can crash ingestion and analysis. Fault enumeration: every member of stated mutation
//! neighbourhoods of a seed corpus is pushed through the whole ingestion/analysis chain (real code), with
//! overflow checks on, panics caught, worker death isolated (careful mode) and allocation accounting.
use crate::core::dltgen::*;
use crate::core::*;
use adlt::dlt::DltMessage;
use adlt::filter::{Filter, FilterKind, FilterKindContainer};
use adlt::lifecycle::{get_sorted_lifecycles_as_vec, parse_lifecycles_buffered_from_stream, LifecycleId};
use adlt::plugins::{anonymize::AnonymizePlugin, factory::get_plugin, plugin::Plugin, plugins_process_msgs};
use adlt::utils::eac_stats::EacStats;
use adlt::utils::remote_utils::match_filters;
use adlt::utils::{buffer_sort_messages, get_dlt_message_iterator, get_new_namespace};
use serde_json::{json, Value};
use std::io::Cursor;

pub struct C03;

// ------------------------------------------------------------------ seeds
#[derive(Clone)]
struct Field {
    off: usize,
    width: usize,
    /// 'b' big endian, 'l' little endian, 's' service id (le), 'h' htyp/flags byte
    kind: char,
}
#[derive(Clone)]
struct Seed {
    name: String,
    ext: &'static str,
    bytes: Vec<u8>,
    /// message start offsets (DLT seeds)
    bounds: Vec<usize>,
    fields: Vec<Field>,
    /// seeds that get the pairwise adjacent-field corruption (control / file transfer)
    pairwise: bool,
}

struct Pb {
    b: Vec<u8>,
    f: Vec<Field>,
}
impl Pb {
    fn new() -> Pb {
        Pb { b: vec![], f: vec![] }
    }
    fn ti(&mut self, ti: u32) -> &mut Self {
        self.f.push(Field { off: self.b.len(), width: 4, kind: 'l' });
        self.b.extend_from_slice(&ti.to_le_bytes());
        self
    }
    fn raw(&mut self, d: &[u8]) -> &mut Self {
        self.b.extend_from_slice(d);
        self
    }
    fn num(&mut self, v: u64, width: usize) -> &mut Self {
        self.f.push(Field { off: self.b.len(), width: width.min(4), kind: 'l' });
        self.b.extend_from_slice(&v.to_le_bytes()[..width]);
        self
    }
    fn len16(&mut self, v: u16) -> &mut Self {
        self.f.push(Field { off: self.b.len(), width: 2, kind: 'l' });
        self.b.extend_from_slice(&v.to_le_bytes());
        self
    }
    fn strg(&mut self, s: &str) -> &mut Self {
        self.ti(0x0000_8200);
        self.len16(s.len() as u16 + 1);
        self.b.extend_from_slice(s.as_bytes());
        self.b.push(0);
        self
    }
    /// ASCII coded string (the file-transfer plugin recognises its markers only in this coding)
    fn astr(&mut self, s: &str) -> &mut Self {
        self.ti(0x0000_0200);
        self.len16(s.len() as u16 + 1);
        self.b.extend_from_slice(s.as_bytes());
        self.b.push(0);
        self
    }
    fn uint32(&mut self, v: u32) -> &mut Self {
        self.ti(0x0000_0043);
        self.num(v as u64, 4)
    }
    fn rawd(&mut self, d: &[u8]) -> &mut Self {
        self.ti(0x0000_0400);
        self.len16(d.len() as u16);
        self.b.extend_from_slice(d);
        self
    }
    fn service(&mut self, id: u32) -> &mut Self {
        self.f.push(Field { off: self.b.len(), width: 4, kind: 's' });
        self.b.extend_from_slice(&id.to_le_bytes());
        self
    }
}

struct Sb {
    bytes: Vec<u8>,
    bounds: Vec<usize>,
    fields: Vec<Field>,
    n: u32,
}
impl Sb {
    fn new() -> Sb {
        Sb { bytes: vec![], bounds: vec![], fields: vec![], n: 0 }
    }
    #[allow(clippy::too_many_arguments)]
    fn msg(&mut self, ecu: &[u8; 4], flags: u8, vmm: u8, noar: u8, apid: &[u8; 4], ctid: &[u8; 4], ts: u32, pb: &Pb) {
        let spec = MsgSpec {
            framing: Framing::Storage,
            htyp: VERS1 | flags,
            storage_ecu: *ecu,
            hdr_ecu: *ecu,
            apid: *apid,
            ctid: *ctid,
            mcnt: self.n as u8,
            session_id: 7,
            timestamp: ts,
            secs: 1_650_000_000 + self.n,
            micros: 500 * self.n,
            verb_mstp_mtin: vmm,
            noar,
            payload: pb.b.clone(),
        };
        let start = self.bytes.len();
        self.bounds.push(start);
        let b = spec.to_bytes();
        // header fields
        let sh = start + 16;
        self.fields.push(Field { off: sh, width: 1, kind: 'h' });
        self.fields.push(Field { off: sh + 2, width: 2, kind: 'b' });
        let mut o = sh + 4;
        if flags & WEID != 0 {
            o += 4;
        }
        if flags & WSID != 0 {
            o += 4;
        }
        if flags & WTMS != 0 {
            self.fields.push(Field { off: o, width: 4, kind: 'b' });
            o += 4;
        }
        if flags & UEH != 0 {
            self.fields.push(Field { off: o, width: 1, kind: 'h' });
            self.fields.push(Field { off: o + 1, width: 1, kind: 'l' });
        }
        let po = start + 16 + spec.hdr_size();
        for f in &pb.f {
            self.fields.push(Field { off: po + f.off, width: f.width, kind: f.kind });
        }
        // storage header time
        self.fields.push(Field { off: start + 4, width: 4, kind: 'l' });
        self.bytes.extend_from_slice(&b);
        self.n += 1;
    }
    fn seed(self, name: &str, pairwise: bool) -> Seed {
        Seed { name: name.into(), ext: "dlt", bytes: self.bytes, bounds: self.bounds, fields: self.fields, pairwise }
    }
}

const V_LOG: u8 = 0x41;
const NV_LOG: u8 = 0x40;
const CTRL_REQ: u8 = (3 << 1) | (1 << 4);
const CTRL_RESP: u8 = (3 << 1) | (2 << 4);
const NW_TRACE_V: u8 = 0x01 | (2 << 1) | (1 << 4); // verbose network trace, IPC (what the SOME/IP plugin listens to)
const STD: u8 = UEH | WEID | WTMS;

fn dlt_seeds() -> Vec<Seed> {
    let mut v = vec![];
    let e1 = b"ECU1";
    // verbose argument types
    {
        let mut s = Sb::new();
        let mut p = Pb::new();
        p.ti(0x11).raw(&[1]); // bool
        p.ti(0x21).raw(&[0xff]).ti(0x22).raw(&[1, 2]).ti(0x23).raw(&[1, 2, 3, 4]).ti(0x24).raw(&[1; 8]);
        s.msg(e1, STD, V_LOG, 5, b"APP1", b"CTX1", 10_000, &p);
        let mut p = Pb::new();
        p.ti(0x41).raw(&[9]).ti(0x42).raw(&[1, 2]).uint32(77).ti(0x44).raw(&[3; 8]).ti(0x45).raw(&[4; 16]);
        s.msg(e1, STD, V_LOG, 5, b"APP1", b"CTX1", 10_010, &p);
        let mut p = Pb::new();
        p.ti(0x83).raw(&1.5f32.to_le_bytes()).ti(0x84).raw(&(-2.25f64).to_le_bytes());
        s.msg(e1, STD, V_LOG, 2, b"APP1", b"CTX2", 10_020, &p);
        let mut p = Pb::new();
        p.strg("hello world").ti(0x0000_0200).len16(4).raw(b"abc\0").rawd(&[0xde, 0xad, 0xbe, 0xef]);
        s.msg(e1, STD, V_LOG, 3, b"APP2", b"CTX1", 10_030, &p);
        // big endian variant
        let mut p = Pb::new();
        p.raw(&0x43u32.to_be_bytes()).raw(&77u32.to_be_bytes()).raw(&0x8200u32.to_be_bytes()).raw(&3u16.to_be_bytes()).raw(b"ab\0");
        s.msg(e1, STD | MSBF, V_LOG, 2, b"APP2", b"CTX1", 10_040, &p);
        v.push(s.seed("verbose_arg_types", false));
    }
    // non verbose, no ext header, odd flags
    {
        let mut s = Sb::new();
        let mut p = Pb::new();
        p.num(805_312_382, 4).raw(&[1, 2, 3, 4, 5, 6]);
        s.msg(e1, STD, NV_LOG, 0, b"TEST", b"NONV", 20_000, &p);
        let mut p = Pb::new();
        p.num(0x12, 4).raw(b"xy");
        s.msg(e1, WEID | WTMS, 0, 0, b"----", b"----", 20_010, &p);
        let p = Pb::new();
        s.msg(b"ECU2", UEH, V_LOG, 0, b"A\0\0\0", b"\0\0\0\0", 0, &p);
        let mut p = Pb::new();
        p.strg("x");
        s.msg(b"ECU2", UEH | WEID | WSID | WTMS, V_LOG, 1, b"APP1", b"CTX1", 20_030, &p);
        v.push(s.seed("nonverbose_and_header_shapes", false));
    }
    // control messages: every service id as non-verbose request and response (+ bodies for the parsed ones)
    let services: Vec<u32> = (1..=20).chain(0xF01..=0xF0E).collect();
    for chunk in services.chunks(6) {
        let mut s = Sb::new();
        for &id in chunk {
            let mut p = Pb::new();
            p.service(id).raw(&[0, 0, 0, 0]);
            s.msg(e1, STD, CTRL_REQ, 0, b"DA1\0", b"DC1\0", 30_000, &p);
            let mut p = Pb::new();
            p.service(id).raw(&[0]); // status ok
            match id {
                3 => {
                    // get_log_info: status 7, count, apid, count ctids, ctid, ll, ts, len desc, desc, len desc apid, desc
                    p.b.pop();
                    p.raw(&[7]).num(1, 2).raw(b"APP1").num(1, 2).raw(b"CTX1").raw(&[4, 0]).len16(4).raw(b"ctxd").len16(4).raw(b"appd").raw(b"remo");
                }
                19 => {
                    p.num(9, 4).raw(b"SW 1.2.3\0");
                }
                0xF01 => {
                    p.raw(b"APP1CTX1remo");
                }
                0xF02 => {
                    p.raw(&[2]).raw(b"remo");
                }
                0xF03 => {
                    p.num(3600, 4).raw(&[1]);
                }
                _ => {
                    p.raw(&[1, 2, 3]);
                }
            }
            s.msg(e1, STD, CTRL_RESP, 0, b"DA1\0", b"DC1\0", 30_010, &p);
        }
        v.push(s.seed(&format!("control_nonverbose_{}", chunk[0]), true));
    }
    // verbose control responses (argument based) incl. short first argument
    {
        let mut s = Sb::new();
        let mut p = Pb::new();
        p.strg("boot");
        s.msg(e1, STD, V_LOG, 1, b"APP1", b"CTX1", 40_000, &p);
        let mut p = Pb::new();
        p.uint32(19).rawd(b"\0SW 9.9\0");
        s.msg(e1, STD, CTRL_RESP | 1, 2, b"DA1\0", b"DC1\0", 40_010, &p);
        let mut p = Pb::new();
        p.ti(0x11).raw(&[1]);
        s.msg(e1, STD, CTRL_RESP | 1, 1, b"DA1\0", b"DC1\0", 40_020, &p);
        let mut p = Pb::new();
        p.uint32(3).rawd(&[7, 0, 0]);
        s.msg(e1, STD, CTRL_RESP | 1, 2, b"DA1\0", b"DC1\0", 40_030, &p);
        v.push(s.seed("control_verbose", true));
    }
    // file transfer
    {
        let mut s = Sb::new();
        let mut p = Pb::new();
        p.astr("FLST").uint32(4711).astr("a.bin").uint32(5).astr("date").uint32(2).uint32(3).astr("FLST");
        s.msg(e1, STD, V_LOG, 8, b"SYS\0", b"FILE", 50_000, &p);
        let mut p = Pb::new();
        p.astr("FLDA").uint32(4711).uint32(1).rawd(&[1, 2, 3]).astr("FLDA");
        s.msg(e1, STD, V_LOG, 5, b"SYS\0", b"FILE", 50_010, &p);
        let mut p = Pb::new();
        p.astr("FLDA").uint32(4711).uint32(2).rawd(&[4, 5]).astr("FLDA");
        s.msg(e1, STD, V_LOG, 5, b"SYS\0", b"FILE", 50_020, &p);
        let mut p = Pb::new();
        p.astr("FLFI").uint32(4711).astr("FLFI");
        s.msg(e1, STD, V_LOG, 3, b"SYS\0", b"FILE", 50_030, &p);
        v.push(s.seed("file_transfer", true));
    }
    // network trace / someip-like / can-like
    {
        let mut s = Sb::new();
        let mut p = Pb::new();
        p.rawd(&[10, 0, 0, 1, 0x12, 0x34, 0, 0, 0, 0]).rawd(&[0x12, 0x34, 0x00, 0x01, 0, 0, 0, 12, 0, 1, 0, 2, 1, 1, 2, 0, 1, 2, 3, 4]);
        s.msg(e1, STD, NW_TRACE_V, 2, b"SOIP", b"TC\0\0", 60_000, &p);
        let mut p = Pb::new();
        p.rawd(&[0, 0, 1, 0x23]).rawd(&[1, 2, 3, 4, 5, 6, 7, 8]);
        s.msg(b"CAN1", STD, 0x01 | (2 << 1) | (2 << 4), 2, b"CAN\0", b"TC\0\0", 60_010, &p);
        let mut p = Pb::new();
        p.strg("2024/01/01 12:00:00.000000 123.456789 journal text");
        s.msg(e1, STD, V_LOG, 1, b"SYS\0", b"JOUR", 60_020, &p);
        v.push(s.seed("network_and_rewrite", false));
    }
    // lifecycle shapes: two ecus, reboot, timestamp 0 / max
    {
        let mut s = Sb::new();
        for (i, (ecu, ts)) in [(b"ECU1", 100_000u32), (b"ECU2", 5_000), (b"ECU1", 100_010), (b"ECU1", 5), (b"ECU2", 0), (b"ECU1", u32::MAX)].iter().enumerate() {
            let mut p = Pb::new();
            p.strg(&format!("m{i}"));
            s.msg(ecu, STD, V_LOG, 1, b"APP1", b"CTX1", *ts, &p);
        }
        v.push(s.seed("lifecycle_shapes", false));
    }
    v
}

/// the plugin-specific message pool of the C19 explorer (hits and near misses for NonVerbose, SOME/IP incl.
/// segmented NWST/NWCH/NWEN, CAN, Muniic, Rewrite), serialised with the real writer, in chunks of 14 messages
fn plugin_pool_seeds() -> Vec<Seed> {
    let pool = crate::c19::pool();
    let refs: Vec<&crate::c19::T> = pool.iter().collect();
    let mut v = vec![];
    for (ci, chunk) in refs.chunks(14).enumerate() {
        let (_tags, msgs) = crate::c19::compose(chunk);
        let mut bytes = vec![];
        let mut bounds = vec![];
        for m in &msgs {
            bounds.push(bytes.len());
            let _ = m.to_write(&mut bytes);
        }
        v.push(Seed { name: format!("plugin_pool_{ci}"), ext: "dlt", bytes, bounds, fields: vec![], pairwise: false });
    }
    v
}

fn repo_prefix_seeds(nmsgs: usize) -> Vec<Seed> {
    let mut v = vec![];
    for f in ["lc_ex002.dlt", "lc_ex003.dlt", "lc_ex004.dlt", "lc_ex005.dlt", "lc_ex006.dlt", "ex_1970_1_1.dlt"] {
        let path = format!("/repo/tests/{f}");
        if let Ok(all) = std::fs::read(&path) {
            let head = &all[..all.len().min(256 * 1024)];
            let mut it = adlt::utils::DltMessageIterator::new(0, head);
            let mut bounds = vec![0usize];
            let mut fields = vec![];
            let mut n = 0;
            while it.next().is_some() {
                n += 1;
                bounds.push(it.bytes_processed);
                if n >= nmsgs {
                    break;
                }
            }
            let end = *bounds.last().unwrap();
            bounds.pop();
            for b in &bounds {
                if head[*b..].starts_with(b"DLT\x01") {
                    fields.push(Field { off: b + 16, width: 1, kind: 'h' });
                    fields.push(Field { off: b + 18, width: 2, kind: 'b' });
                }
            }
            v.push(Seed { name: format!("repo:{f}"), ext: "dlt", bytes: head[..end].to_vec(), bounds, fields, pairwise: false });
        }
    }
    v
}

fn text_seeds() -> Vec<Seed> {
    let mut v = vec![];
    let mut add = |name: &str, ext: &'static str, bytes: Vec<u8>| v.push(Seed { name: name.into(), ext, bytes, bounds: vec![], fields: vec![], pairwise: false });
    for (f, ext, cap) in [
        ("can_example1.asc", "asc", 1200usize),
        ("can_example1b.asc", "asc", 600),
        ("can_example1c.asc", "asc", 600),
        ("can_example2a.asc", "asc", 600),
        ("can_example2b.asc", "asc", 600),
        ("can_example3.asc", "asc", 1200),
        ("logcat_example1.txt", "txt", 1500),
        ("logcat_example2.txt", "txt", 600),
        ("logcat_example3.txt", "txt", 1100),
        ("logcat_example4.txt", "txt", 1000),
        ("genlog_example1.log", "log", 1500),
    ] {
        if let Ok(b) = std::fs::read(format!("/repo/tests/{f}")) {
            let n = b.len().min(cap);
            add(&format!("repo:{f}"), ext, b[..n].to_vec());
        }
    }
    // generated text seeds: one per line format the text readers know
    add("gen:logcat_monotonic", "txt", b"     1.123   100   200 I tag: hello\n     2.123   100   200 W other_tag: world 42\n".to_vec());
    add("gen:logcat_threadtime", "txt", b"--------- beginning of main\n01-01 00:00:01.000  100   100 I first  : ok\n01-01 00:00:02.500  100   101 E second: not ok\n".to_vec());
    // fractions of 2 and 1 digits: with one 2-byte / 3-byte character the time stamp has the expected byte length again
    add("gen:logcat_threadtime_short_fraction", "txt", b"--------- beginning of main\n01-01 00:00:01.12  100   100 I first  : ok\n01-01 00:00:02.5  100   101 E second: not ok\n".to_vec());
    add("gen:genlog", "log", b"[2024-03-09 23:01:31.627] [INF] [conftest] some text: 3.44 %\n[2024-03-09 23:01:32.627] [ERR] [other] more text\n".to_vec());
    add("gen:asc", "asc", b"date Tue Apr 12 08:55:37 AM 2022\nbase hex timestamps absolute\n//BusMapping: CAN 1 = Bus1\n0.985210 1 36f Rx d 5 f2 f7 fe ff 14 Length = 0 BitCount = 0 ID = 879\n".to_vec());
    v
}

/// grammar products for the text formats (each line is a case on top of a fixed valid preamble)
fn grammar_cases() -> Vec<(String, &'static str, Vec<u8>)> {
    let mut out = vec![];
    // logcat threadtime / time / epoch-ish forms
    let dates = ["01-01 00:00:00.000", "12-31 23:59:59.999", "13-32 25:61:61.1000", "00-00 00:00:00.000", "02-30 12:00:00.5", "1.5", "    18.062", "99999999999.999", "2024-03-09 23:01:31.627", "-1.0", ""];
    let pids = ["  529   529", "0 0", "4294967296 1", "-1 -1", "abc def", ""];
    let levels = ["I", "V", "D", "W", "E", "F", "S", "X", ""];
    let tags = ["tag", "", "a:b", "tag with spaces", "ÄÖÜ", "t\t", &"x".repeat(300)];
    let texts = ["text", "", ": : :", "\u{0}", &"y".repeat(5000)];
    for d in dates {
        for p in pids {
            for l in levels {
                for t in tags.iter() {
                    for x in texts.iter().take(if d.is_empty() { 1 } else { 5 }) {
                        let line = format!("{d} {p} {l} {t}: {x}\n");
                        let mut b = b"--------- beginning of main\n01-01 00:00:01.000  100   100 I first  : ok\n".to_vec();
                        b.extend_from_slice(line.as_bytes());
                        out.push((format!("logcat:{}", line.chars().take(60).collect::<String>()), "txt", b));
                    }
                }
            }
        }
    }
    // CAN asc
    let pre = b"date Tue Apr 12 08:55:37 AM 2022\nbase hex timestamps absolute\nno internal events logged\n//BusMapping: CAN 1 = Bus1\n".to_vec();
    let times = ["0.985210", "-1.0", "99999999999.999999", "1e309", "0", "", "1.", ".5"];
    let chans = ["1", "0", "255", "65536", "CANFD", "x"];
    let ids = ["36f", "1FFFFFFFx", "FFFFFFFFF", "0", "zz", "ErrorFrame"];
    let dlcs = ["5", "0", "8", "9", "64", "255", "-1", "x"];
    for t in times {
        for c in chans {
            for i in ids {
                for d in dlcs {
                    for data in ["f2 f7 fe ff 14", "", "zz", &"ff ".repeat(70)] {
                        let line = format!("{t} {c} {i} Rx d {d} {data} Length = 0 BitCount = 0 ID = 879\n");
                        let mut b = pre.clone();
                        b.extend_from_slice(line.as_bytes());
                        out.push((format!("asc:{}", line.chars().take(60).collect::<String>()), "asc", b));
                    }
                }
            }
        }
    }
    for hdr in ["date Tue Apr 12 08:55:37 AM 2022", "date Di Apr 12 08:55:37 2022", "date 99 99 99", "date", "base dec timestamps relative", "base hex", "Begin Triggerblock Tue Apr 12 08:55:37.123 AM 2022", "   0.000000 Start of measurement", "CANFD   1 Rx        123  name  1 0 8  8 01 02 03 04 05 06 07 08  0 0 0 0 0 0 0 0", "//BusMapping: CAN 300 = x", "//BusMapping: CAN  = "] {
        let mut b = hdr.as_bytes().to_vec();
        b.extend_from_slice(b"\nbase hex timestamps absolute\n0.5 1 36f Rx d 2 01 02\n");
        out.push((format!("asc_hdr:{hdr}"), "asc", b));
    }
    // pairs of lines: tag bookkeeping (tag -> apid maps) only shows with >= 2 distinct odd tags in one file
    let gtags = ["[]", "[ ]", "[  ]", "[\t]", "[a]", "[ a ]", "[a_b_c_d]", "[ABCDE]", "[€]", "[ä ö]", "[é]", "[ää]", "[aä]", "[öö]"];
    for t1 in gtags {
        for t2 in gtags {
            let b = format!("[2024-03-09 23:01:31.627] [INF] {t1} text a\n[2024-03-09 23:01:31.628] [INF] {t2} text b\n[2024-03-09 23:01:31.629] [INF] {t1} text c\n").into_bytes();
            out.push((format!("genlog_pair:{t1}{t2}"), "log", b));
        }
    }
    let ltags = ["", " ", "  ", "a", " a ", "a_b_c_d", "ABCDE", "€", "ä ö", "\t", "é", "ää", "aä", "öö"];
    for t1 in ltags {
        for t2 in ltags {
            let b = format!("--------- beginning of main\n01-01 00:00:01.000  100   100 I {t1}: x\n01-01 00:00:02.000  100   100 I {t2}: y\n01-01 00:00:03.000  100   100 I {t1}: z\n").into_bytes();
            out.push((format!("logcat_pair:{t1}|{t2}"), "txt", b));
        }
    }
    // field sizes and numbers at the limits of the generated messages (u16 header length, u64 microseconds)
    for n in [65_490usize, 65_500, 65_514, 65_535, 65_536, 70_000] {
        let long = "a".repeat(n);
        out.push((format!("logcat_long_tag:{n}"), "txt", format!("--------- beginning of main\n01-01 00:00:01.000  100   100 I {long}: x\n01-01 00:00:02.000  100   100 I t2: y\n").into_bytes()));
        out.push((format!("logcat_mono_long_tag:{n}"), "txt", format!("     1.123   100   200 I {long}: hello\n     2.123   100   200 I t2: y\n").into_bytes()));
        out.push((format!("logcat_long_text:{n}"), "txt", format!("--------- beginning of main\n01-01 00:00:01.000  100   100 I tag: {long}\n").into_bytes()));
        out.push((format!("genlog_long_tag:{n}"), "log", format!("[2024-03-09 23:01:31.627] [INF] [{long}] text a\n[2024-03-09 23:01:31.628] [INF] [t2] text b\n").into_bytes()));
        out.push((format!("genlog_long_text:{n}"), "log", format!("[2024-03-09 23:01:31.627] [INF] [tag] {long}\n").into_bytes()));
        let mut b = format!("date Tue Apr 12 08:55:37 AM 2022\nbase hex timestamps absolute\n//BusMapping: CAN 1 = {long}\n").into_bytes();
        b.extend_from_slice(b"0.500000 1 36f Rx d 2 01 02 Length = 0 BitCount = 0 ID = 879\n");
        out.push((format!("asc_long_busname:{n}"), "asc", b));
    }
    // over-long names made of multi-byte characters, shifted by 0..3 ASCII bytes: wherever the reader cuts the name
    // to fit, the cut falls inside a character for one of the shifts
    for (cname, ch) in [("2byte", "ä"), ("3byte", "€"), ("4byte", "\u{1F600}")] {
        for shift in 0..4usize {
            for n in [65_490usize, 65_540, 70_000] {
                let long = format!("{}{}", "a".repeat(shift), ch.repeat(n / ch.len()));
                let tag = format!("{cname}+{shift}:{n}");
                out.push((format!("logcat_long_mb_tag:{tag}"), "txt", format!("--------- beginning of main\n01-01 00:00:01.000  100   100 I {long}: x\n01-01 00:00:02.000  100   100 I t2: y\n").into_bytes()));
                out.push((format!("logcat_long_mb_text:{tag}"), "txt", format!("--------- beginning of main\n01-01 00:00:01.000  100   100 I tag: {long}\n").into_bytes()));
                out.push((format!("genlog_long_mb_tag:{tag}"), "log", format!("[2024-03-09 23:01:31.627] [INF] [{long}] text a\n[2024-03-09 23:01:31.628] [INF] [t2] text b\n").into_bytes()));
                out.push((format!("genlog_long_mb_text:{tag}"), "log", format!("[2024-03-09 23:01:31.627] [INF] [tag] {long}\n").into_bytes()));
                let mut b = format!("date Tue Apr 12 08:55:37 AM 2022\nbase hex timestamps absolute\n//BusMapping: CAN 1 = {long}\n").into_bytes();
                b.extend_from_slice(b"0.500000 1 36f Rx d 2 01 02 Length = 0 BitCount = 0 ID = 879\n");
                out.push((format!("asc_long_mb_busname:{tag}"), "asc", b));
            }
        }
    }
    for n in [21_000usize, 65_500, 65_514, 65_520, 65_536, 70_000] {
        let mut b = pre.clone();
        let mut line = format!("0.100000 1 36f Rx d {n}");
        for _ in 0..n {
            line.push_str(" 00");
        }
        line.push_str(" Length = 0 BitCount = 0 ID = 879\n0.200000 1 36f Rx d 1 01 Length = 0 BitCount = 0 ID = 879\n");
        b.extend_from_slice(line.as_bytes());
        out.push((format!("asc_long_data:{n}"), "asc", b));
        let mut b = pre.clone();
        let mut line = format!("0.100000 CANFD   1 Rx        123  name  1 0 f {n}");
        for _ in 0..n {
            line.push_str(" 00");
        }
        line.push_str("  0 0 0 0 0 0 0 0\n");
        b.extend_from_slice(line.as_bytes());
        out.push((format!("asc_canfd_long_data:{n}"), "asc", b));
    }
    for t in ["4294967295.999999", "4294967296.000000", "429496.729500", "429496.729600", "42949672.950000", "42949672.960000", "9223372036854.775807", "9223372036855.000000", "9999999999999.985210", "9999999999999999.985210", "18446744073709.551615", "18446744073709.551", "18446744073710.0", "99999999999999.999", "9999999999999999.123", "99999999999999999.123", "18446744073709551615.0", "18446744073709551616.0", "99999999999999999999.1"] {
        out.push((format!("logcat_mono_time:{t}"), "txt", format!("     1.000   100   200 I tag: first\n{t}   100   200 I tag: hello\n     3.000   100   200 I tag: last\n").into_bytes()));
        let mut b = pre.clone();
        b.extend_from_slice(format!("0.500000 1 36f Rx d 2 01 02 Length = 0 BitCount = 0 ID = 879\n{t} 1 36f Rx d 2 01 02 Length = 0 BitCount = 0 ID = 879\n-{t} 1 36f Rx d 2 01 02 Length = 0 BitCount = 0 ID = 879\n1.000000 1 36f Rx d 2 01 02 Length = 0 BitCount = 0 ID = 879\n").as_bytes());
        out.push((format!("asc_time:{t}"), "asc", b));
    }
    // every length of the fraction / of the seconds part (scaling by powers of ten, digit counts beyond u64)
    for n in (1..=40usize).chain([64, 70, 80, 200, 400]) {
        for (name, t) in [("frac", format!("21.{}", "0".repeat(n - 1) + "1")), ("frac9", format!("21.{}", "9".repeat(n))), ("secs", format!("{}.5", "1".repeat(n))), ("secs0", format!("{}1.5", "0".repeat(n)))] {
            out.push((format!("logcat_mono_digits:{name}:{n}"), "txt", format!("     1.000   100   200 I tag: first\n{t}   100   200 I tag: hello\n     3.000   100   200 I tag: last\n").into_bytes()));
            out.push((format!("logcat_threadtime_digits:{name}:{n}"), "txt", format!("01-01 00:00:01.000   100   200 I tag: first\n01-01 00:00:{t}   100   200 I tag: hello\n").into_bytes()));
            let mut b = pre.clone();
            b.extend_from_slice(format!("0.500000 1 36f Rx d 2 01 02 Length = 0 BitCount = 0 ID = 879\n{t} 1 36f Rx d 2 01 02 Length = 0 BitCount = 0 ID = 879\n1.000000 1 36f Rx d 2 01 02 Length = 0 BitCount = 0 ID = 879\n").as_bytes());
            out.push((format!("asc_time_digits:{name}:{n}"), "asc", b));
            out.push((format!("genlog_digits:{name}:{n}"), "log", format!("[2024-03-09 23:01:31.000] [INF] [first] ok\n[2024-03-09 23:01:{t}] [INF] [t] x\n").into_bytes()));
        }
    }
    // generic log
    for d in ["[2024-03-09 23:01:31.627]", "[9999-99-99 99:99:99.999]", "[0000-00-00 00:00:00.000]", "[2024-03-09]", "[]", "2024-03-09 23:01:31.627", "[2024-03-09 23:01:31.627"] {
        for l in ["[INF]", "[ERR]", "[WRN]", "[DBG]", "[]", "[VERYLONGLEVEL]", ""] {
            for t in ["[conftest]", "[a.b.c]", "[]", "", &format!("[{}]", "t".repeat(200))] {
                let line = format!("{d} {l} {t} some text: 3.44 %\n");
                let mut b = b"[2024-03-09 23:01:31.000] [INF] [first] ok\n".to_vec();
                b.extend_from_slice(line.as_bytes());
                out.push((format!("genlog:{}", line.chars().take(60).collect::<String>()), "log", b));
            }
        }
    }
    out
}

// ------------------------------------------------------------------ the chain
type LcsR = evmap::ReadHandle<LifecycleId, adlt::lifecycle::LifecycleItem, (), nohash_hasher::BuildNoHashHasher<LifecycleId>>;

struct Chain {
    heavy: Vec<Box<dyn Plugin + Send>>,
    heavy_uses: usize,
    filters: Vec<Filter>,
    fkc: FilterKindContainer<Vec<Filter>>,
    tmp: tempfile::TempDir,
    namespace: u32,
    /// files the file-transfer plugin auto-saved (non-vacuity of the file-transfer seeds)
    ft_saved: u64,
}

fn heavy_plugins() -> Vec<Box<dyn Plugin + Send>> {
    let mut eac = EacStats::new();
    let cfgs = [
        json!({"name":"NonVerbose","fibexDir":"/repo/tests"}),
        json!({"name":"SomeIp","fibexDir":"/repo/tests"}),
        json!({"name":"CAN","fibexDir":"/repo/tests"}),
        json!({"name":"Muniic","jsonDir":"/repo/tests/muniic"}),
        serde_json::from_str::<Value>(&std::fs::read_to_string("/repo/tests/rewrite.cfg").unwrap_or_else(|_| "{}".into())).unwrap_or(json!({})),
    ];
    cfgs.iter().filter_map(|c| c.as_object().and_then(|o| get_plugin(o, &mut eac))).collect()
}

impl Chain {
    fn new() -> Chain {
        let fjs = [
            r#"{"type":0,"ecu":"ECU1"}"#,
            r#"{"type":0,"apid":"^AP","apidIsRegex":true}"#,
            r#"{"type":1,"ctid":"CTX1"}"#,
            r#"{"type":0,"mstp":3}"#,
            r#"{"type":0,"verb_mstp_mtin":65}"#,
            r#"{"type":0,"logLevelMin":2,"logLevelMax":5}"#,
            r#"{"type":0,"payload":"hello","ignoreCasePayload":true}"#,
            r#"{"type":3,"payloadRegex":"^(?<a>\\w+) (\\d+)"}"#,
            r#"{"type":0,"lifecycles":[1,2],"not":true}"#,
            r#"{"type":2,"ecu":"ECU2"}"#,
        ];
        let filters: Vec<Filter> = fjs.iter().filter_map(|j| Filter::from_json(j).ok()).collect();
        let mut fkc: FilterKindContainer<Vec<Filter>> = Default::default();
        for f in &filters {
            fkc[f.kind].push(f.clone());
        }
        let _ = FilterKind::Positive;
        Chain { heavy: heavy_plugins(), heavy_uses: 0, filters, fkc, tmp: tempfile::tempdir().expect("tmp"), namespace: get_new_namespace(), ft_saved: 0 }
    }

    /// run the whole chain; returns (messages, lifecycles) or the panic
    fn run(&mut self, ext: &str, bytes: &[u8]) -> Result<(usize, usize), Panicked> {
        if self.heavy_uses > 300 || self.heavy.is_empty() {
            self.heavy = heavy_plugins();
            self.heavy_uses = 0;
        }
        self.heavy_uses += 1;
        let heavy = std::mem::take(&mut self.heavy);
        let tmp_path = self.tmp.path().to_string_lossy().to_string();
        // text readers keep a per-namespace tag -> APID map: a fresh namespace per case keeps the cases independent
        let ns = if ext == "dlt" { self.namespace } else { get_new_namespace() };
        let (filters, fkc) = (&self.filters, &self.fkc);
        let mut heavy_back: Option<Vec<Box<dyn Plugin + Send>>> = None;
        let r = catch(|| {
            // 1. read
            let it = get_dlt_message_iterator(ext, 0, Cursor::new(bytes), ns, None, Some(1_650_000_000_000_000), None);
            let msgs: Vec<DltMessage> = it.take(5000).collect();
            if ext == "asc" {
                // the same file as a further file of a multi-file open (a reference time is handed over)
                let n2 = get_dlt_message_iterator(ext, 0, Cursor::new(bytes), ns, Some(1_649_000_000_000_000), Some(1_650_000_000_000_000), None).take(5000).count();
                std::hint::black_box(n2);
            }
            // 2. render / re-serialise
            let mut sink: Vec<u8> = Vec::with_capacity(4096);
            let mut eac = EacStats::new();
            for m in &msgs {
                sink.clear();
                let _ = m.header_as_text_to_write(&mut sink);
                let _ = m.payload_as_text();
                for a in m {
                    std::hint::black_box(a.payload_raw.len() + a.type_info as usize);
                }
                let _ = m.to_write(&mut sink);
                eac.add_msg(m);
            }
            // 3. lifecycles
            let (lcs_r, lcs_w): (LcsR, _) = evmap::Options::default().with_hasher(nohash_hasher::BuildNoHashHasher::<LifecycleId>::default()).construct();
            let (tx, rx) = std::sync::mpsc::channel();
            for m in &msgs {
                tx.send(m.clone()).unwrap();
            }
            drop(tx);
            let delivered = std::cell::RefCell::new(Vec::with_capacity(msgs.len()));
            let lw = parse_lifecycles_buffered_from_stream(lcs_w, rx, &|m| {
                // list the lifecycles as a consumer of the stream does at every delivered message
                std::hint::black_box(lcs_r.read().map(|r| get_sorted_lifecycles_as_vec(&r).len()));
                delivered.borrow_mut().push(m);
                Ok(())
            });
            let delivered = delivered.into_inner();
            let nlc = lcs_r.read().map(|r| get_sorted_lifecycles_as_vec(&r).len()).unwrap_or(0);
            // 4. sort
            let (tx, rx) = std::sync::mpsc::channel();
            for m in &delivered {
                tx.send(m.clone()).unwrap();
            }
            drop(tx);
            let sorted = std::cell::RefCell::new(Vec::with_capacity(delivered.len()));
            let _ = buffer_sort_messages(rx, &|m| {
                sorted.borrow_mut().push(m);
                Ok(())
            }, &lcs_r, 3, 2_000_000);
            // 5. filters
            for m in &delivered {
                for f in filters {
                    std::hint::black_box(f.matches(m));
                }
                std::hint::black_box(match_filters(m, fkc));
            }
            let (tx, rx) = std::sync::mpsc::channel();
            for m in &delivered {
                tx.send(m.clone()).unwrap();
            }
            drop(tx);
            let _ = adlt::filter::functions::filter_as_streams(filters, &rx, &|_m| Ok(()));
            // 6. plugins
            let mut plugins: Vec<Box<dyn Plugin + Send>> = vec![];
            let mut eac2 = EacStats::new();
            if let Some(ft) = json!({"name":"FileTransfer","allowSave":true,"keepFLDA":false,"autoSavePath":tmp_path,"autoSaveGlob":"*"}).as_object().and_then(|o| get_plugin(o, &mut eac2)) {
                plugins.push(ft);
            }
            let n_light = plugins.len();
            plugins.extend(heavy);
            plugins.push(Box::new(AnonymizePlugin::new("anon")));
            let (tx, rx) = std::sync::mpsc::channel();
            for m in &delivered {
                tx.send(m.clone()).unwrap();
            }
            drop(tx);
            if let Ok(mut ps) = plugins_process_msgs(rx, &|_m| Ok(()), plugins) {
                ps.pop(); // anonymiser
                heavy_back = Some(ps.split_off(n_light));
            }
            drop(lw);
            (msgs.len(), nlc)
        });
        if let Some(h) = heavy_back {
            self.heavy = h;
        }
        // clean auto-saved files
        if let Ok(rd) = std::fs::read_dir(self.tmp.path()) {
            for e in rd.flatten() {
                self.ft_saved += 1;
                let _ = std::fs::remove_file(e.path());
            }
        }
        r
    }
}

// ------------------------------------------------------------------ mutation operators
const SUBST: [u8; 5] = [0x00, 0x01, 0x7F, 0x80, 0xFF];
fn boundary(width: usize) -> Vec<u64> {
    match width {
        1 => vec![0, 1, 2, 0x7f, 0x80, 0xfe, 0xff],
        2 => vec![0, 1, 2, 0x7fff, 0x8000, 0xfffe, 0xffff],
        _ => vec![0, 1, 2, 0x7fff_ffff, 0x8000_0000, 0xffff_fffe, 0xffff_ffff],
    }
}
fn put(b: &mut [u8], f: &Field, v: u64) {
    let bytes = v.to_le_bytes();
    for i in 0..f.width {
        if f.off + i < b.len() {
            b[f.off + i] = if f.kind == 'b' { bytes[f.width - 1 - i] } else { bytes[i] };
        }
    }
}
fn field_values(f: &Field) -> Vec<u64> {
    match f.kind {
        's' => (0..=21u64).chain(0xF00..=0xF10).chain([0x7fff_ffff, 0x8000_0000, 0xffff_ffff]).collect(),
        'h' => (0..=255u64).collect(),
        _ => boundary(f.width),
    }
}

struct Shared {
    chain: Chain,
    baseline: Vec<usize>,
}

fn judge(ctx: &mut Ctx, sh: &mut Shared, seed: &str, ext: &str, bytes: &[u8], case: &dyn Fn() -> Value) {
    ctx.announce(case);
    let _ = alloc::take_huge_sizes();
    let r = sh.chain.run(ext, bytes);
    let huge = alloc::take_huge_sizes();
    if sh.chain.ft_saved > 0 {
        ctx.landmark_n("file_transfer_autosaved", sh.chain.ft_saved);
        sh.chain.ft_saved = 0;
    }
    if std::env::var_os("MC_C03_DEBUG").is_some() && seed == "file_transfer" { eprintln!("DBG huge={:?} base={:?} r={:?}", huge, sh.baseline, r.as_ref().map(|x| *x).map_err(|p| p.msg.clone())); }
    let mut nontrivial = false;
    match r {
        Err(p) => {
            ctx.violation("panic", &p.loc, case, format!("{} (seed {seed})", p.msg.chars().take(200).collect::<String>()));
            nontrivial = true;
        }
        Ok((n, lcs)) => {
            if n > 0 {
                nontrivial = true;
                ctx.landmark("parsed_messages");
            }
            if lcs > 1 {
                ctx.landmark("multi_lifecycle");
            }
            ctx.outcome(fnv_str(&format!("{seed}:{n}:{lcs}")));
        }
    }
    for h in huge {
        if !sh.baseline.contains(&h) {
            ctx.violation("alloc", &format!("{}MiB", h >> 20), case, format!("allocation request of {h} bytes that the unmutated seeds never make (seed {seed})"));
        }
    }
    ctx.eval(nontrivial);
    ctx.sample(case);
}

fn hexs(b: &[u8]) -> String {
    if b.len() <= 3000 {
        hex(b)
    } else {
        format!("<{} bytes>", b.len())
    }
}

impl Prop for C03 {
    fn meta(&self, _t: Tier) -> Meta {
        Meta {
            id: "C03",
            level: "fault_enumeration",
            rule: "seed corpus = generated DLT traces covering every verbose argument type, non-verbose, header shapes, every control service id (request/response, non-verbose and verbose, with bodies for the parsed ones), FLST/FLDA/FLFI, network traces, lifecycle shapes + the plugin-specific message pool of the C19 explorer (NonVerbose / SOME/IP incl. segmented NWST-NWCH-NWEN / CAN / Muniic / Rewrite hits and near misses, 82 messages) + the first 40 (thorough: 200) messages of each repository .dlt example + the repository .asc/.txt/.log examples (prefixes). Mutation operators, each enumerated completely over every seed: (a) every truncation point, (b) every offset x {00,01,7F,80,FF,b^1,b^80}, (b2) every offset x 16-bit {0,FFFF,1} / 32-bit {0,FFFFFFFF} windows, (c) every recorded header/type-info/length/numeric/service-id/timestamp field x boundary table (service ids: all known ids, flag bytes: all 256 values), (d) every ordered pair splice of generated DLT seeds at message boundaries, (e) every pair of fields at most 8 apart x corner values for the file-transfer seed (thorough: every pair of adjacent field corruptions x full boundary table for control and file-transfer seeds), (b3) text seeds: every offset replaced by a multi-byte UTF-8 character (a symbol, two non-ASCII white-space characters, two non-ASCII digits), (g) uncorrupted multi-lifecycle histories: the boot-trace product of the C08 explorer (1 ECU x 1..2 boots, 2 ECUs x up to (2,2) boots x every interleaving) as valid DLT files, (h) every lifecycle event sequence up to depth 3 over the 40-symbol alphabet and up to depth 6 over the suspend/resume alphabet of the C05-C07 explorer (detection + listing only; thorough: depth 4 / 8), (i) uncorrupted traces with 255..1300 distinct ECU ids / application ids of one ECU / context ids of one application, (f) grammar products of text lines (incl. all ordered pairs of 14 odd tags incl. short multi-byte ones for logcat and generic logs) (timestamp forms x pid/level/tag/text shapes for logcat, time/channel/id/dlc/data for CAN-ASC incl. header lines, date/level/tag for generic logs). Every case runs the full chain on the real code: reader by extension, header/payload text, argument iteration, to_write, EacStats, lifecycle detection + listing, time sort, 10 filters (matches, match_filters, filter_as_streams), FileTransfer(save)/NonVerbose/SomeIp/CAN/Muniic/Rewrite/Anonymize plugins. Oracle: no panic (overflow checks on), no process death (worker isolation), no allocation request >= 32 MiB whose size the unmutated seeds never request. Non-trivial = at least one message was parsed or a violation occurred.".into(),
            assumptions: vec!["crash-freedom is decided for the enumerated neighbourhood, not for all byte strings".into(),
                "FIBEX-configured plugins are re-created every 300 cases (their state carries over within such a window); a panic is re-checked on the single case by replay".into(),
                "serial-framed DLT is covered through the byte operators on seeds re-framed with DLS markers".into()],
            budget_s: (150, 1800),
            workers: 0,
            required_landmarks: vec!["parsed_messages", "multi_lifecycle", "op_truncate", "op_subst", "op_field", "op_splice", "op_grammar", "op_wide_subst", "op_multibyte", "op_lc_history", "op_id_population", "op_lc_sequence", "op_field_pair", "file_transfer_autosaved", "fmt_asc", "fmt_txt", "fmt_log", "fmt_serial"],
        }
    }
    fn careful(&self) -> bool {
        true
    }
    fn run(&self, ctx: &mut Ctx) {
        let thorough = ctx.tier == Tier::Thorough;
        let mut sh = Shared { chain: Chain::new(), baseline: vec![] };
        let mut gen = dlt_seeds();
        let pool_seeds = plugin_pool_seeds();
        gen.extend(pool_seeds.iter().cloned());
        let repo = repo_prefix_seeds(if thorough { 200 } else { 40 });
        let text = text_seeds();
        // serial variants of two generated seeds: every storage header replaced by the serial marker
        let mut serial: Vec<Seed> = vec![];
        for s in gen.iter().filter(|s| s.name == "verbose_arg_types" || s.name == "file_transfer") {
            let mut b = vec![];
            let mut bounds = vec![];
            for (i, st) in s.bounds.iter().enumerate() {
                let end = s.bounds.get(i + 1).copied().unwrap_or(s.bytes.len());
                bounds.push(b.len());
                b.extend_from_slice(b"DLS\x01");
                b.extend_from_slice(&s.bytes[st + 16..end]);
            }
            serial.push(Seed { name: format!("serial:{}", s.name), ext: "dlt", bytes: b, bounds, fields: vec![], pairwise: false });
        }
        // baseline allocation sizes from the unmutated seeds
        let _ = alloc::take_huge_sizes();
        for s in gen.iter().chain(repo.iter()).chain(text.iter()).chain(serial.iter()) {
            let _ = sh.chain.run(s.ext, &s.bytes);
        }
        sh.baseline = alloc::take_huge_sizes();
        ctx.extra_set("baseline_huge_allocation_sizes", json!(sh.baseline));
        ctx.extra_set("seeds", json!(gen.iter().chain(repo.iter()).chain(text.iter()).chain(serial.iter()).map(|s| json!({"name": s.name, "bytes": s.bytes.len(), "fields": s.fields.len()})).collect::<Vec<_>>()));

        macro_rules! check_time {
            ($fam_done:ident) => {
                if ctx.sum.evaluations % 256 == 0 && ctx.out_of_time() {
                    $fam_done = false;
                }
            };
        }
        // (c) field-targeted
        ctx.begin_family("fields", "every recorded field x boundary table (generated + repo-prefix DLT seeds)");
        let mut done = true;
        'c: for s in gen.iter().chain(repo.iter()) {
            for (fi, f) in s.fields.iter().enumerate() {
                for v in field_values(f) {
                    if ctx.mine() {
                        let mut b = s.bytes.clone();
                        put(&mut b, f, v);
                        ctx.landmark("op_field");
                        judge(ctx, &mut sh, &s.name, s.ext, &b, &|| json!({"op": "field", "seed": s.name, "field": fi, "offset": f.off, "width": f.width, "value": v, "ext": s.ext, "bytes_hex": hexs(&b)}));
                        check_time!(done);
                        if !done {
                            break 'c;
                        }
                    }
                }
            }
        }
        ctx.end_family(done);
        if !done {
            return;
        }
        // (e0) pairs of nearby fields of the file-transfer seed (announced sizes interact: file size x number of
        // packages x buffer size), corner values only
        ctx.begin_family("field_pairs_near", "file-transfer seed: every pair of fields at most 8 fields apart x corner values {0,1,max/2,max}^2");
        'e0: for s in gen.iter().filter(|s| s.name == "file_transfer") {
            for w1 in 0..s.fields.len() {
                for w2 in w1 + 1..s.fields.len().min(w1 + 9) {
                    let (f1, f2) = (&s.fields[w1], &s.fields[w2]);
                    let corners = |w: usize| -> Vec<u64> { let b = boundary(w); vec![b[0], b[1], b[3], b[6]] };
                    for v1 in corners(f1.width) {
                        for v2 in corners(f2.width) {
                            if ctx.mine() {
                                let mut b = s.bytes.clone();
                                put(&mut b, f1, v1);
                                put(&mut b, f2, v2);
                                ctx.landmark("op_field_pair");
                                judge(ctx, &mut sh, &s.name, s.ext, &b, &|| json!({"op": "field_pair", "seed": s.name, "ext": s.ext, "bytes_hex": hexs(&b)}));
                                check_time!(done);
                                if !done {
                                    break 'e0;
                                }
                            }
                        }
                    }
                }
            }
        }
        ctx.end_family(done);
        if !done {
            return;
        }
        // (a) truncation
        ctx.begin_family("truncate", "every truncation point of every seed");
        'a: for s in gen.iter().chain(serial.iter()).chain(text.iter()).chain(repo.iter()) {
            for cut in 0..s.bytes.len() {
                if ctx.mine() {
                    let b = &s.bytes[..cut];
                    ctx.landmark("op_truncate");
                    judge(ctx, &mut sh, &s.name, s.ext, b, &|| json!({"op": "truncate", "seed": s.name, "cut": cut, "ext": s.ext, "bytes_hex": hexs(b)}));
                    check_time!(done);
                    if !done {
                        break 'a;
                    }
                }
            }
        }
        ctx.end_family(done);
        if !done {
            return;
        }
        // (f) grammar
        ctx.begin_family("grammar", "text line products for logcat / CAN-ASC / generic log");
        for (name, ext, b) in grammar_cases() {
            if ctx.mine() {
                ctx.landmark("op_grammar");
                ctx.landmark(match ext {
                    "asc" => "fmt_asc",
                    "txt" => "fmt_txt",
                    _ => "fmt_log",
                });
                judge(ctx, &mut sh, &name, ext, &b, &|| json!({"op": "grammar", "seed": name, "ext": ext, "bytes_hex": hexs(&b)}));
                check_time!(done);
                if !done {
                    break;
                }
            }
        }
        ctx.end_family(done);
        if !done {
            return;
        }
        // (b3) text formats: every offset replaced by a multi-byte UTF-8 character (the result stays valid UTF-8)
        ctx.begin_family("multibyte", "text seeds: every offset replaced by a multi-byte UTF-8 character: EURO SIGN, IDEOGRAPHIC SPACE, NO-BREAK SPACE, ARABIC-INDIC DIGIT THREE, FULLWIDTH DIGIT ONE (byte offsets vs char boundaries; white space and digits that are not ASCII but match \\s / \\d)");
        'm: for s in text.iter() {
            if !s.bytes.is_ascii() {
                continue;
            }
            for off in 0..s.bytes.len() {
                if s.bytes[off] == b'\n' {
                    continue;
                }
                // a symbol, and white space that is not ASCII (regular expressions count it as \\s, byte arithmetic does not)
                for ch in ["\u{20ac}", "\u{3000}", "\u{a0}", "\u{663}", "\u{ff11}"] {
                    if ctx.mine() {
                        let mut b = s.bytes[..off].to_vec();
                        b.extend_from_slice(ch.as_bytes());
                        b.extend_from_slice(&s.bytes[off + 1..]);
                        ctx.landmark("op_multibyte");
                        judge(ctx, &mut sh, &s.name, s.ext, &b, &|| json!({"op": "multibyte", "seed": s.name, "offset": off, "ext": s.ext, "bytes_hex": hexs(&b)}));
                        check_time!(done);
                        if !done {
                            break 'm;
                        }
                    }
                }
            }
        }
        ctx.end_family(done);
        if !done {
            return;
        }
        // (d) splices of generated seeds at message boundaries
        ctx.begin_family("splice", "every ordered pair of generated DLT seeds x every (prefix boundary, suffix boundary)");
        'd: for a in gen.iter() {
            for b2 in gen.iter() {
                for i in 1..=a.bounds.len() {
                    let cut_a = a.bounds.get(i).copied().unwrap_or(a.bytes.len());
                    for j in 0..b2.bounds.len() {
                        if !thorough && (i + j) % 3 != 0 {
                            continue;
                        }
                        if ctx.mine() {
                            let mut b = a.bytes[..cut_a].to_vec();
                            b.extend_from_slice(&b2.bytes[b2.bounds[j]..]);
                            ctx.landmark("op_splice");
                            judge(ctx, &mut sh, &a.name, "dlt", &b, &|| json!({"op": "splice", "seed": a.name, "seed2": b2.name, "prefix_msgs": i, "suffix_from": j, "ext": "dlt", "bytes_hex": hexs(&b)}));
                            check_time!(done);
                            if !done {
                                break 'd;
                            }
                        }
                    }
                }
            }
        }
        ctx.end_family(done);
        if !done {
            return;
        }
        // (b) byte substitution
        ctx.begin_family("subst", "every offset x {00,01,7F,80,FF,b^1,b^80} of every seed (repo prefixes: thorough only beyond the first 800 bytes)");
        'b: for s in gen.iter().chain(serial.iter()).chain(text.iter()).chain(repo.iter()) {
            let limit = if s.name.starts_with("repo:") && s.ext == "dlt" && !thorough { 800.min(s.bytes.len()) } else { s.bytes.len() };
            for off in 0..limit {
                let orig = s.bytes[off];
                let mut vals: Vec<u8> = SUBST.to_vec();
                vals.push(orig ^ 1);
                vals.push(orig ^ 0x80);
                if s.ext != "dlt" {
                    vals.extend_from_slice(b"\n 9:");
                }
                for v in vals {
                    if v == orig {
                        continue;
                    }
                    if ctx.mine() {
                        let mut b = s.bytes.clone();
                        b[off] = v;
                        ctx.landmark("op_subst");
                        if s.name.starts_with("serial:") {
                            ctx.landmark("fmt_serial");
                        }
                        judge(ctx, &mut sh, &s.name, s.ext, &b, &|| json!({"op": "subst", "seed": s.name, "offset": off, "value": v, "ext": s.ext, "bytes_hex": hexs(&b)}));
                        check_time!(done);
                        if !done {
                            break 'b;
                        }
                    }
                }
            }
        }
        ctx.end_family(done);
        if !done {
            return;
        }
        // (b2) structure-blind multi-byte boundary values: every offset x {2-byte 0000, FFFF, 0001; 4-byte 00000000, FFFFFFFF}
        ctx.begin_family("wide_subst", "every offset x 16-bit {0,0xFFFF,1} and 32-bit {0,0xFFFFFFFF} windows (generated + plugin-pool + serial seeds; repo prefixes in thorough)");
        'w: for s in gen.iter().chain(serial.iter()).chain(repo.iter().filter(|_| thorough)) {
            for off in 0..s.bytes.len().saturating_sub(1) {
                for (w, val) in [(2usize, 0u32), (2, 0xFFFF), (2, 1), (4, 0), (4, 0xFFFF_FFFF)] {
                    if off + w > s.bytes.len() {
                        continue;
                    }
                    let newb = val.to_le_bytes();
                    if s.bytes[off..off + w] == newb[..w] {
                        continue;
                    }
                    if ctx.mine() {
                        let mut b = s.bytes.clone();
                        b[off..off + w].copy_from_slice(&newb[..w]);
                        ctx.landmark("op_wide_subst");
                        judge(ctx, &mut sh, &s.name, s.ext, &b, &|| json!({"op": "wide_subst", "seed": s.name, "offset": off, "width": w, "value": val, "ext": s.ext, "bytes_hex": hexs(&b)}));
                        check_time!(done);
                        if !done {
                            break 'w;
                        }
                    }
                }
            }
        }
        ctx.end_family(done);
        if !done {
            return;
        }
        // (g) valid multi-lifecycle histories (the boot-trace product of the C08 explorer) through the whole chain
        ctx.begin_family("lc_histories", "uncorrupted traces: 1 ECU x 1..2 boots (all profiles/delays/offs/perms) and 2 ECUs x (1,1),(2,1),(2,2) boots x every interleaving (reception overlap allowed)");
        crate::c08::history_streams(thorough, &mut |ms, cj| {
            if ctx.mine() {
                let mut b = Vec::with_capacity(ms.len() * 40);
                for (i, (ecu, recv, ts)) in ms.iter().enumerate() {
                    let spec = MsgSpec { storage_ecu: *ecu, hdr_ecu: *ecu, mcnt: i as u8, timestamp: *ts, secs: (*recv / 1_000_000) as u32, micros: (*recv % 1_000_000) as u32, payload: vec![i as u8], ..Default::default() };
                    b.extend_from_slice(&spec.to_bytes());
                }
                ctx.landmark("op_lc_history");
                judge(ctx, &mut sh, "lc_history", "dlt", &b, &|| json!({"op": "lc_history", "seed": "lc_history", "ext": "dlt", "bytes_hex": hexs(&b), "history": cj()}));
                check_time!(done);
            }
            done
        });
        ctx.end_family(done);
        if !done {
            return;
        }
        // (i) valid traces with large id populations (more distinct ECUs / application ids of one ECU / context ids of
        // one application than a 3-digit pseudonym, a u8 or a small table can number)
        ctx.begin_family("id_populations", "uncorrupted traces with n distinct ECU ids / APIDs of one ECU / CTIDs of one APID, n in {255, 256, 257, 999, 1000, 1001, 1300}");
        for kind in 0..3usize {
            for n in [255usize, 256, 257, 999, 1000, 1001, 1300] {
                if ctx.mine() {
                    let a = b"ABCDEFGHIJKLMNOPQRSTUVWXYZ0123456789";
                    let id = |i: usize| -> [u8; 4] { [a[i % 36], a[(i / 36) % 36], a[(i / 1296) % 36], b'x'] };
                    let mut b = Vec::with_capacity(n * 40);
                    for i in 0..n {
                        let ecu = if kind == 0 { id(i) } else { *b"ECU1" };
                        let spec = MsgSpec {
                            htyp: VERS1 | UEH | WEID | WTMS,
                            storage_ecu: ecu,
                            hdr_ecu: ecu,
                            apid: if kind == 1 { id(i) } else { *b"APP1" },
                            ctid: if kind == 2 { id(i) } else { *b"CTX1" },
                            verb_mstp_mtin: 0x41,
                            mcnt: i as u8,
                            timestamp: 10_000 + i as u32 * 10,
                            secs: 1_650_000_000 + (i / 1000) as u32,
                            micros: (i % 1000) as u32 * 1000,
                            payload: vec![i as u8],
                            ..Default::default()
                        };
                        b.extend_from_slice(&spec.to_bytes());
                    }
                    ctx.landmark("op_id_population");
                    judge(ctx, &mut sh, "id_population", "dlt", &b, &|| json!({"op": "id_population", "seed": "id_population", "ext": "dlt", "distinct": (["ecu", "apid", "ctid"][kind]), "n": n, "bytes_hex": hexs(&b)}));
                    check_time!(done);
                }
            }
        }
        ctx.end_family(done);
        if !done {
            return;
        }
        if std::env::var_os("MC_C03_DUMP").is_some() {
            for s in gen.iter().filter(|s| s.name == "file_transfer") {
                eprintln!("DUMP {} {}", hexs(&s.bytes), s.fields.iter().map(|f| format!("{}:{}:{}", f.off, f.width, f.kind)).collect::<Vec<_>>().join(","));
            }
        }
        // (h) lifecycle event sequences (alphabets of the C05-C07 explorer), detection + listing only
        {
            use crate::lcgen::{alphabet, gen_stream, resume_alphabet};
            let plans: Vec<(&str, Vec<crate::lcgen::Sym>, usize)> = vec![("sigma40", alphabet(40), if thorough { 4 } else { 3 }), ("resume", resume_alphabet(), if thorough { 8 } else { 6 })];
            for (name, sig, maxd) in plans {
                ctx.begin_family("lc_sequences", &format!("every event sequence of depth 1..={maxd} over the {name} alphabet ({} symbols): lifecycle detection + listing without a panic", sig.len()));
                for d in 1..=maxd {
                    let mut syms = vec![sig[0]; d];
                    let ok = enumr::sequences(d, sig.len(), |ix| {
                        if ctx.mine() {
                            for (i, x) in ix.iter().enumerate() {
                                syms[i] = sig[*x];
                            }
                            let msgs = gen_stream(&syms, 20_000);
                            let cj = || json!({"op": "lc_sequence", "seed": "lc_sequence", "events": syms.iter().map(|s| s.name()).collect::<Vec<_>>()});
                            let r = crate::lc::run_stage(&[&msgs]);
                            ctx.landmark("op_lc_sequence");
                            match r {
                                Err(p) => ctx.violation("panic", &p.loc, &cj, format!("lifecycle detection: {}", p.msg)),
                                Ok(res) => {
                                    if let Err(p) = &res.listing {
                                        ctx.violation("panic", &p.loc, &cj, format!("listing lifecycles: {}", p.msg));
                                    }
                                    if res.table.len() > 1 {
                                        ctx.landmark("multi_lifecycle");
                                    }
                                }
                            }
                            ctx.eval(d >= 2);
                            ctx.sample(cj);
                            if ctx.sum.evaluations % 4096 == 0 && ctx.out_of_time() {
                                return false;
                            }
                        }
                        true
                    });
                    if !ok {
                        done = false;
                        break;
                    }
                }
                ctx.end_family(done);
                if !done {
                    return;
                }
            }
        }
        if !thorough {
            return;
        }
        // (e) adjacent field pairs
        ctx.begin_family("field_pairs", "control and file-transfer seeds: every pair of adjacent fields x boundary x boundary");
        'e: for s in gen.iter().filter(|s| s.pairwise) {
            for w in 0..s.fields.len().saturating_sub(1) {
                let (f1, f2) = (&s.fields[w], &s.fields[w + 1]);
                for v1 in boundary(f1.width) {
                    for v2 in boundary(f2.width) {
                        if ctx.mine() {
                            let mut b = s.bytes.clone();
                            put(&mut b, f1, v1);
                            put(&mut b, f2, v2);
                            judge(ctx, &mut sh, &s.name, s.ext, &b, &|| json!({"op": "field_pair", "seed": s.name, "ext": s.ext, "bytes_hex": hexs(&b)}));
                            check_time!(done);
                            if !done {
                                break 'e;
                            }
                        }
                    }
                }
            }
        }
        ctx.end_family(done);
    }
    fn replay(&self, case: &Value, ctx: &mut Ctx) {
        ctx.mine();
        if case["op"] == "lc_sequence" {
            let syms: Vec<crate::lcgen::Sym> = case["events"].as_array().map(|a| a.iter().filter_map(|e| e.as_str().and_then(crate::lcgen::Sym::parse)).collect()).unwrap_or_default();
            let msgs = crate::lcgen::gen_stream(&syms, 20_000);
            match crate::lc::run_stage(&[&msgs]) {
                Err(p) => ctx.violation("panic", &p.loc, &|| case.clone(), format!("lifecycle detection: {}", p.msg)),
                Ok(res) => {
                    if let Err(p) = &res.listing {
                        ctx.violation("panic", &p.loc, &|| case.clone(), format!("listing lifecycles: {}", p.msg));
                    }
                }
            }
            ctx.eval(true);
            return;
        }
        let hexs = case["bytes_hex"].as_str().unwrap_or("");
        if hexs.starts_with('<') {
            println!("replay: case bytes were not recorded (too long): {}", case);
            return;
        }
        let b = unhex(hexs);
        let ext = case["ext"].as_str().unwrap_or("dlt").to_string();
        let mut sh = Shared { chain: Chain::new(), baseline: vec![] };
        // baseline: all seeds
        let _ = alloc::take_huge_sizes();
        for s in dlt_seeds().iter().chain(repo_prefix_seeds(40).iter()).chain(text_seeds().iter()) {
            let _ = sh.chain.run(s.ext, &s.bytes);
        }
        sh.baseline = alloc::take_huge_sizes();
        let ext_s: &str = match ext.as_str() {
            "asc" => "asc",
            "txt" => "txt",
            "log" => "log",
            _ => "dlt",
        };
        judge(ctx, &mut sh, case["seed"].as_str().unwrap_or("?"), ext_s, &b, &|| case.clone());
    }
}
