//! C11 — one filter, all front-ends.
//!
//! An abstract filter (harness type `AFilter`) is enumerated over a finite space (criterion subsets, per-criterion
//! variant sweeps, pairs and triples of criteria, negated / enabled flags). Each abstract filter is turned into a real
//! `adlt::filter::Filter` through every library front-end that can express it (JSON with explicit flags, JSON relying on
//! the documented defaults / regex auto-detection, DLF in dlt-viewer layout with decoy values for disabled criteria, DLF
//! compact, dlt-convert APID/CTID list, and the public fields of `Filter` as the `--eac` front-end of the binary uses
//! them) and asked to decide every message of a fixed universe. The oracle is an independent three-valued evaluator
//! written from the property statement (`SpecFilter`): true / false / undefined-by-the-statement. Where it is defined the
//! front-ends must agree with it, where it is undefined they must at least agree with each other; and
//! `from_json(to_json(f))` must decide like `f` on the whole universe.
use crate::core::dltgen::mk_msg;
use crate::core::*;
use adlt::dlt::DltMessage;
use adlt::filter::functions::{filters_from_convert_format, filters_from_dlf};
use adlt::filter::{Char4OrRegex, Filter, FilterKind};
use serde_json::{json, Map, Value};
use std::collections::BTreeSet;

// ------------------------------------------------------------------------------------------------ abstract filter
#[derive(Clone, Debug, PartialEq, Eq)]
pub enum IdCrit {
    Lit(String),
    Re(String),
}
#[derive(Clone, Debug, PartialEq, Eq)]
pub enum PayCrit {
    Sub { s: String, ic: bool },
    Re { p: String, ic: bool },
}
#[derive(Clone, Debug, PartialEq, Eq)]
pub struct AFilter {
    /// 0 positive, 1 negative, 2 marker, 3 event
    pub kind: u8,
    pub enabled: bool,
    pub negated: bool,
    pub ecu: Option<IdCrit>,
    pub apid: Option<IdCrit>,
    pub ctid: Option<IdCrit>,
    /// (value, mask)
    pub mtype: Option<(u8, u8)>,
    pub lvl_min: Option<u8>,
    pub lvl_max: Option<u8>,
    pub payload: Option<PayCrit>,
    pub lifecycles: Option<Vec<u32>>,
}
impl AFilter {
    pub fn new(kind: u8) -> AFilter {
        AFilter {
            kind,
            enabled: true,
            negated: false,
            ecu: None,
            apid: None,
            ctid: None,
            mtype: None,
            lvl_min: None,
            lvl_max: None,
            payload: None,
            lifecycles: None,
        }
    }
    fn id_json(c: &Option<IdCrit>) -> Value {
        match c {
            None => Value::Null,
            Some(IdCrit::Lit(s)) => json!({ "lit": s }),
            Some(IdCrit::Re(s)) => json!({ "re": s }),
        }
    }
    fn id_from(v: &Value) -> Option<IdCrit> {
        if let Some(s) = v["lit"].as_str() {
            Some(IdCrit::Lit(s.into()))
        } else {
            v["re"].as_str().map(|s| IdCrit::Re(s.into()))
        }
    }
    pub fn to_value(&self) -> Value {
        let mut o = Map::new();
        o.insert("kind".into(), json!(self.kind));
        o.insert("enabled".into(), json!(self.enabled));
        o.insert("negated".into(), json!(self.negated));
        for (k, c) in [("ecu", &self.ecu), ("apid", &self.apid), ("ctid", &self.ctid)] {
            if c.is_some() {
                o.insert(k.into(), Self::id_json(c));
            }
        }
        if let Some((v, m)) = self.mtype {
            o.insert("type_value_mask".into(), json!([v, m]));
        }
        if let Some(l) = self.lvl_min {
            o.insert("lvl_min".into(), json!(l));
        }
        if let Some(l) = self.lvl_max {
            o.insert("lvl_max".into(), json!(l));
        }
        match &self.payload {
            None => {}
            Some(PayCrit::Sub { s, ic }) => {
                o.insert("payload".into(), json!({"sub": s, "ic": ic}));
            }
            Some(PayCrit::Re { p, ic }) => {
                o.insert("payload".into(), json!({"re": p, "ic": ic}));
            }
        }
        if let Some(l) = &self.lifecycles {
            o.insert("lifecycles".into(), json!(l));
        }
        Value::Object(o)
    }
    pub fn from_value(v: &Value) -> AFilter {
        let mut f = AFilter::new(v["kind"].as_u64().unwrap_or(0) as u8);
        f.enabled = v["enabled"].as_bool().unwrap_or(true);
        f.negated = v["negated"].as_bool().unwrap_or(false);
        f.ecu = Self::id_from(&v["ecu"]);
        f.apid = Self::id_from(&v["apid"]);
        f.ctid = Self::id_from(&v["ctid"]);
        if let Some(a) = v["type_value_mask"].as_array() {
            f.mtype = Some((a[0].as_u64().unwrap() as u8, a[1].as_u64().unwrap() as u8));
        }
        f.lvl_min = v["lvl_min"].as_u64().map(|x| x as u8);
        f.lvl_max = v["lvl_max"].as_u64().map(|x| x as u8);
        let p = &v["payload"];
        let ic = p["ic"].as_bool().unwrap_or(false);
        if let Some(s) = p["sub"].as_str() {
            f.payload = Some(PayCrit::Sub { s: s.into(), ic });
        } else if let Some(s) = p["re"].as_str() {
            f.payload = Some(PayCrit::Re { p: s.into(), ic });
        }
        f.lifecycles = v["lifecycles"]
            .as_array()
            .map(|a| a.iter().map(|x| x.as_u64().unwrap() as u32).collect());
        f
    }
    /// names (with variant class) of the criteria present, in canonical order
    pub fn crit_names(&self) -> Vec<String> {
        fn idn(k: &str, c: &IdCrit) -> String {
            match c {
                IdCrit::Re(_) => format!("{k}_re"),
                IdCrit::Lit(s) => {
                    if s.bytes().any(|b| !(0x20..=0x7e).contains(&b)) {
                        format!("{k}_lit_nonprintable")
                    } else if s.len() < 4 {
                        format!("{k}_lit_short")
                    } else if s.len() > 4 {
                        format!("{k}_lit_long")
                    } else {
                        format!("{k}_lit")
                    }
                }
            }
        }
        let mut v = vec![];
        if let Some(c) = &self.ecu {
            v.push(idn("ecu", c));
        }
        if let Some(c) = &self.apid {
            v.push(idn("apid", c));
        }
        if let Some(c) = &self.ctid {
            v.push(idn("ctid", c));
        }
        if self.mtype.is_some() {
            v.push("type".into());
        }
        if self.lvl_min.is_some() {
            v.push("lvl_min".into());
        }
        if self.lvl_max.is_some() {
            v.push("lvl_max".into());
        }
        match &self.payload {
            None => {}
            Some(PayCrit::Sub { ic, .. }) => v.push(if *ic { "payload_sub_ic" } else { "payload_sub_cs" }.into()),
            Some(PayCrit::Re { ic, .. }) => v.push(if *ic { "payload_re_ic" } else { "payload_re_cs" }.into()),
        }
        if let Some(l) = &self.lifecycles {
            v.push(if l.is_empty() { "lifecycles_empty" } else { "lifecycles" }.into());
        }
        v
    }
    /// bitmask of criteria present (bit order = CRITS)
    pub fn present(&self) -> u32 {
        let mut m = 0;
        for (i, p) in [
            self.ecu.is_some(),
            self.apid.is_some(),
            self.ctid.is_some(),
            self.mtype.is_some(),
            self.lvl_min.is_some(),
            self.lvl_max.is_some(),
            self.payload.is_some(),
            self.lifecycles.is_some(),
        ]
        .iter()
        .enumerate()
        {
            if *p {
                m |= 1 << i;
            }
        }
        m
    }
    /// copy that keeps only the criteria in `mask`
    pub fn restrict(&self, mask: u32) -> AFilter {
        let mut f = self.clone();
        if mask & 1 == 0 {
            f.ecu = None;
        }
        if mask & 2 == 0 {
            f.apid = None;
        }
        if mask & 4 == 0 {
            f.ctid = None;
        }
        if mask & 8 == 0 {
            f.mtype = None;
        }
        if mask & 16 == 0 {
            f.lvl_min = None;
        }
        if mask & 32 == 0 {
            f.lvl_max = None;
        }
        if mask & 64 == 0 {
            f.payload = None;
        }
        if mask & 128 == 0 {
            f.lifecycles = None;
        }
        f
    }
}
pub const NCRIT: usize = 8;
pub const CRIT_NAMES: [&str; NCRIT] = ["ecu", "apid", "ctid", "type", "lvl_min", "lvl_max", "payload", "lifecycles"];

// ------------------------------------------------------------------------------------------------ universe
#[derive(Clone, Debug)]
pub struct UMsg {
    pub ecu: [u8; 4],
    /// (verb_mstp_mtin, apid, ctid)
    pub ext: Option<(u8, [u8; 4], [u8; 4])>,
    pub lc: u32,
    pub text: String,
    /// true: the text is carried as a real verbose string argument (payload_text = None); false: payload_text is set
    pub real_payload: bool,
}
impl UMsg {
    pub fn to_value(&self) -> Value {
        let t4 = |b: &[u8; 4]| String::from_utf8_lossy(b).into_owned(); // padding NULs stay visible as \u0000
        json!({"ecu": t4(&self.ecu), "ext": self.ext.map(|(t, a, c)| json!({"verb_mstp_mtin": t, "apid": t4(&a), "ctid": t4(&c)})),
            "lifecycle": self.lc, "text": self.text, "real_verbose_payload": self.real_payload})
    }
    pub fn to_dlt(&self, index: u32) -> DltMessage {
        let payload = if self.real_payload && self.text.is_empty() {
            // a verbose message without arguments: no payload bytes, no decoded text attached; its text is the empty string
            vec![]
        } else if self.real_payload {
            // one verbose UTF-8 string argument, little endian: type info, 16 bit length incl. terminator, bytes, NUL
            let mut p = vec![0x00, 0x82, 0x00, 0x00];
            p.extend_from_slice(&((self.text.len() + 1) as u16).to_le_bytes());
            p.extend_from_slice(self.text.as_bytes());
            p.push(0);
            p
        } else {
            vec![index as u8, (index >> 8) as u8]
        };
        let noar = if self.real_payload && !self.text.is_empty() { 1 } else { 0 };
        let mut m = mk_msg(
            index,
            &self.ecu,
            1_600_000_000_000_000 + index as u64 * 1000,
            index * 10,
            true,
            self.ext.map(|(t, a, c)| (t, noar, a, c)),
            payload,
        );
        if !self.real_payload {
            m.payload_text = Some(self.text.clone());
        }
        m.lifecycle = self.lc;
        m
    }
}
fn id4(s: &str) -> [u8; 4] {
    let mut b = [0u8; 4];
    for (i, c) in s.bytes().take(4).enumerate() {
        b[i] = c;
    }
    b
}
pub const U_ECUS: [&str; 3] = ["ECU1", "ECU2", "EC"];
pub const U_APIDS: [&str; 3] = ["APP1", "APP2", "AP"];
pub const U_CTIDS: [&str; 3] = ["CTX1", "CTX2", "CT"];
/// verbose log info, non-verbose log info, verbose log error, verbose log verbose, control request, verbose app-trace
pub const U_TYPES: [u8; 6] = [0x41, 0x40, 0x21, 0x61, 0x16, 0x23];
pub const U_TEXTS: [&str; 3] = ["foo", "FOO", "bar baz"];

pub struct Universe {
    pub um: Vec<UMsg>,
    pub dm: Vec<DltMessage>,
    /// memo for the discriminator search: (clause, front-end, sub-filter) -> discriminator if the sub-filter shows the clause
    probe_memo: std::cell::RefCell<std::collections::BTreeMap<String, Option<String>>>,
}
impl Universe {
    /// core product (ECU x {no extended header | APID x CTID x type} x lifecycle x text), a sweep over all 256 type bytes,
    /// and a few extra messages (texts with regex / XML meta characters, ids with non-printable bytes, real verbose payloads)
    pub fn new() -> Universe {
        let mut um = vec![];
        for e in U_ECUS {
            let mut exts: Vec<Option<(u8, [u8; 4], [u8; 4])>> = vec![None];
            for a in U_APIDS {
                for c in U_CTIDS {
                    for t in U_TYPES {
                        exts.push(Some((t, id4(a), id4(c))));
                    }
                }
            }
            for x in exts {
                for lc in 0..3u32 {
                    for t in U_TEXTS {
                        um.push(UMsg { ecu: id4(e), ext: x, lc, text: t.into(), real_payload: false });
                    }
                }
            }
        }
        for t in 0..=255u8 {
            um.push(UMsg { ecu: id4("ECU1"), ext: Some((t, id4("APP1"), id4("CTX1"))), lc: 1, text: "foo".into(), real_payload: false });
        }
        let d = |ecu: &str, ext: bool, text: &str, real: bool| UMsg {
            ecu: id4(ecu),
            ext: if ext { Some((0x41, id4("APP1"), id4("CTX1"))) } else { None },
            lc: 1,
            text: text.into(),
            real_payload: real,
        };
        for t in ["a.c", "abc", "Foo", "", "a<b&c", "xfoox", "A.C", "xbaz", "foo x"] {
            um.push(d("ECU1", true, t, false));
        }
        um.push(d("ECU1", false, "a.c", false));
        um.push(d("E\u{1}U", true, "foo", false));
        um.push(d("E-U", true, "foo", false));
        um.push(d("E.U1", true, "foo", false));
        um.push(d("E(U1", true, "foo", false));
        um.push(d("ECU1", true, "foo", true));
        // verbose message without arguments (empty payload, empty text)
        um.push(d("ECU1", true, "", true));
        um.push(d("ECU2", true, "FOO bar baz", true));
        let dm = um.iter().enumerate().map(|(i, m)| m.to_dlt(i as u32)).collect();
        Universe { um, dm, probe_memo: Default::default() }
    }
}

// ------------------------------------------------------------------------------------------------ spec evaluator
#[derive(Clone, Copy, PartialEq, Eq, Debug)]
pub enum Tri {
    T,
    F,
    /// the property statement (and the documented behaviour) do not define the result
    U,
}
enum SpecId {
    Lit([u8; 4]),
    Re(regex::Regex),
}
enum SpecPay {
    Sub(String),
    SubIc(String),
    Re(regex::Regex),
}
/// Independent evaluator written from the statement of C11:
/// * disabled => never matches (also when negated: unit tests `disabled_dont_match_even_negated`);
/// * otherwise the conjunction of the specified criteria, inverted when negated;
/// * APID / CTID / type / level criteria are false for a message without extended header;
/// * literal id = the first 4 bytes of the text, zero padded (doc comment of `Filter::from_json`: 'ECU' matches 'ECU\0';
///   unit tests pin the truncation of over-long literals);
/// * regex id = unanchored search in the id (doc comment: "'ECU' matches all ecus containing 'ECU'"); the statement does
///   not say whether the padding NULs of a short message id belong to the searched text: if that changes the result the
///   criterion is Undefined;
/// * type: (message type & mask) == value;
/// * level bounds: the message is a log message (MSTP 0; only log messages have a log level — dlt-viewer semantics, unit
///   test `match_loglevel`) and min <= MTIN <= max;
/// * payload: substring / regex search in the message's text, case folded when ignore-case is set;
/// * lifecycles: membership; an empty list is "not specified" (unit test `match_lifecycle`).
pub struct SpecFilter {
    enabled: bool,
    negated: bool,
    ecu: Option<SpecId>,
    apid: Option<SpecId>,
    ctid: Option<SpecId>,
    mtype: Option<(u8, u8)>,
    lvl_min: Option<u8>,
    lvl_max: Option<u8>,
    payload: Option<SpecPay>,
    lifecycles: Option<Vec<u32>>,
}
fn and3(a: Tri, b: Tri) -> Tri {
    match (a, b) {
        (Tri::F, _) | (_, Tri::F) => Tri::F,
        (Tri::U, _) | (_, Tri::U) => Tri::U,
        _ => Tri::T,
    }
}
fn tb(b: bool) -> Tri {
    if b {
        Tri::T
    } else {
        Tri::F
    }
}
impl SpecId {
    fn new(c: &IdCrit) -> SpecId {
        match c {
            IdCrit::Lit(s) => SpecId::Lit(id4(s)),
            IdCrit::Re(p) => SpecId::Re(regex::Regex::new(p).expect("harness: invalid id regex")),
        }
    }
    fn holds(&self, id: &[u8; 4]) -> Tri {
        match self {
            SpecId::Lit(l) => tb(l == id),
            SpecId::Re(r) => {
                let raw = std::str::from_utf8(id).expect("harness: ascii ids only");
                let trimmed = raw.trim_end_matches('\0');
                let a = r.is_match(raw);
                let b = r.is_match(trimmed);
                if a == b {
                    tb(a)
                } else {
                    Tri::U
                }
            }
        }
    }
}
impl SpecFilter {
    pub fn new(f: &AFilter) -> SpecFilter {
        SpecFilter {
            enabled: f.enabled,
            negated: f.negated,
            ecu: f.ecu.as_ref().map(SpecId::new),
            apid: f.apid.as_ref().map(SpecId::new),
            ctid: f.ctid.as_ref().map(SpecId::new),
            mtype: f.mtype,
            lvl_min: f.lvl_min,
            lvl_max: f.lvl_max,
            payload: f.payload.as_ref().map(|p| match p {
                PayCrit::Sub { s, ic: false } => SpecPay::Sub(s.clone()),
                PayCrit::Sub { s, ic: true } => SpecPay::SubIc(s.to_ascii_lowercase()),
                PayCrit::Re { p, ic } => SpecPay::Re(
                    regex::RegexBuilder::new(p)
                        .case_insensitive(*ic)
                        .build()
                        .expect("harness: invalid payload regex"),
                ),
            }),
            lifecycles: f.lifecycles.clone(),
        }
    }
    pub fn eval(&self, m: &UMsg) -> Tri {
        if !self.enabled {
            return Tri::F;
        }
        let mut r = Tri::T;
        if let Some(c) = &self.ecu {
            r = and3(r, c.holds(&m.ecu));
        }
        if let Some(c) = &self.apid {
            r = and3(r, m.ext.map_or(Tri::F, |(_, a, _)| c.holds(&a)));
        }
        if let Some(c) = &self.ctid {
            r = and3(r, m.ext.map_or(Tri::F, |(_, _, x)| c.holds(&x)));
        }
        if let Some((v, mask)) = self.mtype {
            r = and3(r, m.ext.map_or(Tri::F, |(t, _, _)| tb(t & mask == v)));
        }
        if let Some(l) = self.lvl_min {
            r = and3(r, m.ext.map_or(Tri::F, |(t, _, _)| tb((t >> 1) & 7 == 0 && (t >> 4) >= l)));
        }
        if let Some(l) = self.lvl_max {
            r = and3(r, m.ext.map_or(Tri::F, |(t, _, _)| tb((t >> 1) & 7 == 0 && (t >> 4) <= l)));
        }
        if let Some(p) = &self.payload {
            r = and3(
                r,
                tb(match p {
                    SpecPay::Sub(s) => m.text.contains(s.as_str()),
                    SpecPay::SubIc(s) => m.text.to_ascii_lowercase().contains(s.as_str()),
                    SpecPay::Re(re) => re.is_match(&m.text),
                }),
            );
        }
        if let Some(l) = &self.lifecycles {
            if !l.is_empty() {
                r = and3(r, tb(l.contains(&m.lc)));
            }
        }
        match (r, self.negated) {
            (Tri::U, _) => Tri::U,
            (Tri::T, false) | (Tri::F, true) => Tri::T,
            _ => Tri::F,
        }
    }
}

// ------------------------------------------------------------------------------------------------ front-ends
#[derive(Clone, Copy, PartialEq, Eq, Debug, PartialOrd, Ord)]
pub enum Fe {
    Json,
    JsonAuto,
    Dlf,
    DlfCompact,
    Convert,
    Direct,
}
pub const FES: [Fe; 6] = [Fe::Json, Fe::JsonAuto, Fe::Dlf, Fe::DlfCompact, Fe::Convert, Fe::Direct];
impl Fe {
    pub fn name(&self) -> &'static str {
        match self {
            Fe::Json => "json",
            Fe::JsonAuto => "json_auto",
            Fe::Dlf => "dlf",
            Fe::DlfCompact => "dlf_compact",
            Fe::Convert => "convert",
            Fe::Direct => "direct",
        }
    }
    fn family(&self) -> &'static str {
        match self {
            Fe::Json | Fe::JsonAuto => "json",
            Fe::Dlf | Fe::DlfCompact => "dlf",
            Fe::Convert => "convert",
            Fe::Direct => "direct",
        }
    }
}
/// the regex auto-detection rule as documented in the doc comment of `Filter::from_json`
fn doc_autodetect_regex(s: &str) -> bool {
    s.chars().any(|c| "^$*+?()[]{}|.-\\=!<,".contains(c))
}
/// how JSON can express a (value, mask) type criterion (doc comment of `Filter::verb_mstp_mtin` and of `from_json`)
fn json_type(v: u8, mask: u8) -> Option<(&'static str, u8)> {
    if mask == 0xff && (v >> 4) != 0 {
        Some(("verb_mstp_mtin", v))
    } else if mask == 0x0f && (v >> 4) == 0 {
        Some(("verb_mstp_mtin", v))
    } else if mask == 0x0e && v & !0x0e == 0 {
        Some(("mstp", v >> 1))
    } else {
        None
    }
}
pub fn to_json_text(f: &AFilter, auto: bool) -> Option<String> {
    let mut o = Map::new();
    o.insert("type".into(), json!(f.kind));
    if !auto || !f.enabled {
        o.insert("enabled".into(), json!(f.enabled));
    }
    if !auto || f.negated {
        o.insert("not".into(), json!(f.negated));
    }
    for (k, c) in [("ecu", &f.ecu), ("apid", &f.apid), ("ctid", &f.ctid)] {
        if let Some(c) = c {
            let (s, is_re) = match c {
                IdCrit::Lit(s) => (s, false),
                IdCrit::Re(s) => (s, true),
            };
            if !s.is_ascii() {
                return None;
            }
            o.insert(k.into(), json!(s));
            if auto {
                if doc_autodetect_regex(s) != is_re {
                    return None;
                }
            } else {
                o.insert(format!("{k}IsRegex"), json!(is_re));
            }
        }
    }
    if let Some((v, m)) = f.mtype {
        let (k, x) = json_type(v, m)?;
        o.insert(k.into(), json!(x));
    }
    if let Some(l) = f.lvl_min {
        o.insert("logLevelMin".into(), json!(l));
    }
    if let Some(l) = f.lvl_max {
        o.insert("logLevelMax".into(), json!(l));
    }
    match &f.payload {
        None => {}
        Some(PayCrit::Sub { s, ic }) => {
            o.insert("payload".into(), json!(s));
            if !auto || *ic {
                o.insert("ignoreCasePayload".into(), json!(ic));
            }
        }
        Some(PayCrit::Re { p, ic }) => {
            o.insert("payloadRegex".into(), json!(p));
            if !auto || *ic {
                o.insert("ignoreCasePayload".into(), json!(ic));
            }
        }
    }
    if let Some(l) = &f.lifecycles {
        o.insert("lifecycles".into(), json!(l));
    }
    Some(Value::Object(o).to_string())
}
fn xml_escape(s: &str) -> String {
    let mut o = String::new();
    for c in s.chars() {
        match c {
            '&' => o.push_str("&amp;"),
            '<' => o.push_str("&lt;"),
            '>' => o.push_str("&gt;"),
            '"' => o.push_str("&quot;"),
            '\'' => o.push_str("&apos;"),
            c => o.push(c),
        }
    }
    o
}
/// DLF text for one filter. viewer = true: the element set dlt-viewer writes, with decoy values for disabled criteria.
pub fn to_dlf_text(f: &AFilter, viewer: bool) -> Option<String> {
    Some(dlf_document(&[dlf_element(f, viewer)?], viewer))
}
pub fn dlf_document(elements: &[String], viewer: bool) -> String {
    let mut s = String::from("<?xml version=\"1.0\" encoding=\"UTF-8\"?>");
    s.push_str(if viewer { "\n<dltfilter>\n" } else { "<dltfilter>" });
    for e in elements {
        s.push_str(e);
    }
    s.push_str(if viewer { "</dltfilter>\n" } else { "</dltfilter>" });
    s
}
/// one <filter> element
pub fn dlf_element(f: &AFilter, viewer: bool) -> Option<String> {
    if f.negated || f.lifecycles.is_some() {
        return None;
    }
    // XML 1.0 cannot carry control characters
    let ctrl = |s: &str| s.bytes().any(|b| b < 0x20);
    for c in [&f.ecu, &f.apid, &f.ctid].into_iter().flatten() {
        match c {
            IdCrit::Lit(s) | IdCrit::Re(s) if ctrl(s) => return None,
            _ => {}
        }
    }
    if let Some((v, m)) = f.mtype {
        if (v, m) != (0x06, 0x0e) {
            return None;
        }
    }
    let mut el: Vec<(String, String)> = vec![];
    let mut put = |k: &str, v: String| el.push((k.to_string(), v));
    put("type", f.kind.to_string());
    if viewer {
        put("name", "n".into());
    }
    // ecu: literal only
    match &f.ecu {
        Some(IdCrit::Re(_)) => return None,
        Some(IdCrit::Lit(s)) => {
            if s.is_empty() || !s.is_ascii() {
                return None;
            }
            put("ecuid", xml_escape(s));
            put("enableecuid", "1".into());
        }
        None => {
            if viewer {
                put("ecuid", "ECU1".into());
                put("enableecuid", "0".into());
            }
        }
    }
    for (c, val, en, re) in [
        (&f.apid, "applicationid", "enableapplicationid", "enableregexp_Appid"),
        (&f.ctid, "contextid", "enablecontextid", "enableregexp_Context"),
    ] {
        match c {
            Some(c) => {
                let (s, is_re) = match c {
                    IdCrit::Lit(s) => (s, false),
                    IdCrit::Re(s) => (s, true),
                };
                if s.is_empty() || !s.is_ascii() {
                    return None;
                }
                put(val, xml_escape(s));
                put(en, "1".into());
                if viewer || doc_autodetect_regex(s) != is_re {
                    put(re, if is_re { "1" } else { "0" }.into());
                }
            }
            None => {
                if viewer {
                    put(val, "APP1".into());
                    put(en, "0".into());
                    put(re, "0".into());
                }
            }
        }
    }
    if viewer {
        put("headertext", "h".into());
        put("enableheadertext", "0".into());
        put("enableregexp_Header", "0".into());
        put("ignoreCase_Header", "0".into());
    }
    match &f.payload {
        Some(p) => {
            let (s, is_re, ic) = match p {
                PayCrit::Sub { s, ic } => (s, false, *ic),
                PayCrit::Re { p, ic } => (p, true, *ic),
            };
            if s.is_empty() {
                return None;
            }
            put("payloadtext", xml_escape(s));
            put("enablepayloadtext", "1".into());
            if viewer || is_re {
                put("enableregexp_Payload", if is_re { "1" } else { "0" }.into());
            }
            if viewer || ic {
                put("ignoreCase_Payload", if ic { "1" } else { "0" }.into());
            }
        }
        None => {
            if viewer {
                put("payloadtext", "foo".into());
                put("enablepayloadtext", "0".into());
                put("enableregexp_Payload", "0".into());
                put("ignoreCase_Payload", "1".into());
            }
        }
    }
    put("enablefilter", if f.enabled { "1" } else { "0" }.into());
    if f.mtype.is_some() {
        put("enablecontrolmsgs", "1".into());
    } else if viewer {
        put("enablecontrolmsgs", "0".into());
    }
    match f.lvl_max {
        Some(l) => {
            put("logLevelMax", l.to_string());
            put("enableLogLevelMax", "1".into());
        }
        None => {
            if viewer {
                put("logLevelMax", "2".into());
                put("enableLogLevelMax", "0".into());
            }
        }
    }
    match f.lvl_min {
        Some(l) => {
            put("logLevelMin", l.to_string());
            put("enableLogLevelMin", "1".into());
        }
        None => {
            if viewer {
                put("logLevelMin", "5".into());
                put("enableLogLevelMin", "0".into());
            }
        }
    }
    if viewer {
        put("enablemarker", "0".into());
        put("filterMarkerColor", "#000000".into());
    }
    let mut s = String::new();
    if viewer {
        s.push_str("    <filter>\n");
        for (k, v) in &el {
            s.push_str(&format!("        <{k}>{v}</{k}>\n"));
        }
        s.push_str("    </filter>\n");
    } else {
        s.push_str("<filter>");
        for (k, v) in &el {
            s.push_str(&format!("<{k}>{v}</{k}>"));
        }
        s.push_str("</filter>");
    }
    Some(s)
}
/// dlt-convert list "<apid> <ctid> " (ids '-' padded to 4), as documented at `filters_from_convert_format`
pub fn to_convert_text(f: &AFilter) -> Option<String> {
    if f.kind != 0 || !f.enabled || f.negated || f.present() != 0b110 {
        return None;
    }
    let mut out = String::new();
    for c in [&f.apid, &f.ctid] {
        match c {
            Some(IdCrit::Lit(s)) if !s.is_empty() && s.len() <= 4 && s.is_ascii() && !s.contains('-') => {
                out.push_str(&format!("{:-<4} ", s));
            }
            _ => return None,
        }
    }
    Some(out)
}
fn kind_of(k: u8) -> FilterKind {
    match k {
        0 => FilterKind::Positive,
        1 => FilterKind::Negative,
        2 => FilterKind::Marker,
        _ => FilterKind::Event,
    }
}
/// public fields of `Filter` (what the `--eac` front-end of the binary and library users do)
fn to_direct(f: &AFilter) -> Result<Option<Filter>, String> {
    if f.negated {
        return Ok(None); // negate_match is private
    }
    let mut r = Filter::new(kind_of(f.kind));
    r.enabled = f.enabled;
    let id = |c: &Option<IdCrit>| -> Result<Option<Char4OrRegex>, String> {
        match c {
            None => Ok(None),
            Some(IdCrit::Lit(s)) => Char4OrRegex::from_str(s, false).map(Some).map_err(|e| format!("{e:?}")),
            Some(IdCrit::Re(s)) => Char4OrRegex::from_str(s, true).map(Some).map_err(|e| format!("{e:?}")),
        }
    };
    r.ecu = id(&f.ecu)?;
    r.apid = id(&f.apid)?;
    r.ctid = id(&f.ctid)?;
    r.verb_mstp_mtin = f.mtype;
    r.loglevel_min = f.lvl_min;
    r.loglevel_max = f.lvl_max;
    match &f.payload {
        None => {}
        Some(PayCrit::Sub { s, ic: false }) => r.payload = Some(s.clone()),
        Some(PayCrit::Sub { ic: true, .. }) => return Ok(None), // needs the private cached regex
        Some(PayCrit::Re { p, ic }) => {
            let p = if *ic { format!("(?i){p}") } else { p.clone() };
            r.payload_regex = Some(fancy_regex::Regex::new(&p).map_err(|e| format!("{e:?}"))?);
            r.ignore_case_payload = *ic;
        }
    }
    r.lifecycles = f.lifecycles.clone();
    Ok(Some(r))
}

/// Ok(None): the front-end cannot express this abstract filter. Err: it should, but construction failed.
pub fn build(fe: Fe, f: &AFilter) -> Result<Option<(Filter, String)>, String> {
    match fe {
        Fe::Json | Fe::JsonAuto => {
            let Some(t) = to_json_text(f, fe == Fe::JsonAuto) else { return Ok(None) };
            match Filter::from_json(&t) {
                Ok(x) => Ok(Some((x, t))),
                Err(e) => Err(format!("from_json({t}) failed: {e:?}")),
            }
        }
        Fe::Dlf | Fe::DlfCompact => {
            let Some(t) = to_dlf_text(f, fe == Fe::Dlf) else { return Ok(None) };
            match filters_from_dlf(t.as_bytes()) {
                Ok(mut v) if v.len() == 1 => Ok(Some((v.pop().unwrap(), t))),
                Ok(v) => Err(format!("filters_from_dlf returned {} filters for one <filter>: {t}", v.len())),
                Err(e) => Err(format!("filters_from_dlf failed: {e:?} on {t}")),
            }
        }
        Fe::Convert => {
            let Some(t) = to_convert_text(f) else { return Ok(None) };
            match filters_from_convert_format(t.as_bytes()) {
                Ok(mut v) if v.len() == 1 => Ok(Some((v.pop().unwrap(), t))),
                Ok(v) => Err(format!("filters_from_convert_format returned {} filters for '{t}'", v.len())),
                Err(e) => Err(format!("filters_from_convert_format failed: {e:?}")),
            }
        }
        Fe::Direct => Ok(to_direct(f)?.map(|x| (x, "Filter::new + public fields".to_string()))),
    }
}

// ------------------------------------------------------------------------------------------------ checking one filter
#[derive(Default)]
pub struct FeResult {
    pub built: bool,
    pub source: String,
    pub construct_err: Option<String>,
    pub panic: Option<Panicked>,
    pub got: Vec<bool>,
    /// first universe index where the spec is defined and the filter decides differently
    pub mismatch: Option<usize>,
    pub roundtrip_json: Option<String>,
    pub roundtrip_parse_err: Option<String>,
    /// first universe index where from_json(to_json(f)) decides differently from f (got there)
    pub roundtrip_diff: Option<usize>,
    pub kind_wrong: bool,
}
fn eval_all(f: &Filter, uni: &Universe) -> Result<Vec<bool>, Panicked> {
    catch(|| uni.dm.iter().map(|m| f.matches(m)).collect())
}
pub fn check_fe(uni: &Universe, af: &AFilter, exp: &[Tri], fe: Fe) -> FeResult {
    let mut r = FeResult::default();
    let b = catch(|| build(fe, af));
    let filter = match b {
        Err(p) => {
            r.panic = Some(p);
            return r;
        }
        Ok(Err(e)) => {
            r.construct_err = Some(e);
            return r;
        }
        Ok(Ok(None)) => return r,
        Ok(Ok(Some((f, src)))) => {
            r.built = true;
            r.source = src;
            f
        }
    };
    r.kind_wrong = filter.kind != kind_of(af.kind);
    match eval_all(&filter, uni) {
        Err(p) => {
            r.panic = Some(p);
            return r;
        }
        Ok(g) => r.got = g,
    }
    r.mismatch = (0..exp.len()).find(|i| match exp[*i] {
        Tri::U => false,
        Tri::T => !r.got[*i],
        Tri::F => r.got[*i],
    });
    if r.mismatch.is_none() {
        // round trip (not judged for a filter that already decides wrongly: that defect is reported above)
        match catch(|| {
            let s = filter.to_json();
            let g = Filter::from_json(&s);
            (s, g)
        }) {
            Err(p) => r.panic = Some(p),
            Ok((s, Err(e))) => {
                r.roundtrip_json = Some(s);
                r.roundtrip_parse_err = Some(format!("{e:?}"));
            }
            Ok((s, Ok(g))) => {
                r.roundtrip_json = Some(s);
                match eval_all(&g, uni) {
                    Err(p) => r.panic = Some(p),
                    Ok(gg) => {
                        r.roundtrip_diff = (0..gg.len()).find(|i| gg[*i] != r.got[*i]);
                        if g.kind != filter.kind {
                            r.kind_wrong = true;
                        }
                    }
                }
            }
        }
    }
    r
}

#[derive(Clone, Copy, PartialEq, Eq)]
#[repr(u8)]
enum Clause {
    Mismatch,
    Roundtrip,
    Construct,
}
fn shows(r: &FeResult, c: Clause) -> bool {
    match c {
        Clause::Mismatch => r.mismatch.is_some(),
        Clause::Roundtrip => r.roundtrip_diff.is_some() || r.roundtrip_parse_err.is_some(),
        Clause::Construct => r.construct_err.is_some(),
    }
}
fn spec_vec(uni: &Universe, af: &AFilter) -> Vec<Tri> {
    let s = SpecFilter::new(af);
    uni.um.iter().map(|m| s.eval(m)).collect()
}
/// which front-end families show `clause` on this filter: "any" when every front-end that can express it does (>= 2),
/// else the failing families joined by '+'
fn failing_label(uni: &Universe, af: &AFilter, clause: Clause) -> String {
    let exp = spec_vec(uni, af);
    let mut built = 0;
    let mut failing: Vec<&'static str> = vec![];
    let mut fam_fail: BTreeSet<&'static str> = BTreeSet::new();
    for fe in FES {
        let r = check_fe(uni, af, &exp, fe);
        if r.built || r.construct_err.is_some() {
            built += 1;
            if shows(&r, clause) {
                failing.push(fe.name());
                fam_fail.insert(fe.family());
            }
        }
    }
    if built >= 2 && failing.len() == built {
        return "any".into();
    }
    // the second member of a family is named only if the first one is fine
    let mut names: Vec<&str> = vec![];
    for fam in &fam_fail {
        let members: Vec<&&str> = failing.iter().filter(|n| n.starts_with(fam)).collect();
        if members.len() == 1 && **members[0] != **fam {
            names.push(members[0]);
        } else {
            names.push(fam);
        }
    }
    names.join("+")
}
/// discriminator: the smallest sub-filter (<= 2 criteria, flags cleared if possible) that still shows the same clause
/// through the same front-end, prefixed by the front-end families that show it on that sub-filter
fn minimal_disc(uni: &Universe, af: &AFilter, fe: Fe, clause: Clause) -> String {
    let present: Vec<u32> = (0..NCRIT as u32).filter(|i| af.present() & (1 << i) != 0).collect();
    let mut cands: Vec<u32> = vec![];
    if present.is_empty() {
        cands.push(0);
    }
    for i in &present {
        cands.push(1 << i);
    }
    for (a, i) in present.iter().enumerate() {
        for j in &present[a + 1..] {
            cands.push((1 << i) | (1 << j));
        }
    }
    let flagsets: Vec<(bool, bool)> = if af.enabled && !af.negated {
        vec![(true, false)]
    } else {
        vec![(true, false), (af.enabled, af.negated)]
    };
    for c in cands {
        for (en, neg) in &flagsets {
            let mut sub = af.restrict(c);
            sub.enabled = *en;
            sub.negated = *neg;
            let key = format!("{}|{}|{}", clause as u8, fe.name(), sub.to_value());
            let memo = uni.probe_memo.borrow().get(&key).cloned();
            let res = match memo {
                Some(r) => r,
                None => {
                    let exp = spec_vec(uni, &sub);
                    let r = check_fe(uni, &sub, &exp, fe);
                    let res = if shows(&r, clause) {
                        let mut names = sub.crit_names();
                        if names.is_empty() {
                            names.push("no_criteria".into());
                        }
                        let mut d = format!("{}:{}", failing_label(uni, &sub, clause), names.join("+"));
                        if *neg {
                            d.push_str("+negated");
                        }
                        if !*en {
                            d.push_str("+disabled");
                        }
                        Some(d)
                    } else {
                        None
                    };
                    uni.probe_memo.borrow_mut().insert(key, res.clone());
                    res
                }
            };
            if let Some(d) = res {
                return d;
            }
        }
    }
    let mut d = format!("{}:combination:{}", failing_label(uni, af, clause), af.crit_names().join("+"));
    if af.negated {
        d.push_str("+negated");
    }
    if !af.enabled {
        d.push_str("+disabled");
    }
    d
}

pub fn run_case(ctx: &mut Ctx, uni: &Universe, family: &str, af: &AFilter) {
    let exp = spec_vec(uni, af);
    let results: Vec<(Fe, FeResult)> = FES.iter().map(|fe| (*fe, check_fe(uni, af, &exp, *fe))).collect();
    let nbuilt = results.iter().filter(|(_, r)| r.built).count();
    let case = |fe: Fe, r: &FeResult, idx: Option<usize>| {
        let mut c = json!({"family": family, "filter": af.to_value(), "frontend": fe.name(), "frontend_input": r.source});
        if let Some(i) = idx {
            c["message"] = uni.um[i].to_value();
            c["message_no"] = json!(i);
            c["spec_says"] = json!(format!("{:?}", exp[i]));
            c["filter_says"] = json!(r.got.get(i));
        }
        if let Some(s) = &r.roundtrip_json {
            c["to_json"] = json!(s);
        }
        c
    };
    let mut reported: BTreeSet<String> = BTreeSet::new();
    for (fe, r) in &results {
        if let Some(p) = &r.panic {
            ctx.violation("panic", &p.loc, || case(*fe, r, None), format!("{} front-end: {}", fe.name(), p.msg));
            continue;
        }
        if let Some(e) = &r.construct_err {
            let overlong = [&af.ecu, &af.apid, &af.ctid]
                .iter()
                .any(|c| matches!(c, Some(IdCrit::Lit(s)) if s.len() > 4));
            if overlong {
                ctx.landmark("overlong_literal_rejected(not_judged)");
            } else {
                let d = minimal_disc(uni, af, *fe, Clause::Construct);
                if reported.insert(format!("construct|{d}")) {
                    ctx.violation("construct", &d, || case(*fe, r, None), e.clone());
                }
            }
            continue;
        }
        if !r.built {
            continue;
        }
        ctx.landmark(match fe {
            Fe::Json => "judged_json",
            Fe::JsonAuto => "judged_json_auto",
            Fe::Dlf => "judged_dlf",
            Fe::DlfCompact => "judged_dlf_compact",
            Fe::Convert => "judged_convert",
            Fe::Direct => "judged_direct",
        });
        ctx.transitions(r.got.len() as u64);
        if r.kind_wrong {
            ctx.violation("kind", fe.family(), || case(*fe, r, None), format!("filter kind differs from {}", af.kind));
        }
        if let Some(i) = r.mismatch {
            let d = minimal_disc(uni, af, *fe, Clause::Mismatch);
            if reported.insert(format!("spec_mismatch|{d}")) {
                ctx.violation(
                    "spec_mismatch",
                    &d,
                    || case(*fe, r, Some(i)),
                    format!("{} front-end: filter says {} where the statement says {:?}", fe.name(), r.got[i], exp[i]),
                );
            }
            ctx.landmark("roundtrip_not_judged_after_mismatch");
            continue;
        }
        if r.roundtrip_json.is_some() {
            ctx.landmark("roundtrip_checked");
            ctx.transitions(r.got.len() as u64);
        }
        if let Some(e) = &r.roundtrip_parse_err {
            let d = minimal_disc(uni, af, *fe, Clause::Roundtrip);
            if reported.insert(format!("roundtrip|{d}")) {
                ctx.violation("roundtrip", &d, || case(*fe, r, None), format!("to_json output not accepted by from_json: {e}"));
            }
        } else if let Some(i) = r.roundtrip_diff {
            let d = minimal_disc(uni, af, *fe, Clause::Roundtrip);
            if reported.insert(format!("roundtrip|{d}")) {
                ctx.violation(
                    "roundtrip",
                    &d,
                    || case(*fe, r, Some(i)),
                    format!("{}-loaded filter says {}, from_json(to_json(f)) says {}", fe.name(), r.got[i], !r.got[i]),
                );
            }
        }
    }
    // where the statement is silent the front-ends must still agree with each other
    let undefined: Vec<usize> = (0..exp.len()).filter(|i| exp[*i] == Tri::U).collect();
    if !undefined.is_empty() {
        ctx.landmark("undefined_by_spec");
        let built: Vec<&(Fe, FeResult)> = results.iter().filter(|(_, r)| r.built && r.panic.is_none()).collect();
        if let Some((fe0, r0)) = built.first() {
            for (fe, r) in built.iter().skip(1) {
                if let Some(i) = undefined.iter().find(|i| r.got[**i] != r0.got[**i]) {
                    let d = format!("{}!={}:{}", fe0.family(), fe.family(), af.crit_names().join("+"));
                    ctx.violation(
                        "frontends_disagree",
                        &d,
                        || case(*fe, r, Some(*i)),
                        format!("{} says {}, {} says {} (statement undefined here)", fe0.name(), r0.got[*i], fe.name(), r.got[*i]),
                    );
                }
            }
        }
    }
    // landmarks / outcome
    let nt = exp.iter().filter(|t| **t == Tri::T).count();
    let nf = exp.iter().filter(|t| **t == Tri::F).count();
    if !af.enabled {
        ctx.landmark("disabled_filter");
    }
    if af.negated && nt > 0 {
        ctx.landmark("negated_filter_matches");
    }
    let needs_ext = af.present() & 0b0011_1110 != 0;
    if needs_ext && af.enabled {
        // a message without extended header for which only the header-dependent criteria decide
        let hdr_free = af.restrict(af.present() & !0b0011_1110);
        let mut hf = hdr_free.clone();
        hf.negated = false;
        let s = SpecFilter::new(&hf);
        if uni.um.iter().any(|m| m.ext.is_none() && s.eval(m) == Tri::T) {
            ctx.landmark(if af.negated { "no_ext_header_decides_negated" } else { "no_ext_header_decides" });
        }
    }
    for c in [&af.ecu, &af.apid, &af.ctid].into_iter().flatten() {
        match c {
            IdCrit::Re(_) => ctx.landmark("id_regex"),
            IdCrit::Lit(s) if s.len() < 4 => ctx.landmark("id_literal_short"),
            IdCrit::Lit(s) if s.len() > 4 => ctx.landmark("id_literal_overlong"),
            _ => {}
        }
    }
    if let Some((_, m)) = af.mtype {
        ctx.landmark(match m {
            0xff => "type_mask_ff",
            0x0f => "type_mask_0f",
            0x0e => "type_mask_0e",
            _ => "type_mask_other",
        });
    }
    match &af.payload {
        Some(PayCrit::Sub { ic, .. }) | Some(PayCrit::Re { ic, .. }) if *ic => {
            // does ignoring case change the selection?
            let mut cs = af.clone();
            cs.payload = match &af.payload {
                Some(PayCrit::Sub { s, .. }) => Some(PayCrit::Sub { s: s.clone(), ic: false }),
                Some(PayCrit::Re { p, .. }) => Some(PayCrit::Re { p: p.clone(), ic: false }),
                None => None,
            };
            if spec_vec(uni, &cs) != exp {
                ctx.landmark("ignore_case_changes_selection");
            }
        }
        Some(_) => {
            let mut icf = af.clone();
            icf.payload = match &af.payload {
                Some(PayCrit::Sub { s, .. }) => Some(PayCrit::Sub { s: s.clone(), ic: true }),
                Some(PayCrit::Re { p, .. }) => Some(PayCrit::Re { p: p.clone(), ic: true }),
                None => None,
            };
            if spec_vec(uni, &icf) != exp {
                ctx.landmark("case_sensitivity_changes_selection");
            }
        }
        None => {}
    }
    if matches!(&af.lifecycles, Some(l) if !l.is_empty()) {
        ctx.landmark("lifecycle_membership");
    }
    {
        let mut h: u64 = 0xcbf29ce484222325;
        for t in &exp {
            h ^= *t as u64 + 1;
            h = h.wrapping_mul(0x100000001b3);
        }
        ctx.outcome(h);
    }
    ctx.eval(nt > 0 && nf > 0);
    ctx.sample(|| json!({"family": family, "filter": af.to_value(), "spec_true": nt, "spec_false": nf, "spec_undefined": undefined.len(), "frontends": nbuilt}));
}

/// files with several filters: every parsed filter must decide like the statement says for its entry
pub fn run_list_case(ctx: &mut Ctx, uni: &Universe, family: &str, fe: Fe, list: &[AFilter]) {
    let text = match fe {
        Fe::Dlf | Fe::DlfCompact => {
            let els: Option<Vec<String>> = list.iter().map(|f| dlf_element(f, fe == Fe::Dlf)).collect();
            dlf_document(&els.expect("harness: list entry not expressible"), fe == Fe::Dlf)
        }
        Fe::Convert => list.iter().map(|f| to_convert_text(f).expect("harness: list entry not expressible")).collect(),
        _ => panic!("harness: no list format"),
    };
    let case = || json!({"family": family, "frontend": fe.name(), "filters": list.iter().map(|f| f.to_value()).collect::<Vec<_>>(), "frontend_input": text});
    let parsed = catch(|| match fe {
        Fe::Convert => filters_from_convert_format(text.as_bytes()).map_err(|e| format!("{e:?}")),
        _ => filters_from_dlf(text.as_bytes()).map_err(|e| format!("{e:?}")),
    });
    ctx.landmark(if fe == Fe::Convert { "judged_convert_list" } else { "judged_dlf_list" });
    let mut nontrivial = false;
    match parsed {
        Err(p) => ctx.violation("panic", &p.loc, case, p.msg),
        Ok(Err(e)) => ctx.violation("list_parse", fe.family(), case, e),
        Ok(Ok(v)) if v.len() != list.len() => ctx.violation(
            "list_count",
            fe.family(),
            case,
            format!("{} filters parsed from a file with {}", v.len(), list.len()),
        ),
        Ok(Ok(v)) => {
            for (i, (f, af)) in v.iter().zip(list.iter()).enumerate() {
                let exp = spec_vec(uni, af);
                nontrivial |= exp.contains(&Tri::T) && exp.contains(&Tri::F);
                ctx.transitions(exp.len() as u64);
                match eval_all(f, uni) {
                    Err(p) => ctx.violation("panic", &p.loc, case, p.msg),
                    Ok(got) => {
                        if let Some(m) = (0..exp.len()).find(|m| exp[*m] != Tri::U && (exp[*m] == Tri::T) != got[*m]) {
                            // a defect that a single-filter file shows as well is reported (and keyed) by run_case
                            let alone = check_fe(uni, af, &exp, fe);
                            if alone.mismatch.is_none() {
                                ctx.violation(
                                    "list_entry",
                                    &format!("{}:{}", fe.family(), if i == 0 { "first_entry" } else { "later_entry" }),
                                    case,
                                    format!("entry {i} says {} for message {} where the statement says {:?}; the same filter alone in a file decides correctly", got[m], uni.um[m].to_value(), exp[m]),
                                );
                            } else {
                                ctx.landmark("list_entry_defect_already_shown_by_single_filter_file");
                            }
                        }
                    }
                }
            }
        }
    }
    ctx.outcome(fnv_str(&text));
    ctx.eval(nontrivial);
}

// ------------------------------------------------------------------------------------------------ variants
fn lit(s: &str) -> IdCrit {
    IdCrit::Lit(s.into())
}
fn re(s: &str) -> IdCrit {
    IdCrit::Re(s.into())
}
/// one criterion value = a function that sets it on an abstract filter
#[derive(Clone, Debug)]
pub enum Crit {
    Ecu(IdCrit),
    Apid(IdCrit),
    Ctid(IdCrit),
    Type(u8, u8),
    LvlMin(u8),
    LvlMax(u8),
    Pay(PayCrit),
    Lcs(Vec<u32>),
}
impl Crit {
    pub fn apply(&self, f: &mut AFilter) {
        match self {
            Crit::Ecu(c) => f.ecu = Some(c.clone()),
            Crit::Apid(c) => f.apid = Some(c.clone()),
            Crit::Ctid(c) => f.ctid = Some(c.clone()),
            Crit::Type(v, m) => f.mtype = Some((*v, *m)),
            Crit::LvlMin(l) => f.lvl_min = Some(*l),
            Crit::LvlMax(l) => f.lvl_max = Some(*l),
            Crit::Pay(p) => f.payload = Some(p.clone()),
            Crit::Lcs(l) => f.lifecycles = Some(l.clone()),
        }
    }
}
fn sub(s: &str, ic: bool) -> PayCrit {
    PayCrit::Sub { s: s.into(), ic }
}
fn pre(p: &str, ic: bool) -> PayCrit {
    PayCrit::Re { p: p.into(), ic }
}
fn type_variants(full: bool) -> Vec<Crit> {
    let mut v = vec![];
    let mk = |x: u8| Crit::Type(x, if x >> 4 == 0 { 0x0f } else { 0xff });
    if full {
        for x in 0..=255u8 {
            v.push(mk(x));
        }
    } else {
        for x in [0x00, 0x01, 0x02, 0x06, 0x0f, 0x10, 0x16, 0x21, 0x26, 0x40, 0x41, 0x61, 0xff] {
            v.push(mk(x));
        }
    }
    for m in 0..8u8 {
        v.push(Crit::Type(m << 1, 0x0e));
    }
    v
}
/// the per-criterion variant sets; index = criterion number (bit order of AFilter::present)
pub fn variants(level: u8) -> Vec<Vec<Crit>> {
    // level 0: reduced (triples), 1: quick pairs (reduced type set), 2: full
    let ids = |pfx: &str, a: &str, b: &str, short: &str| -> Vec<IdCrit> {
        // a = "ECU1", b = "ECU2", short = "EC", pfx = "ECU"
        let mut v = vec![lit(a), lit(short), re(&format!("^{pfx}[12]$")), re(&b[2..])];
        if level >= 1 {
            v.extend([
                lit(b),
                lit(pfx),
                lit(&format!("{a}2")),
                lit(&a.to_ascii_lowercase()),
                re(pfx),
                re(&format!("{a}|{short}")),
                re(&format!("^{short}$")),
                re(""),
                re(&format!("^.{}", &a[1..2])),
                // regular expressions whose only meta characters are the quantifiers / groups / classes / escapes that the
                // front-ends' autodetection has to recognise (each of them matches `a`)
                re(&format!("{pfx}?{}", &a[3..])),
                re(&format!("{pfx}+{}", &a[3..])),
                re(&format!("{}*{}", &a[..2], &a[2..])),
                re(&format!("({a})")),
                re(&format!("{}{{1}}{}", &a[..2], &a[2..])),
                re(&format!("{pfx}\\d")),
                // literal ids made of regex meta characters: as a regex the first would match `a`, the second is no regex
                lit(&format!("{}.{}", &a[..1], &a[2..])),
                lit(&format!("{}({}", &a[..1], &a[2..])),
            ]);
        }
        v
    };
    let mut ecu: Vec<Crit> = ids("ECU", "ECU1", "ECU2", "EC").into_iter().map(Crit::Ecu).collect();
    if level >= 1 {
        ecu.push(Crit::Ecu(lit("E\u{1}U")));
    }
    let apid = ids("APP", "APP1", "APP2", "AP").into_iter().map(Crit::Apid).collect();
    let ctid = ids("CTX", "CTX1", "CTX2", "CT").into_iter().map(Crit::Ctid).collect();
    let mtype = match level {
        0 => vec![Crit::Type(0x41, 0xff), Crit::Type(0x06, 0x0e), Crit::Type(0x00, 0x0f), Crit::Type(0x00, 0x0e)],
        1 => type_variants(false),
        _ => type_variants(true),
    };
    let lv: Vec<u8> = if level == 0 { vec![0, 2, 4, 6] } else { (0..=6).collect() };
    let lmin = lv.iter().map(|l| Crit::LvlMin(*l)).collect();
    let lmax = lv.iter().map(|l| Crit::LvlMax(*l)).collect();
    let mut pay = vec![sub("foo", false), sub("foo", true), pre("^fo+$", false), pre("^fo+$", true)];
    if level >= 1 {
        pay.extend([
            sub("FOO", false),
            sub("Foo", true),
            sub("bar baz", false),
            sub("o", false),
            sub("O", true),
            sub("r b", false),
            sub("a.c", false),
            sub("A.C", true),
            sub("<b&", false),
            // texts that begin / end with a blank (a front-end must not trim them)
            sub("foo ", false),
            sub(" baz", false),
            sub(" BAZ", true),
            pre("fo+|BAZ", false),
            pre("fo+|BAZ", true),
            pre("^bar\\sbaz$", false),
            pre("a.c", false),
            pre("^(?:FOO|bar).*$", false),
            pre("<B&C$", true),
            // regular expressions that carry their own inline flag (case-insensitivity not requested from outside)
            // expressions that hold on the empty text
            pre("^$", false),
            pre("^(?:fo+)?$", false),
            pre("(?i)^fo+$", false),
            pre("^bar|(?i)foo", false),
        ]);
    }
    let pay = pay.into_iter().map(Crit::Pay).collect();
    let mut lcs = vec![vec![], vec![1], vec![2, 1], vec![3]];
    if level >= 1 {
        lcs.extend([vec![0], vec![1, 1]]);
    }
    let lcs = lcs.into_iter().map(Crit::Lcs).collect();
    vec![ecu, apid, ctid, mtype, lmin, lmax, pay, lcs]
}
/// canonical value sets of the subsets family
fn canonical(set: usize) -> Vec<Crit> {
    match set {
        0 => vec![
            Crit::Ecu(lit("ECU1")),
            Crit::Apid(lit("APP1")),
            Crit::Ctid(lit("CTX1")),
            Crit::Type(0x41, 0xff),
            Crit::LvlMin(2),
            Crit::LvlMax(4),
            Crit::Pay(sub("foo", false)),
            Crit::Lcs(vec![1]),
        ],
        1 => vec![
            Crit::Ecu(re("ECU[12]")),
            Crit::Apid(re("^APP")),
            Crit::Ctid(re("X1$")),
            Crit::Type(0x01, 0x0f),
            Crit::LvlMin(0),
            Crit::LvlMax(6),
            Crit::Pay(pre("^fo+$", true)),
            Crit::Lcs(vec![2, 1]),
        ],
        _ => vec![
            Crit::Ecu(lit("EC")),
            Crit::Apid(lit("APP2")),
            Crit::Ctid(re("CT")),
            Crit::Type(0x06, 0x0e),
            Crit::LvlMin(4),
            Crit::LvlMax(2),
            Crit::Pay(sub("FOO", true)),
            Crit::Lcs(vec![]),
        ],
    }
}

// ------------------------------------------------------------------------------------------------ the property
pub struct C11;

impl Prop for C11 {
    fn meta(&self, _tier: Tier) -> Meta {
        Meta {
            id: "C11",
            level: "exploration",
            rule: "every abstract filter of the enumerated families (all 256 subsets of the 8 criteria x 3 canonical value sets x negated x enabled x kind; every variant of every criterion alone x negated x enabled, incl. all 256 verb_mstp_mtin values and the 8 mstp values; all pairs of variants of two different criteria x negated; all triples over reduced variant sets; thorough: triples over the larger sets and the full product 'criterion absent or one of 4 values' over all 8 criteria) is built through every library front-end that can express it (JSON explicit, JSON with documented defaults / regex auto-detection, DLF in dlt-viewer layout with decoy values for disabled criteria, DLF compact, dlt-convert list, public fields of Filter) and decides every message of the universe (3 ECUs x {no extended header | 3 APIDs x 3 CTIDs x 6 types} x 3 lifecycles x 3 texts, all 256 type bytes, extras with regex / XML meta characters, non-printable ids, real verbose payloads); files with several filters (2 DLF filters, 1..3 dlt-convert entries) are checked entry by entry. Oracle = independent three-valued evaluator of the statement (true / false / undefined); where it is defined every front-end must agree with it, where it is undefined the front-ends must agree with each other; from_json(to_json(f)) must decide like f on the whole universe. A case is non-trivial when the statement selects some but not all universe messages. Additionally the ECU:APID:CTID front-end is run through the binary built from the working tree (adlt convert --eac=.. on the universe written to a DLT file): 7 ECU x 6 APID x 4 CTID criteria as single expressions and all pairs of a 6-expression core as lists, judged by the same evaluator.".into(),
            assumptions: vec![
                "level bounds hold only for log messages (MSTP 0), an empty lifecycle list is 'not specified', over-long literal ids are truncated to 4 bytes: taken from the unit tests / doc comments where the statement is silent".into(),
                "regex ids on NUL-padded message ids are not judged against the statement when the padding changes the result (counted as undefined_by_spec); the front-ends must still agree with each other there".into(),
                "the --eac front-end (private to the binary) is covered by the CLI engine, not here; the 'direct' front-end sets the same public fields it sets".into(),
                "payload regexes are limited to the syntax shared by the regex and fancy_regex crates (no look-around)".into(),
            ],
            budget_s: (90, 1200),
            workers: 0,
            required_landmarks: vec!["eac_cli_case", 
                "judged_json",
                "judged_json_auto",
                "judged_dlf",
                "judged_dlf_compact",
                "judged_convert",
                "judged_direct",
                "roundtrip_checked",
                "undefined_by_spec",
                "disabled_filter",
                "negated_filter_matches",
                "no_ext_header_decides",
                "no_ext_header_decides_negated",
                "id_regex",
                "id_literal_short",
                "id_literal_overlong",
                "type_mask_ff",
                "type_mask_0f",
                "type_mask_0e",
                "ignore_case_changes_selection",
                "case_sensitivity_changes_selection",
                "lifecycle_membership",
                "real_verbose_payload_text_ok",
                "judged_dlf_list",
                "judged_convert_list",
            ],
        }
    }

    fn run(&self, ctx: &mut Ctx) {
        let uni = Universe::new();
        // harness self check: the real verbose payloads render as the intended text
        if uni
            .um
            .iter()
            .zip(uni.dm.iter())
            .filter(|(u, _)| u.real_payload)
            .all(|(u, d)| d.payload_as_text().map(|t| t == u.text.as_str()).unwrap_or(false))
        {
            ctx.landmark("real_verbose_payload_text_ok");
        }
        ctx.extra_set("universe_messages", json!(uni.um.len()));
        let mut n: u64 = 0;
        let mut tick = |ctx: &mut Ctx| -> bool {
            n += 1;
            !(n % 64 == 0 && ctx.out_of_time())
        };

        // (1) all subsets of the 8 criteria x canonical value sets x negated x enabled (kind rotates)
        for set in 0..3 {
            ctx.begin_family("subsets", &format!("256 subsets x negated x enabled, canonical value set {set}"));
            let canon = canonical(set);
            let mut done = true;
            'a: for mask in 0..256u32 {
                for flags in 0..4u32 {
                    if ctx.mine() {
                        let mut f = AFilter::new(((mask + flags) % 4) as u8);
                        f.negated = flags & 1 != 0;
                        f.enabled = flags & 2 == 0;
                        for (i, c) in canon.iter().enumerate() {
                            if mask & (1 << i) != 0 {
                                c.apply(&mut f);
                            }
                        }
                        run_case(ctx, &uni, "subsets", &f);
                        if !tick(ctx) {
                            done = false;
                            break 'a;
                        }
                    }
                }
            }
            ctx.end_family(done);
            if !done {
                return;
            }
        }

        // (2) every variant of every criterion alone x negated x enabled x kind
        {
            let vars = variants(2);
            let total: usize = vars.iter().map(|v| v.len()).sum();
            ctx.begin_family("single_criterion", &format!("{total} variants x negated x enabled"));
            let mut done = true;
            'b: for vs in &vars {
                for (vi, c) in vs.iter().enumerate() {
                    for flags in 0..4u32 {
                        if ctx.mine() {
                            let mut f = AFilter::new(((vi as u32 + flags) % 4) as u8);
                            f.negated = flags & 1 != 0;
                            f.enabled = flags & 2 == 0;
                            c.apply(&mut f);
                            run_case(ctx, &uni, "single_criterion", &f);
                            if !tick(ctx) {
                                done = false;
                                break 'b;
                            }
                        }
                    }
                }
            }
            ctx.end_family(done);
            if !done {
                return;
            }
        }

        // (3) pairs: every variant of criterion i x every variant of criterion j (i < j) x negated
        {
            let vars = variants(2);
            for i in 0..NCRIT {
                for j in i + 1..NCRIT {
                    ctx.begin_family(
                        "pairs",
                        &format!("criteria {}x{}: {}x{} variants x negated", CRIT_NAMES[i], CRIT_NAMES[j], vars[i].len(), vars[j].len()),
                    );
                    let mut done = true;
                    'c: for a in &vars[i] {
                        for b in &vars[j] {
                            for neg in [false, true] {
                                if ctx.mine() {
                                    let mut f = AFilter::new(if neg { 1 } else { 0 });
                                    f.negated = neg;
                                    a.apply(&mut f);
                                    b.apply(&mut f);
                                    run_case(ctx, &uni, "pairs", &f);
                                    if !tick(ctx) {
                                        done = false;
                                        break 'c;
                                    }
                                }
                            }
                        }
                    }
                    ctx.end_family(done);
                    if !done {
                        return;
                    }
                }
            }
        }

        // (4) files with several filters (DLF: 2 <filter> elements; dlt-convert list: 1..3 entries)
        {
            let mut dl: Vec<AFilter> = vec![];
            for (k, c) in [
                (0u8, Crit::Ecu(lit("ECU1"))),
                (1, Crit::Apid(re("^APP[12]$"))),
                (0, Crit::Apid(lit("AP"))),
                (3, Crit::Ctid(lit("CTX2"))),
                (0, Crit::Type(0x06, 0x0e)),
                (1, Crit::LvlMin(3)),
                (0, Crit::LvlMax(4)),
                (0, Crit::Pay(sub("foo", true))),
                (2, Crit::Pay(pre("^fo+$", false))),
                (0, Crit::Pay(pre("BAZ$", true))),
            ] {
                let mut f = AFilter::new(k);
                c.apply(&mut f);
                dl.push(f);
            }
            let mut dis = AFilter::new(0);
            dis.enabled = false;
            Crit::Ecu(lit("ECU2")).apply(&mut dis);
            dl.push(dis);
            dl.push(AFilter::new(1));
            ctx.begin_family("dlf_two_filters", &format!("ordered pairs of {} DLF-expressible filters x 2 layouts", dl.len()));
            for a in &dl {
                for b in &dl {
                    for fe in [Fe::Dlf, Fe::DlfCompact] {
                        if ctx.mine() {
                            run_list_case(ctx, &uni, "dlf_two_filters", fe, &[a.clone(), b.clone()]);
                        }
                    }
                }
            }
            ctx.end_family(true);
            let mut cl: Vec<AFilter> = vec![];
            for a in ["APP1", "APP2", "AP", "APP"] {
                for c in ["CTX1", "CTX2", "CT", "C"] {
                    let mut f = AFilter::new(0);
                    f.apid = Some(lit(a));
                    f.ctid = Some(lit(c));
                    cl.push(f);
                }
            }
            let maxlen = ctx.tier.pick(2, 3);
            ctx.begin_family("convert_list", &format!("all lists of 1..{maxlen} entries from {} (apid, ctid) pairs", cl.len()));
            let mut done = true;
            for len in 1..=maxlen {
                done &= enumr::sequences(len, cl.len(), |ix| {
                    if ctx.mine() {
                        let list: Vec<AFilter> = ix.iter().map(|i| cl[*i].clone()).collect();
                        run_list_case(ctx, &uni, "convert_list", Fe::Convert, &list);
                        if !tick(ctx) {
                            return false;
                        }
                    }
                    true
                });
            }
            ctx.end_family(done);
            if !done {
                return;
            }
        }

        // (5) triples of criteria x variants x negated (quick: reduced variant sets, thorough: the quick-pairs variant sets)
        for lvl in 0..=ctx.tier.pick(0, 1) {
            let vars = variants(lvl);
            ctx.begin_family("triples", &format!("all triples of criteria x variants (level {lvl}: {:?} per criterion) x negated", vars.iter().map(|v| v.len()).collect::<Vec<_>>()));
            let mut done = true;
            'd: for i in 0..NCRIT {
                for j in i + 1..NCRIT {
                    for k in j + 1..NCRIT {
                        for a in &vars[i] {
                            for b in &vars[j] {
                                for c in &vars[k] {
                                    for neg in [false, true] {
                                        if ctx.mine() {
                                            let mut f = AFilter::new(0);
                                            f.negated = neg;
                                            a.apply(&mut f);
                                            b.apply(&mut f);
                                            c.apply(&mut f);
                                            run_case(ctx, &uni, "triples", &f);
                                            if !tick(ctx) {
                                                done = false;
                                                break 'd;
                                            }
                                        }
                                    }
                                }
                            }
                        }
                    }
                }
            }
            ctx.end_family(done);
            if !done {
                return;
            }
        }

        // (6) thorough: the full product over the reduced variant sets: every criterion absent or one of 4 values, x negated
        if ctx.tier == Tier::Thorough {
            let vars = variants(0);
            let dims: Vec<usize> = vars.iter().map(|v| v.len() + 1).collect();
            ctx.begin_family("full_product", &format!("each of the 8 criteria absent or one of its reduced variants {:?} x negated", dims));
            let done = enumr::product(&dims, |ix| {
                for neg in [false, true] {
                    if ctx.mine() {
                        let mut f = AFilter::new(0);
                        f.negated = neg;
                        for (c, x) in ix.iter().enumerate() {
                            if *x > 0 {
                                vars[c][*x - 1].apply(&mut f);
                            }
                        }
                        run_case(ctx, &uni, "full_product", &f);
                        if !tick(ctx) {
                            return false;
                        }
                    }
                }
                true
            });
            ctx.end_family(done);
        }
        // (last) the ECU:APID:CTID front-end of `adlt convert --eac=..` through the binary built from the working tree
        eac_cli_family(ctx, &uni);
    }

    fn prepare(&self, _t: Tier) -> Result<(), String> {
        crate::rem::build_adlt_bin()
    }
    fn replay(&self, case: &Value, ctx: &mut Ctx) {
        if case["family"] == "eac_cli" {
            ctx.mine();
            if crate::rem::build_adlt_bin().is_err() {
                return;
            }
            let uni = Universe::new();
            let dir = crate::rem::scratch_dir();
            let file = eac_universe_file(&uni, &dir);
            let exprs: Vec<(Option<IdCrit>, Option<IdCrit>, Option<IdCrit>)> = case["exprs"].as_array().unwrap().iter().map(|e| (AFilter::id_from(&e[0]), AFilter::id_from(&e[1]), AFilter::id_from(&e[2]))).collect();
            eac_cli_case(ctx, &uni, &file, &exprs);
            let _ = std::fs::remove_dir_all(&dir);
            return;
        }
        let uni = Universe::new();
        ctx.mine();
        let family = case["family"].as_str().unwrap_or("replay");
        if let Some(l) = case["filters"].as_array() {
            let list: Vec<AFilter> = l.iter().map(AFilter::from_value).collect();
            let fe = *FES.iter().find(|f| Some(f.name()) == case["frontend"].as_str()).expect("frontend");
            run_list_case(ctx, &uni, family, fe, &list);
        } else {
            run_case(ctx, &uni, family, &AFilter::from_value(&case["filter"]));
        }
    }
}


// ------------------------------------------------------------------------------------------------ --eac through the binary
fn trim0(b: &[u8; 4]) -> String {
    String::from_utf8_lossy(&b[..b.iter().position(|x| *x == 0).unwrap_or(4)]).into_owned()
}
/// the universe messages that can be written to a DLT file unchanged (ids without control bytes)
fn eac_universe_file(uni: &Universe, dir: &str) -> String {
    let mut bytes = vec![];
    for (i, d) in uni.dm.iter().enumerate() {
        let mut m = d.clone();
        m.index = i as u32;
        let _ = m.to_write(&mut bytes);
    }
    let p = format!("{dir}/universe.dlt");
    std::fs::write(&p, bytes).expect("write universe");
    p
}
fn eac_text(c: &Option<IdCrit>) -> String {
    match c {
        None => String::new(),
        Some(IdCrit::Lit(s)) | Some(IdCrit::Re(s)) => s.clone(),
    }
}
fn eac_cli_case(ctx: &mut Ctx, uni: &Universe, file: &str, exprs: &[(Option<IdCrit>, Option<IdCrit>, Option<IdCrit>)]) {
    let cj = || json!({"family": "eac_cli", "exprs": exprs.iter().map(|(e, a, c)| json!([AFilter::id_json(e), AFilter::id_json(a), AFilter::id_json(c)])).collect::<Vec<_>>()});
    let arg = exprs.iter().map(|(e, a, c)| format!("{}:{}:{}", eac_text(e), eac_text(a), eac_text(c)).trim_end_matches(':').to_string()).collect::<Vec<_>>().join(",");
    let out = std::process::Command::new(crate::rem::adlt_bin()).args(["convert", "-s", &format!("--eac={arg}"), file]).output();
    ctx.landmark("eac_cli_case");
    ctx.eval(true);
    let out = match out {
        Ok(o) => o,
        Err(e) => {
            ctx.violation("eac_cli_spawn", "", cj, e.to_string());
            return;
        }
    };
    if !out.status.success() {
        ctx.violation("eac_cli_exit", "", cj, format!("adlt convert --eac={arg} exited with {:?}: {}", out.status.code(), String::from_utf8_lossy(&out.stderr).chars().take(200).collect::<String>()));
        return;
    }
    let got: std::collections::BTreeSet<usize> = String::from_utf8_lossy(&out.stdout).lines().filter_map(|l| l.split(' ').next().and_then(|t| t.parse().ok())).collect();
    // spec: a message is kept iff some expression (a positive filter) holds; undefined verdicts are not judged
    let specs: Vec<SpecFilter> = exprs
        .iter()
        .map(|(e, a, c)| {
            let mut f = AFilter::new(0);
            f.ecu = e.clone();
            f.apid = a.clone();
            f.ctid = c.clone();
            SpecFilter::new(&f)
        })
        .collect();
    for (i, m) in uni.um.iter().enumerate() {
        // the file carries the ids as written: skip universe messages whose ids were not plain 4-byte ids on disk
        let verdicts: Vec<Tri> = specs.iter().map(|s| s.eval(m)).collect();
        if verdicts.iter().any(|v| *v == Tri::U) {
            continue;
        }
        let want = verdicts.iter().any(|v| *v == Tri::T);
        if want != got.contains(&i) {
            let disc = format!("{}{}{}", if exprs.iter().any(|x| x.0.is_some()) { "e" } else { "" }, if exprs.iter().any(|x| x.1.is_some()) { "a" } else { "" }, if exprs.iter().any(|x| x.2.is_some()) { "c" } else { "" });
            ctx.violation("eac_cli_selection", &disc, cj, format!("--eac={arg}: message {i} ({}, ext {:?}) {} but the filter says {}", trim0(&m.ecu), m.ext.map(|(t, a, c)| (t, trim0(&a), trim0(&c))), if got.contains(&i) { "printed" } else { "not printed" }, want));
            return;
        }
    }
}
fn eac_cli_family(ctx: &mut Ctx, uni: &Universe) {
    let ids = |lits: &[&str], res: &[&str]| -> Vec<Option<IdCrit>> {
        let mut v = vec![None];
        v.extend(lits.iter().map(|s| Some(IdCrit::Lit(s.to_string()))));
        v.extend(res.iter().map(|s| Some(IdCrit::Re(s.to_string()))));
        v
    };
    let ecus = ids(&["ECU1", "ECU2", "EC", "NONE"], &["^ECU[12]", "ECU1|EC$"]);
    let apids = ids(&["APP1", "AP", "NOPE"], &["^APP", "APP[2]"]);
    let ctids = ids(&["CTX2", "CT"], &["X1$"]);
    ctx.begin_family("eac_cli", &format!("--eac through the binary: {} ECU x {} APID x {} CTID criteria (none / literal / regex) as single expressions + all pairs of a 6-expression core as lists, on the universe written to a DLT file", ecus.len(), apids.len(), ctids.len()));
    let dir = crate::rem::scratch_dir();
    let file = eac_universe_file(uni, &dir);
    let mut done = true;
    'x: for e in &ecus {
        for a in &apids {
            for c in &ctids {
                if e.is_none() && a.is_none() && c.is_none() {
                    continue;
                }
                if ctx.mine() {
                    eac_cli_case(ctx, uni, &file, &[(e.clone(), a.clone(), c.clone())]);
                    if ctx.out_of_time() {
                        done = false;
                        break 'x;
                    }
                }
            }
        }
    }
    let core: Vec<(Option<IdCrit>, Option<IdCrit>, Option<IdCrit>)> = vec![
        (ecus[1].clone(), None, None),
        (None, apids[1].clone(), None),
        (ecus[2].clone(), apids[2].clone(), ctids[1].clone()),
        (None, None, ctids[3].clone()),
        (ecus[5].clone(), apids[4].clone(), None),
        (ecus[3].clone(), None, ctids[2].clone()),
    ];
    for x in &core {
        for y in &core {
            if ctx.mine() {
                eac_cli_case(ctx, uni, &file, &[x.clone(), y.clone()]);
            }
        }
    }
    ctx.end_family(done);
    let _ = std::fs::remove_dir_all(&dir);
}
