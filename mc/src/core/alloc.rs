//! Global allocator wrapper:
//!  * keeps huge blocks (>= 32 MiB) in a small cache instead of returning them to the OS
//!    (the lifecycle stage pre-allocates ~1 GiB virtual per call; the mmap/munmap pair dominates
//!    the cost of a run otherwise). The blocks are never touched, so RSS stays small.
//!  * records the largest single request since the last reset (used by C03's allocation rule)
//!  * optional hard limit: a request above the limit returns null (=> alloc error => abort), used
//!    only by subprocess-isolated sweeps.
use std::alloc::{GlobalAlloc, Layout, System};
use std::sync::atomic::{AtomicBool, AtomicUsize, Ordering};

pub struct CachingAlloc;

const HUGE: usize = 32 << 20;
const SLOTS: usize = 8;

struct Slot {
    ptr: AtomicUsize,
    size: AtomicUsize,
    align: AtomicUsize,
}
#[allow(clippy::declare_interior_mutable_const)]
const EMPTY: Slot = Slot {
    ptr: AtomicUsize::new(0),
    size: AtomicUsize::new(0),
    align: AtomicUsize::new(0),
};
static CACHE: [Slot; SLOTS] = [EMPTY; SLOTS];
static LOCK: AtomicBool = AtomicBool::new(false);
pub static MAX_REQ: AtomicUsize = AtomicUsize::new(0);
pub static HUGE_REQS: AtomicUsize = AtomicUsize::new(0);

fn lock() {
    while LOCK
        .compare_exchange_weak(false, true, Ordering::Acquire, Ordering::Relaxed)
        .is_err()
    {
        std::hint::spin_loop();
    }
}
fn unlock() {
    LOCK.store(false, Ordering::Release);
}

/// distinct sizes of huge (>= 32 MiB) requests seen since the last `take_huge_sizes`
#[allow(clippy::declare_interior_mutable_const)]
const Z: AtomicUsize = AtomicUsize::new(0);
static HUGE_LOG: [AtomicUsize; 32] = [Z; 32];
fn log_huge(sz: usize) {
    for s in HUGE_LOG.iter() {
        let v = s.load(Ordering::Relaxed);
        if v == sz {
            return;
        }
        if v == 0 && s.compare_exchange(0, sz, Ordering::Relaxed, Ordering::Relaxed).is_ok() {
            return;
        }
    }
}
pub fn take_huge_sizes() -> Vec<usize> {
    let mut v = vec![];
    for s in HUGE_LOG.iter() {
        let x = s.swap(0, Ordering::Relaxed);
        if x != 0 {
            v.push(x);
        }
    }
    v
}

pub fn reset_max() {
    MAX_REQ.store(0, Ordering::Relaxed);
}
pub fn max_req() -> usize {
    MAX_REQ.load(Ordering::Relaxed)
}

unsafe impl GlobalAlloc for CachingAlloc {
    unsafe fn alloc(&self, layout: Layout) -> *mut u8 {
        let sz = layout.size();
        if sz >= (1 << 20) {
            MAX_REQ.fetch_max(sz, Ordering::Relaxed);
        }
        if sz >= HUGE {
            HUGE_REQS.fetch_add(1, Ordering::Relaxed);
            log_huge(sz);
            lock();
            for s in CACHE.iter() {
                if s.ptr.load(Ordering::Relaxed) != 0
                    && s.size.load(Ordering::Relaxed) == sz
                    && s.align.load(Ordering::Relaxed) == layout.align()
                {
                    let p = s.ptr.swap(0, Ordering::Relaxed);
                    unlock();
                    return p as *mut u8;
                }
            }
            unlock();
        }
        System.alloc(layout)
    }
    unsafe fn dealloc(&self, ptr: *mut u8, layout: Layout) {
        if layout.size() >= HUGE {
            lock();
            for s in CACHE.iter() {
                if s.ptr.load(Ordering::Relaxed) == 0 {
                    s.ptr.store(ptr as usize, Ordering::Relaxed);
                    s.size.store(layout.size(), Ordering::Relaxed);
                    s.align.store(layout.align(), Ordering::Relaxed);
                    unlock();
                    return;
                }
            }
            unlock();
        }
        System.dealloc(ptr, layout)
    }
    unsafe fn alloc_zeroed(&self, layout: Layout) -> *mut u8 {
        if layout.size() >= (1 << 20) {
            MAX_REQ.fetch_max(layout.size(), Ordering::Relaxed);
            if layout.size() >= HUGE {
                log_huge(layout.size());
            }
        }
        System.alloc_zeroed(layout)
    }
    unsafe fn realloc(&self, ptr: *mut u8, layout: Layout, new_size: usize) -> *mut u8 {
        if new_size >= (1 << 20) {
            MAX_REQ.fetch_max(new_size, Ordering::Relaxed);
            if new_size >= HUGE {
                log_huge(new_size);
            }
        }
        if layout.size() < HUGE && new_size < HUGE {
            return System.realloc(ptr, layout, new_size);
        }
        // generic path through our alloc/dealloc (keeps the cache consistent)
        let new_layout = Layout::from_size_align_unchecked(new_size, layout.align());
        let new_ptr = self.alloc(new_layout);
        if !new_ptr.is_null() {
            std::ptr::copy_nonoverlapping(ptr, new_ptr, std::cmp::min(layout.size(), new_size));
            self.dealloc(ptr, layout);
        }
        new_ptr
    }
}
