//! Exhaustive enumerators (callback style; every callback returns `true` to continue, `false` to stop).

/// all tuples of a mixed-radix product; dims[i] = number of values of position i
pub fn product(dims: &[usize], mut f: impl FnMut(&[usize]) -> bool) -> bool {
    if dims.iter().any(|d| *d == 0) {
        return true;
    }
    let mut cur = vec![0usize; dims.len()];
    loop {
        if !f(&cur) {
            return false;
        }
        let mut i = dims.len();
        loop {
            if i == 0 {
                return true;
            }
            i -= 1;
            cur[i] += 1;
            if cur[i] < dims[i] {
                break;
            }
            cur[i] = 0;
        }
    }
}

/// all sequences of length `len` over symbols 0..nsym
pub fn sequences(len: usize, nsym: usize, f: impl FnMut(&[usize]) -> bool) -> bool {
    let dims = vec![nsym; len];
    product(&dims, f)
}

/// all sequences of length `len` over 0..nsym that differ from `default` in exactly `k` positions
/// (deviation-bounded enumeration: iterate k = 0,1,2.. for "at most k")
pub fn deviations_exact(
    len: usize,
    k: usize,
    nsym: usize,
    default: usize,
    f: &mut impl FnMut(&[usize]) -> bool,
) -> bool {
    if k > len {
        return true;
    }
    let mut seq = vec![default; len];
    let mut pos: Vec<usize> = (0..k).collect();
    if nsym < 2 && k > 0 {
        return true;
    }
    loop {
        // for this choice of positions enumerate all (nsym-1)^k non-default symbol assignments
        let dims = vec![nsym - 1; k];
        let cont = product(&dims, |vals| {
            for (i, p) in pos.iter().enumerate() {
                let v = vals[i];
                seq[*p] = if v >= default { v + 1 } else { v };
            }
            f(&seq)
        });
        if !cont {
            return false;
        }
        for p in pos.iter() {
            seq[*p] = default;
        }
        // next combination
        let mut i = k;
        loop {
            if i == 0 {
                return true;
            }
            i -= 1;
            if pos[i] < len - (k - i) {
                pos[i] += 1;
                for j in i + 1..k {
                    pos[j] = pos[j - 1] + 1;
                }
                break;
            }
        }
    }
}

/// number of sequences with exactly k deviations
pub fn deviations_count(len: usize, k: usize, nsym: usize) -> u64 {
    if k > len {
        return 0;
    }
    let mut c: u128 = 1;
    for i in 0..k {
        c = c * (len - i) as u128 / (i + 1) as u128;
    }
    let mut p: u128 = 1;
    for _ in 0..k {
        p *= (nsym - 1) as u128;
    }
    (c * p) as u64
}

/// all permutations of 0..n (Heap's algorithm, deterministic order)
pub fn permutations(n: usize, mut f: impl FnMut(&[usize]) -> bool) -> bool {
    let mut a: Vec<usize> = (0..n).collect();
    let mut c = vec![0usize; n];
    if !f(&a) {
        return false;
    }
    let mut i = 0;
    while i < n {
        if c[i] < i {
            if i % 2 == 0 {
                a.swap(0, i);
            } else {
                a.swap(c[i], i);
            }
            if !f(&a) {
                return false;
            }
            c[i] += 1;
            i = 0;
        } else {
            c[i] = 0;
            i += 1;
        }
    }
    true
}

/// all compositions of n into positive parts (2^(n-1) of them; n = 0 yields the empty composition)
pub fn compositions(n: usize, mut f: impl FnMut(&[usize]) -> bool) -> bool {
    if n == 0 {
        return f(&[]);
    }
    for mask in 0u64..(1u64 << (n - 1)) {
        let mut parts = vec![];
        let mut cur = 1;
        for i in 0..n - 1 {
            if mask & (1 << i) != 0 {
                parts.push(cur);
                cur = 1;
            } else {
                cur += 1;
            }
        }
        parts.push(cur);
        if !f(&parts) {
            return false;
        }
    }
    true
}

/// all interleavings of sequences with the given lengths; callback gets for each output position the
/// index of the source sequence
pub fn interleavings(lens: &[usize], f: &mut impl FnMut(&[usize]) -> bool) -> bool {
    fn rec(rem: &mut Vec<usize>, cur: &mut Vec<usize>, f: &mut dyn FnMut(&[usize]) -> bool) -> bool {
        if rem.iter().all(|r| *r == 0) {
            return f(cur);
        }
        for i in 0..rem.len() {
            if rem[i] > 0 {
                rem[i] -= 1;
                cur.push(i);
                let c = rec(rem, cur, f);
                cur.pop();
                rem[i] += 1;
                if !c {
                    return false;
                }
            }
        }
        true
    }
    let mut rem = lens.to_vec();
    let mut cur = vec![];
    rec(&mut rem, &mut cur, f)
}

/// all subsets of 0..n as bitmasks
pub fn subsets(n: usize, mut f: impl FnMut(u64) -> bool) -> bool {
    for m in 0u64..(1u64 << n) {
        if !f(m) {
            return false;
        }
    }
    true
}

#[cfg(test)]
mod tests {
    use super::*;
    #[test]
    fn dev_counts() {
        for (l, k, n) in [(4, 2, 3), (5, 0, 4), (3, 3, 2), (6, 2, 5)] {
            let mut c = 0u64;
            let mut seen = std::collections::HashSet::new();
            deviations_exact(l, k, n, 1, &mut |s| {
                c += 1;
                assert_eq!(s.iter().filter(|x| **x != 1).count(), k);
                assert!(seen.insert(s.to_vec()));
                true
            });
            assert_eq!(c, deviations_count(l, k, n));
        }
    }
    #[test]
    fn perm_comp_inter() {
        let mut c = 0;
        permutations(4, |_| {
            c += 1;
            true
        });
        assert_eq!(c, 24);
        c = 0;
        compositions(5, |p| {
            assert_eq!(p.iter().sum::<usize>(), 5);
            c += 1;
            true
        });
        assert_eq!(c, 16);
        c = 0;
        interleavings(&[2, 2], &mut |_| {
            c += 1;
            true
        });
        assert_eq!(c, 6);
    }
}
