//! mc-core: sharded process runner, summaries, evidence / replay / known-findings plumbing.
pub mod alloc;
pub mod dltgen;
pub mod enumr;

use serde::{Deserialize, Serialize};
use serde_json::{json, Value};
use std::collections::{BTreeMap, BTreeSet};
use std::time::{Duration, Instant};

/// root of the verification tree (evidence/, replays/, known_findings.json); MC_VERIF_DIR overrides for scratch runs
pub fn verif_dir() -> String {
    std::env::var("MC_VERIF_DIR").unwrap_or_else(|_| "/verif".into())
}

#[derive(Clone, Copy, PartialEq, Eq, Debug)]
pub enum Tier {
    Quick,
    Thorough,
}
impl Tier {
    pub fn name(&self) -> &'static str {
        match self {
            Tier::Quick => "quick",
            Tier::Thorough => "thorough",
        }
    }
    pub fn pick<T>(&self, q: T, t: T) -> T {
        match self {
            Tier::Quick => q,
            Tier::Thorough => t,
        }
    }
}

// ---------------------------------------------------------------- panics
thread_local! {
    static LAST_PANIC: std::cell::RefCell<Option<(String, String)>> = const { std::cell::RefCell::new(None) };
}
pub fn install_panic_hook() {
    std::panic::set_hook(Box::new(|info| {
        let loc = info
            .location()
            .map(|l| format!("{}:{}", l.file(), l.line()))
            .unwrap_or_else(|| "?".into());
        let msg = if let Some(s) = info.payload().downcast_ref::<&str>() {
            s.to_string()
        } else if let Some(s) = info.payload().downcast_ref::<String>() {
            s.clone()
        } else {
            "<non-string panic>".into()
        };
        if std::env::var_os("MC_SHOW_PANICS").is_some() {
            eprintln!("PANIC at {loc}: {msg}");
        }
        LAST_PANIC.with(|p| *p.borrow_mut() = Some((loc, msg)));
    }));
}
#[derive(Debug, Clone)]
pub struct Panicked {
    pub loc: String,
    pub msg: String,
}
/// run f, catching a panic and returning its source location (repo-relative) and message
pub fn catch<T>(f: impl FnOnce() -> T) -> Result<T, Panicked> {
    match std::panic::catch_unwind(std::panic::AssertUnwindSafe(f)) {
        Ok(v) => Ok(v),
        Err(_) => {
            let (loc, msg) = LAST_PANIC
                .with(|p| p.borrow_mut().take())
                .unwrap_or(("?".into(), "?".into()));
            // repo-relative location, wherever the checked tree lives
            let loc = match loc.find("/src/") {
                Some(i) if loc.starts_with('/') && !loc.contains("/.cargo/") && !loc.contains("/rustc/") => loc[i + 1..].to_string(),
                _ => loc.trim_start_matches("/repo/").to_string(),
            };
            Err(Panicked { loc, msg })
        }
    }
}

// ---------------------------------------------------------------- summary
#[derive(Serialize, Deserialize, Default, Clone, Debug)]
pub struct ViolationRec {
    pub clause: String,
    pub disc: String,
    pub count: u64,
    pub case: Value,
    pub detail: String,
    pub case_no: u64,
}

#[derive(Serialize, Deserialize, Default, Clone, Debug)]
pub struct FamilyRec {
    pub name: String,
    pub bound: String,
    pub cases: u64,
    pub complete: bool,
}

#[derive(Serialize, Deserialize, Default, Clone, Debug)]
pub struct Summary {
    pub evaluations: u64,
    pub nontrivial: u64,
    pub transitions: u64,
    pub states: u64,
    pub landmarks: BTreeMap<String, u64>,
    pub outcomes: BTreeSet<u64>,
    pub outcomes_overflow: bool,
    pub violations: BTreeMap<String, ViolationRec>,
    pub samples: Vec<Value>,
    pub families: Vec<FamilyRec>,
    pub extra: BTreeMap<String, Value>,
    pub capped: bool,
}
const MAX_OUTCOMES: usize = 200_000;

impl Summary {
    pub fn merge(&mut self, o: Summary) {
        self.evaluations += o.evaluations;
        self.nontrivial += o.nontrivial;
        self.transitions += o.transitions;
        self.states += o.states;
        for (k, v) in o.landmarks {
            *self.landmarks.entry(k).or_default() += v;
        }
        for h in o.outcomes {
            if self.outcomes.len() < MAX_OUTCOMES {
                self.outcomes.insert(h);
            } else {
                self.outcomes_overflow = true;
            }
        }
        self.outcomes_overflow |= o.outcomes_overflow;
        for (k, v) in o.violations {
            match self.violations.get_mut(&k) {
                None => {
                    self.violations.insert(k, v);
                }
                Some(e) => {
                    e.count += v.count;
                    if v.case_no < e.case_no {
                        e.case = v.case;
                        e.detail = v.detail;
                        e.case_no = v.case_no;
                    }
                }
            }
        }
        for s in o.samples {
            if self.samples.len() < 12 {
                self.samples.push(s);
            }
        }
        for f in o.families {
            if let Some(e) = self
                .families
                .iter_mut()
                .find(|e| e.name == f.name && e.bound == f.bound)
            {
                e.cases += f.cases;
                e.complete &= f.complete;
            } else {
                self.families.push(f);
            }
        }
        for (k, v) in o.extra {
            // numeric extras are summed, others: first wins
            match (self.extra.get(&k).and_then(|x| x.as_u64()), v.as_u64()) {
                (Some(a), Some(b)) => {
                    self.extra.insert(k, json!(a + b));
                }
                _ => {
                    self.extra.entry(k).or_insert(v);
                }
            }
        }
        self.capped |= o.capped;
    }
}

// ---------------------------------------------------------------- ctx
pub struct Ctx {
    pub tier: Tier,
    pub shard: u64,
    pub nshards: u64,
    pub seed: u64,
    pub sum: Summary,
    pub replaying: bool,
    counter: u64,
    start: Instant,
    budget: Duration,
    fam_start_cases: u64,
    fam_name: String,
    fam_bound: String,
    sample_every: u64,
    /// careful mode (crash isolation): cases up to this number were already run by a worker that died
    pub resume_after: Option<u64>,
    /// careful mode: file that always names the case being run
    pub progress_path: Option<String>,
    last_ckpt: Instant,
}

impl Ctx {
    pub fn new(tier: Tier, shard: u64, nshards: u64, seed: u64, budget_s: u64) -> Ctx {
        Ctx {
            tier,
            shard,
            nshards,
            seed,
            sum: Summary::default(),
            replaying: false,
            counter: 0,
            start: Instant::now(),
            budget: Duration::from_secs(budget_s),
            fam_start_cases: 0,
            fam_name: String::new(),
            fam_bound: String::new(),
            sample_every: 1,
            resume_after: None,
            progress_path: None,
            last_ckpt: Instant::now(),
        }
    }
    /// careful mode: record the case about to run (so that a dying worker leaves a witness) and
    /// checkpoint the summary from time to time
    pub fn announce(&mut self, case: impl FnOnce() -> Value) {
        if let Some(p) = &self.progress_path {
            let v = json!({"case_no": self.case_no(), "case": case()});
            let _ = std::fs::write(p, v.to_string());
            if self.last_ckpt.elapsed() > Duration::from_secs(3) {
                let _ = std::fs::write(format!("{}.ckpt", p.trim_end_matches(".progress")), serde_json::to_string(&self.sum).unwrap_or_default());
                self.last_ckpt = Instant::now();
            }
        }
    }
    /// deterministic sharding: every enumerated case calls this once; true = this worker runs it
    #[inline]
    pub fn mine(&mut self) -> bool {
        let c = self.counter;
        self.counter += 1;
        if let Some(r) = self.resume_after {
            if c <= r {
                return false;
            }
        }
        self.replaying || (c.wrapping_add(self.seed)) % self.nshards == self.shard
    }
    pub fn case_no(&self) -> u64 {
        self.counter.saturating_sub(1)
    }
    #[inline]
    pub fn eval(&mut self, nontrivial: bool) {
        self.sum.evaluations += 1;
        self.sum.states += 1;
        if nontrivial {
            self.sum.nontrivial += 1;
        }
    }
    #[inline]
    pub fn transitions(&mut self, n: u64) {
        self.sum.transitions += n;
    }
    #[inline]
    pub fn landmark(&mut self, name: &str) {
        if let Some(v) = self.sum.landmarks.get_mut(name) {
            *v += 1;
        } else {
            self.sum.landmarks.insert(name.to_string(), 1);
        }
    }
    pub fn landmark_n(&mut self, name: &str, n: u64) {
        *self.sum.landmarks.entry(name.to_string()).or_default() += n;
    }
    #[inline]
    pub fn outcome(&mut self, h: u64) {
        if self.sum.outcomes.len() < MAX_OUTCOMES {
            self.sum.outcomes.insert(h);
        } else if !self.sum.outcomes.contains(&h) {
            self.sum.outcomes_overflow = true;
        }
    }
    pub fn violation(
        &mut self,
        clause: &str,
        disc: &str,
        case: impl FnOnce() -> Value,
        detail: String,
    ) {
        let key = format!("{clause}|{disc}");
        let case_no = self.case_no();
        match self.sum.violations.get_mut(&key) {
            Some(v) => v.count += 1,
            None => {
                self.sum.violations.insert(
                    key,
                    ViolationRec {
                        clause: clause.into(),
                        disc: disc.into(),
                        count: 1,
                        case: case(),
                        detail,
                        case_no,
                    },
                );
            }
        }
    }
    /// keep a few cases as samples (first ones and then exponentially thinned)
    pub fn sample(&mut self, f: impl FnOnce() -> Value) {
        if self.sum.samples.len() >= 6 {
            return;
        }
        let n = self.sum.evaluations;
        if n % self.sample_every == 0 {
            self.sum.samples.push(f());
            self.sample_every = self.sample_every.saturating_mul(7 + (self.seed % 5));
        }
    }
    pub fn out_of_time(&self) -> bool {
        !self.replaying && self.start.elapsed() > self.budget
    }
    pub fn elapsed_s(&self) -> f64 {
        self.start.elapsed().as_secs_f64()
    }
    /// start a (family, bound) block; end_family records whether it completed
    pub fn begin_family(&mut self, name: &str, bound: &str) {
        self.fam_name = name.into();
        self.fam_bound = bound.into();
        self.fam_start_cases = self.sum.evaluations;
    }
    pub fn end_family(&mut self, complete: bool) {
        let rec = FamilyRec {
            name: self.fam_name.clone(),
            bound: self.fam_bound.clone(),
            cases: self.sum.evaluations - self.fam_start_cases,
            complete,
        };
        if !complete {
            self.sum.capped = true;
        }
        self.sum.families.push(rec);
    }
    pub fn extra_add(&mut self, k: &str, n: u64) {
        let cur = self.sum.extra.get(k).and_then(|v| v.as_u64()).unwrap_or(0);
        self.sum.extra.insert(k.into(), json!(cur + n));
    }
    pub fn extra_set(&mut self, k: &str, v: Value) {
        self.sum.extra.insert(k.into(), v);
    }
}

pub fn fnv(data: &[u8]) -> u64 {
    let mut h: u64 = 0xcbf29ce484222325;
    for b in data {
        h ^= *b as u64;
        h = h.wrapping_mul(0x100000001b3);
    }
    h
}
pub fn fnv_str(s: &str) -> u64 {
    fnv(s.as_bytes())
}
pub fn hex(b: &[u8]) -> String {
    let mut s = String::with_capacity(b.len() * 2);
    for x in b {
        s.push_str(&format!("{:02x}", x));
    }
    s
}
pub fn unhex(s: &str) -> Vec<u8> {
    (0..s.len() / 2)
        .map(|i| u8::from_str_radix(&s[2 * i..2 * i + 2], 16).unwrap())
        .collect()
}

// ---------------------------------------------------------------- property description
pub struct Meta {
    pub id: &'static str,
    pub level: &'static str, // exploration | fault_enumeration | model_checking
    pub rule: String,
    pub assumptions: Vec<String>,
    /// per-worker wall budget in seconds (quick, thorough)
    pub budget_s: (u64, u64),
    /// number of worker processes (0 = all cores)
    pub workers: usize,
    /// landmarks that must be > 0 for the run to be trusted (checked by the parent)
    pub required_landmarks: Vec<&'static str>,
}

pub trait Prop {
    fn meta(&self, tier: Tier) -> Meta;
    fn run(&self, ctx: &mut Ctx);
    /// re-run the oracle on one recorded case (same code path as the explorer); violations go to ctx
    fn replay(&self, case: &Value, ctx: &mut Ctx);
    /// crash isolation: the worker announces every case; when it dies (abort, stack overflow, allocation failure)
    /// the parent records the announced case as a violation `abort` and restarts the shard after it
    fn careful(&self) -> bool {
        false
    }
    /// optional hook run once in the parent before workers start (e.g. build the adlt binary)
    fn prepare(&self, _tier: Tier) -> Result<(), String> {
        Ok(())
    }
}

// ---------------------------------------------------------------- known findings
#[derive(Deserialize, Debug, Clone)]
pub struct Finding {
    pub property: String,
    pub status: String, // known | fixed
    pub id: String,
    pub clause: String,
    pub disc: String,
    pub description: String,
    #[serde(default)]
    pub commit: Option<String>,
    #[serde(default)]
    pub witness: Option<Value>,
}
pub fn load_findings() -> Vec<Finding> {
    let p = format!("{}/known_findings.json", verif_dir());
    match std::fs::read_to_string(&p) {
        Ok(s) => {
            let v: Value = serde_json::from_str(&s).expect("known_findings.json is not valid JSON");
            serde_json::from_value(v["findings"].clone()).expect("known_findings.json: bad entries")
        }
        Err(_) => vec![],
    }
}
fn finding_matches(f: &Finding, prop: &str, v: &ViolationRec) -> bool {
    if f.status != "known" || f.property != prop || f.clause != v.clause {
        return false;
    }
    if let Some(re) = f.disc.strip_prefix("re:") {
        regex::Regex::new(re).map(|r| r.is_match(&v.disc)).unwrap_or(false)
    } else {
        f.disc == v.disc
    }
}

// ---------------------------------------------------------------- parent runner
pub fn parent_main(prop: &dyn Prop, tier: Tier, seed: u64) -> i32 {
    let meta = prop.meta(tier);
    let t0 = Instant::now();
    if let Err(e) = prop.prepare(tier) {
        eprintln!("MACHINERY-ERROR property={} prepare failed: {e}", meta.id);
        return 2;
    }
    let ncores = std::thread::available_parallelism().map(|n| n.get()).unwrap_or(4);
    let n = if meta.workers == 0 { ncores } else { meta.workers.min(ncores) };
    let exe = std::env::current_exe().unwrap();
    let tmpdir = format!("{}/target-mc/tmp", verif_dir());
    std::fs::create_dir_all(&tmpdir).ok();
    let careful = prop.careful();
    let spawn = |i: usize, out: &str, resume: Option<u64>| {
        let mut c = std::process::Command::new(&exe);
        c.arg(meta.id).arg(tier.name()).arg("--worker").arg(format!("{i}/{n}")).arg("--out").arg(out).env("VERIF_SEED", seed.to_string()).stdout(std::process::Stdio::null());
        if let Some(r) = resume {
            c.arg("--resume-after").arg(r.to_string());
        }
        if careful {
            c.stderr(std::process::Stdio::null());
        }
        c.spawn().expect("spawn worker")
    };
    let mut children = vec![];
    for i in 0..n {
        let out = format!("{tmpdir}/{}-{}-{}.{}.json", meta.id, tier.name(), std::process::id(), i);
        let _ = std::fs::remove_file(&out);
        let child = spawn(i, &out, None);
        children.push((i, out, child));
    }
    let mut total = Summary::default();
    let mut machinery_err = false;
    for (i, out, mut child) in children {
        let mut restarts = 0;
        loop {
            let st = child.wait().expect("wait worker");
            match std::fs::read_to_string(&out) {
                Ok(s) if st.success() => {
                    let s: Summary = serde_json::from_str(&s).expect("worker summary");
                    total.merge(s);
                    break;
                }
                _ => {
                    let progress = std::fs::read_to_string(format!("{out}.progress")).ok().and_then(|p| serde_json::from_str::<Value>(&p).ok());
                    if careful && restarts < 200 {
                        if let Some(p) = progress {
                            // the worker died while running the announced case: that is the verdict for this case
                            if let Some(ck) = std::fs::read_to_string(format!("{out}.ckpt")).ok().and_then(|c| serde_json::from_str::<Summary>(&c).ok()) {
                                total.merge(ck);
                            }
                            let _ = std::fs::remove_file(format!("{out}.ckpt"));
                            let case_no = p["case_no"].as_u64().unwrap_or(0);
                            let mut part = Summary::default();
                            let disc = format!("{st}");
                            part.violations.insert(format!("abort|{disc}"), ViolationRec { clause: "abort".into(), disc, count: 1, case: p["case"].clone(), detail: format!("worker process died while running this case ({st})"), case_no });
                            total.merge(part);
                            restarts += 1;
                            let _ = std::fs::remove_file(format!("{out}.progress"));
                            child = spawn(i, &out, Some(case_no));
                            continue;
                        }
                    }
                    eprintln!("MACHINERY-ERROR property={} worker {i}/{n} died: {st:?}, progress: {:?}", meta.id, progress);
                    machinery_err = true;
                    break;
                }
            }
        }
        let _ = std::fs::remove_file(&out);
        let _ = std::fs::remove_file(format!("{out}.progress"));
        let _ = std::fs::remove_file(format!("{out}.ckpt"));
    }
    if machinery_err {
        return 2;
    }
    finish(&meta, tier, seed, total, t0.elapsed().as_secs_f64(), n)
}

pub fn finish(meta: &Meta, tier: Tier, seed: u64, total: Summary, wall: f64, nworkers: usize) -> i32 {
    let findings = load_findings();
    let mut unknown = vec![];
    let mut known_lines = vec![];
    for v in total.violations.values() {
        if let Some(f) = findings.iter().find(|f| finding_matches(f, meta.id, v)) {
            known_lines.push(format!(
                "KNOWN-FINDING: property={} {} [{}] clause={} disc={} occurrences={}",
                meta.id, f.description, f.id, v.clause, v.disc, v.count
            ));
        } else {
            unknown.push(v.clone());
        }
    }
    // non-vacuity
    let mut vacuous = vec![];
    for l in &meta.required_landmarks {
        if total.landmarks.get(*l).copied().unwrap_or(0) == 0 {
            vacuous.push(*l);
        }
    }
    // evidence
    let exhaustive = !total.capped;
    let mut coverage = json!({
        "evaluations": total.evaluations,
        "distinct_nontrivial": total.nontrivial,
        "rule": meta.rule,
        "samples": total.samples,
        "exhaustive": exhaustive,
        "distinct_outcomes": total.outcomes.len(),
        "distinct_outcomes_capped": total.outcomes_overflow,
        "landmarks": total.landmarks,
        "families": total.families,
        "workers": nworkers,
        "known_findings_hit": known_lines.len(),
    });
    if meta.level == "model_checking" {
        coverage["states"] = json!(total.states);
        coverage["transitions"] = json!(total.transitions);
        coverage["traces_validated_against_impl"] = json!(total.evaluations);
    }
    for (k, v) in &total.extra {
        coverage[k] = v.clone();
    }
    let ev = json!({
        "property_id": meta.id,
        "tier": tier.name(),
        "seed": seed,
        "level": meta.level,
        "coverage": coverage,
        "assumptions": meta.assumptions,
        "wall_s": (wall * 100.0).round() / 100.0,
        "violations": unknown.len(),
    });
    std::fs::create_dir_all(format!("{}/evidence", verif_dir())).ok();
    let evp = format!("{}/evidence/{}.json", verif_dir(), meta.id);
    // a property served by two engines: the second engine appends its coverage under a key of the first one's file
    let ev = match std::env::var("MC_EVIDENCE_APPEND_KEY").ok().filter(|k| !k.is_empty()) {
        Some(key) => {
            let mut base: Value = std::fs::read_to_string(&evp).ok().and_then(|s| serde_json::from_str(&s).ok()).expect("MC_EVIDENCE_APPEND_KEY set but no evidence file of the first engine");
            assert_eq!(base["property_id"], json!(meta.id));
            let mut cov = ev["coverage"].clone();
            cov["assumptions"] = ev["assumptions"].clone();
            cov["wall_s"] = ev["wall_s"].clone();
            base["coverage"][&key] = cov;
            base["violations"] = json!(base["violations"].as_u64().unwrap_or(0) + unknown.len() as u64);
            base["wall_s"] = json!(base["wall_s"].as_f64().unwrap_or(0.0) + wall);
            if !exhaustive {
                base["coverage"]["exhaustive"] = json!(false);
            }
            base
        }
        None => ev,
    };
    std::fs::write(&evp, serde_json::to_string_pretty(&ev).unwrap() + "\n").expect("write evidence");

    for l in &known_lines {
        println!("{l}");
    }
    println!(
        "property={} tier={} evaluations={} nontrivial={} outcomes={} exhaustive={} wall={:.1}s",
        meta.id,
        tier.name(),
        total.evaluations,
        total.nontrivial,
        total.outcomes.len(),
        exhaustive,
        wall
    );
    for f in &total.families {
        println!("  family {} [{}]: cases={} complete={}", f.name, f.bound, f.cases, f.complete);
    }
    let lm: Vec<String> = total.landmarks.iter().map(|(k, v)| format!("{k}={v}")).collect();
    println!("  landmarks: {}", lm.join(" "));
    if unknown.is_empty() {
        if !vacuous.is_empty() {
            eprintln!(
                "MACHINERY-ERROR property={} vacuous exploration: landmarks never hit: {:?}",
                meta.id, vacuous
            );
            return 2;
        }
        return 0;
    }
    if !vacuous.is_empty() {
        // a defect that makes every case fail early can starve a landmark: the violation is the verdict
        eprintln!("note: property={} landmarks never hit: {:?}", meta.id, vacuous);
    }
    std::fs::create_dir_all(format!("{}/replays", verif_dir())).ok();
    for (i, v) in unknown.iter().enumerate() {
        if i == 12 {
            println!("  ... {} more violation keys (replay files are only written for the first 12)", unknown.len() - 12);
            break;
        }
        // (the second engine of a property keeps its replay files apart from the first one's)
        let engine = std::env::var("MC_EVIDENCE_APPEND_KEY").ok().filter(|k| !k.is_empty()).map(|k| format!("-{k}")).unwrap_or_default();
        let path = format!("{}/replays/{}-{}{}-{}.json", verif_dir(), meta.id, tier.name(), engine, i);
        let r = json!({"property": meta.id, "clause": v.clause, "disc": v.disc, "count": v.count,
            "detail": v.detail, "case": v.case});
        std::fs::write(&path, serde_json::to_string_pretty(&r).unwrap()).expect("write replay");
        println!("VIOLATION property={} replay={}", meta.id, path);
        println!("  clause={} disc={} occurrences={} detail={}", v.clause, v.disc, v.count, v.detail);
    }
    1
}

pub fn worker_main(prop: &dyn Prop, tier: Tier, seed: u64, shard: u64, nshards: u64, out: &str, resume_after: Option<u64>) -> i32 {
    let meta = prop.meta(tier);
    let budget = tier.pick(meta.budget_s.0, meta.budget_s.1);
    let mut ctx = Ctx::new(tier, shard, nshards, seed, budget);
    ctx.resume_after = resume_after;
    if prop.careful() {
        ctx.progress_path = Some(format!("{out}.progress"));
    }
    prop.run(&mut ctx);
    std::fs::write(out, serde_json::to_string(&ctx.sum).unwrap()).expect("write summary");
    0
}

/// replay one recorded case twice; differing observations are a machinery error
pub fn replay_main(prop: &dyn Prop, path: &str) -> i32 {
    let meta = prop.meta(Tier::Quick);
    let v: Value = serde_json::from_str(&std::fs::read_to_string(path).expect("read replay")).expect("json");
    let case = if v.get("case").is_some() { v["case"].clone() } else { v };
    let mut keys = vec![];
    for _ in 0..2 {
        let mut ctx = Ctx::new(Tier::Quick, 0, 1, 0, 3600);
        ctx.replaying = true;
        prop.replay(&case, &mut ctx);
        let k: Vec<String> = ctx.sum.violations.keys().cloned().collect();
        for v in ctx.sum.violations.values() {
            println!("  replay: clause={} disc={} detail={}", v.clause, v.disc, v.detail);
        }
        keys.push(k);
    }
    if keys[0] != keys[1] {
        eprintln!("MACHINERY-ERROR property={} replay diverged: {:?} vs {:?}", meta.id, keys[0], keys[1]);
        return 2;
    }
    if keys[0].is_empty() {
        println!("replay: property={} no violation on this case", meta.id);
        0
    } else {
        let findings = load_findings();
        let mut unknown = 0;
        let mut ctx = Ctx::new(Tier::Quick, 0, 1, 0, 3600);
        ctx.replaying = true;
        prop.replay(&case, &mut ctx);
        for v in ctx.sum.violations.values() {
            if let Some(f) = findings.iter().find(|f| finding_matches(f, meta.id, v)) {
                println!("KNOWN-FINDING: property={} {} [{}]", meta.id, f.description, f.id);
            } else {
                unknown += 1;
            }
        }
        if unknown > 0 {
            println!("VIOLATION property={} replay={}", meta.id, path);
            1
        } else {
            0
        }
    }
}
