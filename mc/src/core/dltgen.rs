//! Independent DLT message byte builder (does not use adlt's writer) + helpers to build DltMessage structs.
use adlt::dlt::{DltChar4, DltExtendedHeader, DltMessage, DltStandardHeader};

pub const UEH: u8 = 1;
pub const MSBF: u8 = 2;
pub const WEID: u8 = 4;
pub const WSID: u8 = 8;
pub const WTMS: u8 = 16;
pub const VERS1: u8 = 1 << 5;

#[derive(Clone, Debug, PartialEq, Eq)]
pub enum Framing {
    Storage,
    Serial,
}

#[derive(Clone, Debug)]
pub struct MsgSpec {
    pub framing: Framing,
    pub htyp: u8, // flags incl. version
    pub storage_ecu: [u8; 4],
    pub hdr_ecu: [u8; 4],
    pub apid: [u8; 4],
    pub ctid: [u8; 4],
    pub mcnt: u8,
    pub session_id: u32,
    pub timestamp: u32,
    pub secs: u32,
    pub micros: u32,
    pub verb_mstp_mtin: u8,
    pub noar: u8,
    pub payload: Vec<u8>,
}

impl Default for MsgSpec {
    fn default() -> Self {
        MsgSpec {
            framing: Framing::Storage,
            htyp: VERS1 | UEH | WEID | WTMS,
            storage_ecu: *b"ECU1",
            hdr_ecu: *b"ECU1",
            apid: *b"APP1",
            ctid: *b"CTX1",
            mcnt: 0,
            session_id: 0x11223344,
            timestamp: 10_000,
            secs: 1_600_000_000,
            micros: 0,
            verb_mstp_mtin: 0x41, // verbose log info
            noar: 0,
            payload: vec![],
        }
    }
}

impl MsgSpec {
    pub fn hdr_size(&self) -> usize {
        let mut l = 4;
        if self.htyp & WEID != 0 {
            l += 4
        }
        if self.htyp & WSID != 0 {
            l += 4
        }
        if self.htyp & WTMS != 0 {
            l += 4
        }
        if self.htyp & UEH != 0 {
            l += 10
        }
        l
    }
    /// maximum payload size such that the standard header len field (u16) still fits
    pub fn max_payload(&self) -> usize {
        65535 - self.hdr_size()
    }
    pub fn std_len(&self) -> usize {
        self.hdr_size() + self.payload.len()
    }
    pub fn to_bytes(&self) -> Vec<u8> {
        let mut v = Vec::with_capacity(16 + self.std_len());
        match self.framing {
            Framing::Storage => {
                v.extend_from_slice(b"DLT\x01");
                v.extend_from_slice(&self.secs.to_le_bytes());
                v.extend_from_slice(&self.micros.to_le_bytes());
                v.extend_from_slice(&self.storage_ecu);
            }
            Framing::Serial => v.extend_from_slice(b"DLS\x01"),
        }
        let len = self.std_len();
        assert!(len <= 65535);
        v.push(self.htyp);
        v.push(self.mcnt);
        v.extend_from_slice(&(len as u16).to_be_bytes());
        if self.htyp & WEID != 0 {
            v.extend_from_slice(&self.hdr_ecu);
        }
        if self.htyp & WSID != 0 {
            v.extend_from_slice(&self.session_id.to_be_bytes());
        }
        if self.htyp & WTMS != 0 {
            v.extend_from_slice(&self.timestamp.to_be_bytes());
        }
        if self.htyp & UEH != 0 {
            v.push(self.verb_mstp_mtin);
            v.push(self.noar);
            v.extend_from_slice(&self.apid);
            v.extend_from_slice(&self.ctid);
        }
        v.extend_from_slice(&self.payload);
        v
    }
    /// expected values after parsing
    pub fn expected_ecu(&self) -> [u8; 4] {
        if self.htyp & WEID != 0 {
            self.hdr_ecu
        } else {
            match self.framing {
                Framing::Storage => self.storage_ecu,
                Framing::Serial => *b"DLS\0",
            }
        }
    }
    pub fn expected_timestamp(&self) -> u32 {
        if self.htyp & WTMS != 0 {
            self.timestamp
        } else {
            0
        }
    }
    pub fn expected_reception_us(&self) -> Option<u64> {
        match self.framing {
            Framing::Storage => Some(self.secs as u64 * 1_000_000 + self.micros as u64),
            Framing::Serial => None, // serial: adlt synthesises a reception time
        }
    }
    /// compare with a parsed message; returns a description of the first difference
    pub fn diff(&self, m: &DltMessage) -> Option<String> {
        if m.ecu.as_buf() != &self.expected_ecu() {
            return Some(format!("ecu {:?} != {:?}", m.ecu.as_buf(), self.expected_ecu()));
        }
        if m.timestamp_dms != self.expected_timestamp() {
            return Some(format!("timestamp {} != {}", m.timestamp_dms, self.expected_timestamp()));
        }
        if let Some(r) = self.expected_reception_us() {
            if m.reception_time_us != r {
                return Some(format!("reception {} != {}", m.reception_time_us, r));
            }
        }
        if m.standard_header.htyp != self.htyp {
            return Some(format!("htyp {:#x} != {:#x}", m.standard_header.htyp, self.htyp));
        }
        if m.standard_header.mcnt != self.mcnt {
            return Some(format!("mcnt {} != {}", m.standard_header.mcnt, self.mcnt));
        }
        if m.standard_header.len as usize != self.std_len() {
            return Some(format!("len {} != {}", m.standard_header.len, self.std_len()));
        }
        match (&m.extended_header, self.htyp & UEH != 0) {
            (None, false) => {}
            (Some(e), true) => {
                if e.verb_mstp_mtin != self.verb_mstp_mtin
                    || e.noar != self.noar
                    || e.apid.as_buf() != &self.apid
                    || e.ctid.as_buf() != &self.ctid
                {
                    return Some(format!("ext hdr {:?} differs", e));
                }
            }
            (a, b) => return Some(format!("ext hdr presence {:?} vs {}", a.is_some(), b)),
        }
        if m.payload != self.payload {
            return Some(format!(
                "payload differs (len {} vs {})",
                m.payload.len(),
                self.payload.len()
            ));
        }
        if m.lifecycle != 0 {
            return Some("lifecycle != 0".into());
        }
        None
    }
}

/// does `hay` contain either frame marker at any offset other than those in `allowed` (sorted)?
pub fn stray_marker(hay: &[u8], allowed: &[usize]) -> bool {
    if hay.len() < 4 {
        return false;
    }
    for i in 0..=hay.len() - 4 {
        if hay[i] == b'D'
            && hay[i + 1] == b'L'
            && (hay[i + 2] == b'T' || hay[i + 2] == b'S')
            && hay[i + 3] == 1
            && allowed.binary_search(&i).is_err()
        {
            return true;
        }
    }
    false
}

pub fn c4(s: &[u8; 4]) -> DltChar4 {
    DltChar4::from_buf(s)
}

/// build a DltMessage struct directly (all fields are public)
#[allow(clippy::too_many_arguments)]
pub fn mk_msg(
    index: u32,
    ecu: &[u8; 4],
    reception_time_us: u64,
    timestamp_dms: u32,
    with_tmsp: bool,
    ext: Option<(u8, u8, [u8; 4], [u8; 4])>,
    payload: Vec<u8>,
) -> DltMessage {
    let mut htyp = VERS1 | WEID;
    let mut len = 8usize;
    if with_tmsp {
        htyp |= WTMS;
        len += 4;
    }
    if ext.is_some() {
        htyp |= UEH;
        len += 10;
    }
    len += payload.len();
    DltMessage {
        index,
        reception_time_us,
        ecu: c4(ecu),
        timestamp_dms,
        standard_header: DltStandardHeader {
            htyp,
            mcnt: (index & 0xff) as u8,
            len: len as u16,
        },
        extended_header: ext.map(|(v, n, a, c)| DltExtendedHeader {
            verb_mstp_mtin: v,
            noar: n,
            apid: c4(&a),
            ctid: c4(&c),
        }),
        payload,
        payload_text: None,
        lifecycle: 0,
    }
}

pub const MTIN_LOG_INFO_V: u8 = 0x41; // verbose, log, info
pub const CTRL_REQUEST_NV: u8 = (3 << 1) | (1 << 4); // non verbose control request
pub const CTRL_RESPONSE_NV: u8 = (3 << 1) | (2 << 4);
