//! C16 — remote streams deliver exactly the requested window of the filtered log; search paging; lookups.
//! (A) library level: process_stream_new_msgs under every arrival batching; (B) server level through the driver.
use crate::core::dltgen::{mk_msg, MTIN_LOG_INFO_V};
use crate::core::*;
use crate::rem::{build_adlt_bin, gen_log, scratch_dir, Driver, DriverErr, LogMsg};
use adlt::dlt::DltMessage;
use adlt::utils::remote_utils::{process_stream_new_msgs, StreamContext};
use serde_json::{json, Value};

pub struct C16;

// ------------------------------------------------------------------ (A) library level
fn lib_case(ctx: &mut Ctx, n: usize, pattern: u32, is_stream: bool, wend: usize, chunk: usize, batches: &[usize], extend_at: Option<(usize, usize)>) {
    let cj = || json!({"family": "lib", "n": n, "match_pattern": pattern, "is_stream": is_stream, "window_end": wend, "max_chunk": chunk, "batches": batches, "extend_at_tick_to": extend_at});
    let msgs: Vec<DltMessage> = (0..n)
        .map(|i| {
            let ecu = if pattern & (1 << i) != 0 { *b"ECU1" } else { *b"ECU2" };
            mk_msg(i as u32, &ecu, 1_000_000 + i as u64, i as u32, true, Some((MTIN_LOG_INFO_V, 0, *b"APID", *b"CTID")), vec![])
        })
        .collect();
    let matching: Vec<usize> = (0..n).filter(|i| pattern & (1 << i) != 0).collect();
    let log = slog::Logger::root(slog::Discard, slog::o!());
    let r = catch(|| -> Result<(), (String, String)> {
        let mut st = StreamContext::from(&log, if is_stream { "stream" } else { "query" }, &format!(r#"{{"window":[0,{wend}],"filters":[{{"type":0,"ecu":"ECU1"}}]}}"#)).map_err(|e| ("construct".to_string(), e.to_string()))?;
        let mut avail = 0usize;
        let mut quota = wend;
        let mut tick = 0usize;
        let mut check = |st: &StreamContext, avail: usize, quota: usize| -> Result<(), (String, String)> {
            let f = &st.filtered_msgs;
            if f.windows(2).any(|w| w[0] >= w[1]) {
                return Err(("not_increasing".into(), format!("filtered_msgs {:?}", f)));
            }
            let marker = st.all_msgs_last_processed_len;
            if marker > avail {
                return Err(("marker_beyond_available".into(), format!("progress marker {marker} > {avail} available")));
            }
            let below: Vec<usize> = matching.iter().copied().filter(|p| *p < marker).collect();
            if is_stream {
                if *f != below {
                    return Err(("stream_filtered_set".into(), format!("filtered {:?} != matching positions below the marker {:?} (marker {marker})", f, below)));
                }
            } else {
                // query: the first `quota` matches; the marker must not have skipped an unexamined match
                let expect: Vec<usize> = below.iter().copied().take(quota).collect();
                if *f != expect {
                    return Err(("query_filtered_set".into(), format!("filtered {:?} != first {quota} matching positions below the marker {:?} (marker {marker})", f, expect)));
                }
                if below.len() > quota && f.len() == quota {
                    // marker sits after an unwanted match: then a later window extension would lose it
                    return Err(("marker_skipped_match".into(), format!("marker {marker} is beyond match {} which was not collected (quota {quota})", below[quota])));
                }
            }
            Ok(())
        };
        let mut run_tick = |st: &mut StreamContext, avail: usize| {
            let last = st.all_msgs_last_processed_len.min(avail);
            process_stream_new_msgs(st, last, &msgs[last..avail], chunk);
        };
        for b in batches {
            avail += b;
            run_tick(&mut st, avail);
            check(&st, avail, quota)?;
            tick += 1;
            if let Some((at, to)) = extend_at {
                if at == tick {
                    quota = to;
                    st.msgs_to_send = 0..to;
                }
            }
        }
        // no more arrivals: the server keeps ticking; everything must be examined eventually
        for _ in 0..(n + 3) {
            run_tick(&mut st, avail);
            check(&st, avail, quota)?;
        }
        let expect: Vec<usize> = if is_stream { matching.clone() } else { matching.iter().copied().take(quota).collect() };
        if st.filtered_msgs != expect {
            return Err(("incomplete_after_final_batch".into(), format!("filtered {:?} != {:?} after all batches and {} idle ticks", st.filtered_msgs, expect, n + 3)));
        }
        Ok(())
    });
    match r {
        Err(p) => ctx.violation("panic", &p.loc, cj, p.msg),
        Ok(Err((c, d))) => ctx.violation(&c, "lib", cj, d),
        Ok(Ok(())) => {}
    }
    ctx.transitions(batches.len() as u64);
    let nt = batches.len() > 1 || chunk < n;
    if chunk < n {
        ctx.landmark("chunk_limit_active");
    }
    if !is_stream && matching.len() > wend {
        ctx.landmark("query_more_matches_than_window");
    }
    if extend_at.is_some() {
        ctx.landmark("window_extended");
    }
    ctx.eval(nt);
    ctx.sample(cj);
}

fn lib_level(ctx: &mut Ctx) -> bool {
    let maxn = ctx.tier.pick(6, 8);
    for n in 1..=maxn {
        ctx.begin_family("lib", &format!("N={n}: 2^N match patterns x stream/query x window end 0..N+1 x chunk {{1,2,3,inf}} x all compositions of N into batches x <=1 window extension"));
        let mut done = true;
        'outer: for pattern in 0u32..(1 << n) {
            for is_stream in [true, false] {
                for wend in 0..=n + 1 {
                    if is_stream && wend != n + 1 {
                        continue; // the window does not influence filtering of streams
                    }
                    for chunk in [1usize, 2, 3, usize::MAX] {
                        let cont = enumr::compositions(n, |batches| {
                            if ctx.mine() {
                                lib_case(ctx, n, pattern, is_stream, wend, chunk, batches, None);
                            }
                            // one window extension (queries) after every tick
                            if !is_stream && wend <= n && n <= 6 {
                                for at in 1..=batches.len() {
                                    if ctx.mine() {
                                        lib_case(ctx, n, pattern, is_stream, wend, chunk, batches, Some((at, wend + 2)));
                                    }
                                }
                            }
                            true
                        });
                        if !cont || (ctx.sum.evaluations % 512 < 64 && ctx.out_of_time()) {
                            done = false;
                            break 'outer;
                        }
                    }
                }
            }
        }
        ctx.end_family(done);
        if !done {
            return false;
        }
    }
    true
}

// ------------------------------------------------------------------ (B) server level
const NLOG: usize = 6;

struct FilterSet {
    name: &'static str,
    json: &'static str,
    keep: fn(&LogMsg) -> bool,
}
fn filter_sets() -> Vec<FilterSet> {
    vec![
        FilterSet { name: "none", json: "[]", keep: |_| true },
        FilterSet { name: "pos_ecu1", json: r#"[{"type":0,"ecu":"ECU1"}]"#, keep: |m| m.ecu == "ECU1" },
        FilterSet { name: "neg_apa", json: r#"[{"type":1,"apid":"APA"}]"#, keep: |m| !m.apid.starts_with("APA") },
        FilterSet { name: "pos_ecu1_neg_apb", json: r#"[{"type":0,"ecu":"ECU1"},{"type":1,"apid":"APB"}]"#, keep: |m| m.ecu == "ECU1" && !m.apid.starts_with("APB") },
        FilterSet { name: "pos_payload_even", json: r#"[{"type":0,"payload":"even"}]"#, keep: |m| m.text.contains("even") },
        FilterSet { name: "event_ecu2", json: r#"[{"type":3,"ecu":"ECU2"}]"#, keep: |m| m.ecu == "ECU2" },
        // several event filters: a message is kept when some of them matches
        FilterSet { name: "events_ecu2_or_apb", json: r#"[{"type":3,"ecu":"ECU2"},{"type":3,"apid":"APB"},{"type":0,"ctid":"CTX1"}]"#, keep: |m| m.ecu == "ECU2" || m.apid.starts_with("APB") },
        // disabled positive and event filters next to an enabled negative one: they are no part of the set
        FilterSet { name: "disabled_pos_event_neg_apb", json: r#"[{"type":0,"ecu":"ECU2","enabled":false},{"type":3,"apid":"APA","enabled":false},{"type":1,"apid":"APB"}]"#, keep: |m| !m.apid.starts_with("APB") },
    ]
}
const WINDOWS: [(usize, usize); 5] = [(0, 3), (2, 5), (4, 4), (NLOG - 1, NLOG + 5), (0, 20)];

#[derive(Clone, Debug)]
struct Scenario {
    fset: usize,
    window: usize,
    is_stream: bool,
    binary: bool,
    ticks: Vec<usize>,
    /// after tick #k: change the window to (s,e)
    change: Option<(usize, (usize, usize))>,
    /// after all ticks: search with page size / start / filter set index
    search: Option<(usize, usize, usize)>,
    /// after all ticks: index lookup target / time lookup (message no)
    lookup: Option<(bool, usize)>,
    sorted: bool,
    /// the file is opened with collect = one_pass_streams, the stream/query is created one_pass and the session resumed
    one_pass: bool,
    /// an idle server round (T 0) after every arrival tick
    gaps: bool,
    /// right after the window change a second, unfiltered stream with window [1,3) is created on the same connection
    second: bool,
}
fn scen_json(s: &Scenario) -> Value {
    json!({"family": "server", "fset": s.fset, "window": s.window, "is_stream": s.is_stream, "binary": s.binary, "ticks": s.ticks,
        "change": s.change.map(|(k, (a, b))| json!([k, a, b])), "search": s.search.map(|(a, b, c)| json!([a, b, c])), "lookup": s.lookup.map(|(a, b)| json!([a, b])), "sorted": s.sorted, "one_pass": s.one_pass, "gaps": s.gaps, "second_stream": s.second})
}
fn scen_from_json(v: &Value) -> Scenario {
    let u = |x: &Value| x.as_u64().unwrap() as usize;
    Scenario {
        fset: u(&v["fset"]),
        window: u(&v["window"]),
        is_stream: v["is_stream"].as_bool().unwrap(),
        binary: v["binary"].as_bool().unwrap(),
        ticks: v["ticks"].as_array().unwrap().iter().map(u).collect(),
        change: v["change"].as_array().map(|a| (u(&a[0]), (u(&a[1]), u(&a[2])))),
        search: v["search"].as_array().map(|a| (u(&a[0]), u(&a[1]), u(&a[2]))),
        lookup: v["lookup"].as_array().map(|a| (a[0].as_bool().unwrap(), u(&a[1]))),
        sorted: v["sorted"].as_bool().unwrap_or(false),
        one_pass: v["one_pass"].as_bool().unwrap_or(false),
        gaps: v["gaps"].as_bool().unwrap_or(false),
        second: v["second_stream"].as_bool().unwrap_or(false),
    }
}

/// collected stream data frames of one step: (stream id, position-or-none, message fields)
pub fn collect_frames(frames: &[Value]) -> Vec<(u64, Value)> {
    let mut out = vec![];
    for f in frames {
        if f["b"] == "DltMsgs" {
            let id = f["id"].as_u64().unwrap();
            let msgs = f["msgs"].as_array().unwrap();
            if msgs.is_empty() {
                out.push((id, json!("END")));
            }
            for m in msgs {
                out.push((id, m.clone()));
            }
        } else if let Some(t) = f.get("t").and_then(|t| t.as_str()) {
            if let Some(rest) = t.strip_prefix("stream:") {
                // stream:<id> msg(<pos>):<index> <time> ...
                if let Some((id, r2)) = rest.split_once(' ') {
                    if let (Ok(id), Some(r3)) = (id.parse::<u64>(), r2.strip_prefix("msg(")) {
                        if let Some((pos, hdr)) = r3.split_once("):") {
                            let index = hdr.split(' ').next().and_then(|x| x.parse::<u64>().ok());
                            out.push((id, json!({"text_pos": pos.parse::<u64>().ok(), "index": index, "header": hdr})));
                        }
                    }
                }
            }
        }
    }
    out
}

fn check_msg(m: &Value, want: &LogMsg, binary: bool) -> Option<String> {
    if m["index"].as_u64() != Some(want.index as u64) {
        return Some(format!("index {} != {}", m["index"], want.index));
    }
    if binary {
        let chk = |k: &str, v: Value| if m[k] != v { Some(format!("{k} {} != {}", m[k], v)) } else { None };
        let trim = |s: &str| s.trim_end_matches('\0').to_string();
        for (k, v) in [
            ("reception_time", json!(want.reception_us)),
            ("timestamp_dms", json!(want.timestamp_dms)),
            ("mcnt", json!(want.mcnt)),
            ("htyp", json!(want.htyp)),
            ("verb_mstp_mtin", json!(want.verb_mstp_mtin)),
            ("noar", json!(want.noar)),
            ("payload", json!(want.text)),
        ] {
            if let Some(e) = chk(k, v) {
                return Some(e);
            }
        }
        for (k, v) in [("ecu", &want.ecu), ("apid", &want.apid), ("ctid", &want.ctid)] {
            if trim(m[k].as_str().unwrap_or("")) != trim(v) {
                return Some(format!("{k} {:?} != {:?}", m[k], v));
            }
        }
        if m["lifecycle_id"].as_u64().unwrap_or(0) == 0 {
            return Some("lifecycle_id 0".into());
        }
    } else {
        let h = m["header"].as_str().unwrap_or("");
        // header text: "<index> <date> <time> <timestamp> <mcnt> <ecu> <apid> <ctid> ..."
        if !h.contains(&format!(" {} ", want.timestamp_dms)) && !h.contains(&format!("{:10}", want.timestamp_dms)) {
            return Some(format!("header '{h}' lacks timestamp {}", want.timestamp_dms));
        }
        if !h.contains(want.ecu.trim_end_matches('\0')) || !h.contains(want.apid.trim_end_matches('\0')) {
            return Some(format!("header '{h}' lacks ids"));
        }
    }
    None
}

fn run_scenario(d: &mut Driver, file: &str, log: &[LogMsg], s: &Scenario) -> Result<Vec<(String, String, String)>, DriverErr> {
    let fsets = filter_sets();
    let fs = &fsets[s.fset];
    let filtered: Vec<&LogMsg> = log.iter().filter(|m| (fs.keep)(m)).collect();
    let mut viol: Vec<(String, String, String)> = vec![];
    let step = |d: &mut Driver, l: &str, viol: &mut Vec<(String, String, String)>| -> Result<Value, DriverErr> {
        let r = d.step(l, 90)?;
        if let Some(p) = r["panic"].as_str() {
            let (loc, msg) = p.split_once('|').unwrap_or((p, ""));
            viol.push(("panic".into(), loc.trim_start_matches("/repo/").to_string(), format!("'{l}' panicked: {msg}")));
        }
        Ok(r)
    };
    d.step("RESET", 90)?;
    let open = if s.one_pass {
        format!(r#"C open {{"files":["{file}"],"collect":"one_pass_streams"}}"#)
    } else if s.sorted {
        format!(r#"C open {{"files":["{file}"],"sort":true}}"#)
    } else {
        format!(r#"C open {{"files":["{file}"]}}"#)
    };
    step(d, &open, &mut viol)?;
    let (ws, we) = WINDOWS[s.window];
    let cmd = if s.is_stream { "stream" } else { "query" };
    let op = if s.one_pass { r#""one_pass":true,"# } else { "" };
    let r = step(d, &format!(r#"C {cmd} {{{op}"window":[{ws},{we}],"binary":{},"filters":{}}}"#, s.binary, fs.json), &mut viol)?;
    let reply = r["frames"][0]["t"].as_str().unwrap_or("").to_string();
    if !reply.starts_with("ok:") {
        viol.push(("stream_rejected".into(), "".into(), reply));
        return Ok(viol);
    }
    let mut id: u64 = reply.split("\"id\":").nth(1).and_then(|x| x.trim_start().chars().take_while(|c| c.is_ascii_digit()).collect::<String>().parse().ok()).unwrap_or(0);
    let mut announced = vec![id];
    let mut cur_window = (ws, we);
    let mut got: Vec<Value> = vec![]; // data for the current id
    let mut ended = false;
    let mut tick_no = 0usize;
    let mut id2: Option<u64> = None;
    let mut got2: Vec<Value> = vec![];
    let mut handle = |frames: &[Value], id: u64, id2: Option<u64>, got2: &mut Vec<Value>, announced: &[u64], got: &mut Vec<Value>, ended: &mut bool, viol: &mut Vec<(String, String, String)>| {
        for (fid, m) in collect_frames(frames) {
            if Some(fid) == id2 && fid != id {
                if m != json!("END") {
                    got2.push(m);
                }
            } else if !announced.contains(&fid) {
                viol.push(("frame_before_announce".into(), "".into(), format!("frame for id {fid} which was never announced ({announced:?})")));
            } else if fid != id {
                viol.push(("frame_for_old_id".into(), "".into(), format!("frame for superseded id {fid} (current {id})")));
            } else if m == json!("END") {
                *ended = true;
            } else {
                if *ended {
                    viol.push(("data_after_end_marker".into(), "".into(), "message frame after the end-of-query marker".into()));
                }
                got.push(m);
            }
        }
    };
    if s.one_pass {
        let r = step(d, "C resume", &mut viol)?;
        if !r["frames"][0]["t"].as_str().unwrap_or("").starts_with("ok:") {
            viol.push(("resume_rejected".into(), "".into(), r["frames"].to_string()));
            return Ok(viol);
        }
    }
    let mut ticks: Vec<String> = vec![];
    for k in &s.ticks {
        ticks.push(format!("T {k}"));
        if s.gaps {
            ticks.push("T 0".into());
        }
    }
    ticks.push("T inf".into());
    ticks.push("T 0".into());
    ticks.push("T 0".into());
    let verify_window = |got: &[Value], window: (usize, usize), what: &str, viol: &mut Vec<(String, String, String)>| {
        let end = window.1.min(filtered.len());
        let want: Vec<&LogMsg> = if window.0 < end { filtered[window.0..end].to_vec() } else { vec![] };
        if got.len() != want.len() {
            viol.push(("window_content".into(), what.into(), format!("{} messages delivered for window [{},{}) of a filtered log of {} ({}): expected {}", got.len(), window.0, window.1, filtered.len(), fs.name, want.len())));
            return;
        }
        for (i, (g, w)) in got.iter().zip(want.iter()).enumerate() {
            if let Some(e) = check_msg(g, w, s.binary) {
                viol.push(("window_content".into(), what.into(), format!("position {}: {e}", window.0 + i)));
                return;
            }
            if !s.binary && g["text_pos"].as_u64() != Some((window.0 + i) as u64) {
                viol.push(("window_content".into(), what.into(), format!("text frame position {} != {}", g["text_pos"], window.0 + i)));
                return;
            }
        }
    };
    for t in &ticks {
        let r = step(d, t, &mut viol)?;
        handle(r["frames"].as_array().map(|a| a.as_slice()).unwrap_or(&[]), id, id2, &mut got2, &announced, &mut got, &mut ended, &mut viol);
        tick_no += 1;
        if let Some((k, (a, b))) = s.change {
            if k == tick_no && !ended {
                let r = step(d, &format!("C stream_change_window {id} {a},{b}"), &mut viol)?;
                let reply = r["frames"][0]["t"].as_str().unwrap_or("").to_string();
                if reply.starts_with("ok:") {
                    let nid: u64 = reply.split("\"id\":").nth(1).and_then(|x| x.trim_start().chars().take_while(|c| c.is_ascii_digit()).collect::<String>().parse().ok()).unwrap_or(0);
                    if announced.contains(&nid) {
                        viol.push(("id_not_renewed".into(), "".into(), format!("window change answered with already used id {nid}")));
                    }
                    id = nid;
                    announced.push(nid);
                    cur_window = (a, b);
                    got.clear();
                } else if s.is_stream {
                    viol.push(("change_window_rejected".into(), "".into(), reply));
                }
                if s.second {
                    let r = step(d, r#"C stream {"window":[1,3],"binary":true,"filters":[]}"#, &mut viol)?;
                    let reply = r["frames"][0]["t"].as_str().unwrap_or("").to_string();
                    if reply.starts_with("ok:") {
                        let nid: u64 = reply.split("\"id\":").nth(1).and_then(|x| x.trim_start().chars().take_while(|c| c.is_ascii_digit()).collect::<String>().parse().ok()).unwrap_or(0);
                        if announced.contains(&nid) {
                            viol.push(("id_not_fresh".into(), "second_stream".into(), format!("a second stream created after the window change was announced with id {nid}, which is in use (ids announced so far {announced:?})")));
                        }
                        id2 = Some(nid);
                        // frames in the same step as the announcement
                        handle(r["frames"].as_array().map(|a| a.as_slice()).unwrap_or(&[]), id, id2, &mut got2, &announced, &mut got, &mut ended, &mut viol);
                    } else {
                        viol.push(("stream_rejected".into(), "second_stream".into(), reply));
                    }
                }
            }
        }
    }
    if viol.iter().any(|v| v.0 == "panic") {
        return Ok(viol);
    }
    verify_window(&got, cur_window, if s.change.is_some() { "after_window_change" } else { "initial_window" }, &mut viol);
    if !s.is_stream && !ended {
        viol.push(("query_never_ended".into(), "".into(), "no end-of-query marker".into()));
    }
    if let Some(i2) = id2 {
        if i2 != id {
            let want: Vec<&LogMsg> = log[1..3.min(log.len())].iter().collect();
            if got2.len() != want.len() {
                viol.push(("window_content".into(), "second_stream".into(), format!("{} messages delivered under the second stream's id {i2} for window [1,3) of the unfiltered log: expected {}", got2.len(), want.len())));
            } else if let Some(e) = got2.iter().zip(want.iter()).find_map(|(g, w)| check_msg(g, w, true)) {
                viol.push(("window_content".into(), "second_stream".into(), e));
            }
        }
    }
    // ---- search paging (streams only; queries are gone once done)
    if let Some((page, start, gset)) = s.search {
        if s.is_stream {
            let g = &fsets[gset];
            let mut pos = Some(start);
            let mut found: Vec<u64> = vec![];
            let mut pages = 0;
            while let Some(p) = pos {
                pages += 1;
                if pages > 50 {
                    viol.push(("search_no_termination".into(), "".into(), "paging did not terminate in 50 pages".into()));
                    break;
                }
                let r = step(d, &format!(r#"C stream_search {id} {{"start_idx":{p},"max_results":{page},"filters":{}}}"#, g.json), &mut viol)?;
                let reply = r["frames"][0]["t"].as_str().unwrap_or("").to_string();
                if !reply.starts_with("ok:") {
                    viol.push(("search_rejected".into(), "".into(), reply));
                    break;
                }
                let body: Value = reply.split_once('=').and_then(|(_, b)| serde_json::from_str(b).ok()).unwrap_or(Value::Null);
                for x in body["search_idxs"].as_array().cloned().unwrap_or_default() {
                    found.push(x.as_u64().unwrap_or(u64::MAX));
                }
                pos = body["next_search_idx"].as_u64().map(|x| x as usize);
            }
            let want: Vec<u64> = filtered.iter().enumerate().filter(|(i, m)| *i >= start && (g.keep)(m)).map(|(i, _)| i as u64).collect();
            if found != want {
                let disc = if fs.name == "none" { "unfiltered_stream" } else if page < want.len().max(1) { "paged" } else { "single_page" };
                viol.push(("search_result".into(), disc.into(), format!("union of pages {:?} != matching stream positions {:?} (stream filter {}, search filter {}, page size {page}, start {start})", found, want, fs.name, g.name)));
            }
        }
    }
    // ---- lookups
    if let Some((by_index, target)) = s.lookup {
        if s.is_stream {
            let tm = &log[target.min(log.len() - 1)];
            // calculated time of message i in the generated log (one lifecycle per ECU, see gen_log)
            let calc = |m: &LogMsg| -> u64 {
                let first = log.iter().find(|x| x.ecu == m.ecu).unwrap();
                let start = first.reception_us - first.timestamp_dms as u64 * 100;
                start + m.timestamp_dms as u64 * 100
            };
            let (cmd, want): (String, usize) = if by_index {
                (format!("C stream_binary_search {id} index={}", tm.index), filtered.iter().position(|m| m.index >= tm.index).unwrap_or(filtered.len()))
            } else {
                let t_ms = calc(tm) / 1000;
                (format!("C stream_binary_search {id} time_ms={t_ms}"), filtered.iter().position(|m| calc(m) >= t_ms * 1000).unwrap_or(filtered.len()))
            };
            let r = step(d, &cmd, &mut viol)?;
            let reply = r["frames"][0]["t"].as_str().unwrap_or("").to_string();
            if reply.starts_with("ok:") {
                let got = reply.split("\"filtered_msg_index\":").nth(1).and_then(|x| x.trim().trim_end_matches('}').parse::<usize>().ok());
                if got != Some(want) {
                    let disc = format!("{}{}", if by_index { "index" } else { "time" }, if fs.name == "none" { "_unfiltered_stream" } else { "" });
                    viol.push(("lookup_result".into(), disc, format!("'{cmd}' answered {:?}, first stream position not before the request is {want} (filter {})", got, fs.name)));
                }
            }
        }
    }
    let _ = step(d, "C close", &mut viol)?;
    Ok(viol)
}

fn scenarios(tier: Tier) -> Vec<Scenario> {
    let mut v = vec![];
    let mut v1 = vec![];
    let nf = filter_sets().len();
    let mut comps: Vec<Vec<usize>> = vec![];
    enumr::compositions(NLOG, |c| {
        comps.push(c.to_vec());
        true
    });
    let thorough = tier == Tier::Thorough;
    // (1) windows x filters x kind x binary x every arrival batching
    for fset in 0..nf {
        for window in 0..WINDOWS.len() {
            for is_stream in [true, false] {
                for binary in [true, false] {
                    for c in &comps {
                        // quick: batchings of <= 3 ticks (binary) / the one-tick and the one-message-per-tick batching (text)
                        if !thorough && ((binary && c.len() > 3) || (!binary && c.len() != 1 && c.len() != NLOG)) {
                            continue;
                        }
                        v1.push(Scenario { fset, window, is_stream, binary, ticks: c.clone(), change: None, search: None, lookup: None, sorted: false, one_pass: false, gaps: false, second: false });
                    }
                }
            }
        }
    }
    // (1b) one-pass sessions (messages are dropped after delivery): stream and query, with an idle server round after
    // every arrival tick
    for fset in 0..nf {
        for window in 0..WINDOWS.len() {
            for is_stream in [true, false] {
                for c in comps.iter().filter(|c| thorough || c.len() <= 3) {
                    for gaps in [false, true] {
                        if !thorough && !gaps && c.len() > 1 {
                            continue;
                        }
                        v.push(Scenario { fset, window, is_stream, binary: true, ticks: c.clone(), change: None, search: None, lookup: None, sorted: false, one_pass: true, gaps, second: false });
                    }
                }
            }
        }
    }
    // (2) one window change after every tick (streams and queries), 3 new windows
    for fset in [0usize, 1, 3] {
        for window in [0usize, 1] {
            for is_stream in [true, false] {
                for c in comps.iter().filter(|c| thorough || c.len() <= 2) {
                    for k in 1..=c.len() + 1 {
                        for nw in [(0usize, 2usize), (1, 4), (3, 20)] {
                            v.push(Scenario { fset, window, is_stream, binary: true, ticks: c.clone(), change: Some((k, nw)), search: None, lookup: None, sorted: false, one_pass: false, gaps: false, second: false });
                        }
                    }
                }
            }
        }
    }
    // (2b) a second stream created right after the window change (both streams alive on one connection)
    for fset in [0usize, 1] {
        for is_stream in [true, false] {
            for c in comps.iter().filter(|c| thorough || c.len() <= 2) {
                for k in 1..=c.len() + 1 {
                    for nw in [(1usize, 4usize), (3, 20)] {
                        v.push(Scenario { fset, window: 0, is_stream, binary: true, ticks: c.clone(), change: Some((k, nw)), search: None, lookup: None, sorted: false, one_pass: false, gaps: false, second: true });
                    }
                }
            }
        }
    }
    // (3) search paging: stream filter x search filter x page size x start
    for fset in 0..nf {
        for gset in 0..nf {
            for page in [1usize, 2, NLOG] {
                for start in 0..=2 {
                    v.push(Scenario { fset, window: 4, is_stream: true, binary: true, ticks: vec![NLOG], change: None, search: Some((page, start, gset)), lookup: None, sorted: false, one_pass: false, gaps: false, second: false });
                }
            }
        }
    }
    // (4) lookups by index and by time for every message, sorted and unsorted
    for fset in 0..nf {
        for target in 0..NLOG {
            for by_index in [true, false] {
                for sorted in [false, true] {
                    v.push(Scenario { fset, window: 4, is_stream: true, binary: true, ticks: vec![NLOG], change: None, search: None, lookup: Some((by_index, target)), sorted, one_pass: false, gaps: false, second: false });
                }
            }
        }
    }
    v.extend(v1);
    v
}

// ------------------------------------------------------------------ (B2) windows of tens of thousands of messages
const NBIG: usize = 25_000;
fn run_large_window(d: &mut Driver, file: &str, is_stream: bool, window: (usize, usize), after_load: bool) -> Result<Vec<(String, String, String)>, DriverErr> {
    let mut viol: Vec<(String, String, String)> = vec![];
    let step = |d: &mut Driver, l: &str, viol: &mut Vec<(String, String, String)>| -> Result<Value, DriverErr> {
        let r = d.step(l, 120)?;
        if let Some(p) = r["panic"].as_str() {
            let (loc, msg) = p.split_once('|').unwrap_or((p, ""));
            viol.push(("panic".into(), loc.trim_start_matches("/repo/").to_string(), format!("'{l}' panicked: {msg}")));
        }
        Ok(r)
    };
    d.step("RESET", 120)?;
    step(d, &format!(r#"C open {{"files":["{file}"]}}"#), &mut viol)?;
    if after_load {
        step(d, "T inf", &mut viol)?;
        step(d, "T 0", &mut viol)?;
    }
    let r = step(d, &format!(r#"C {} {{"window":[{},{}],"binary":true}}"#, if is_stream { "stream" } else { "query" }, window.0, window.1), &mut viol)?;
    let reply = r["frames"][0]["t"].as_str().unwrap_or("").to_string();
    let id: u64 = match reply.split("\"id\":").nth(1).and_then(|x| x.trim_start().chars().take_while(|c| c.is_ascii_digit()).collect::<String>().parse().ok()) {
        Some(i) if reply.starts_with("ok:") => i,
        _ => {
            viol.push(("stream_rejected".into(), "large_window".into(), reply));
            return Ok(viol);
        }
    };
    let mut got: Vec<u64> = vec![];
    let mut ended_at: Option<usize> = None;
    // (no idle round before the file is loaded: a query of a collect-all session ends in the first round without new
    // messages by design)
    for t in ["T 7000", "T inf", "T 0", "T 0", "T 0"] {
        let r = step(d, t, &mut viol)?;
        for (fid, m) in collect_frames(r["frames"].as_array().map(|a| a.as_slice()).unwrap_or(&[])) {
            if fid != id {
                viol.push(("frame_before_announce".into(), "large_window".into(), format!("frame for id {fid}, announced {id}")));
            } else if m == json!("END") {
                ended_at.get_or_insert(got.len());
            } else {
                got.push(m["index"].as_u64().unwrap_or(u64::MAX));
            }
        }
    }
    let want: Vec<u64> = (window.0.min(NBIG) as u64..window.1.min(NBIG) as u64).collect();
    if got != want {
        let first_bad = got.iter().zip(want.iter()).position(|(a, b)| a != b);
        viol.push(("window_content".into(), "large_window".into(), format!("{} messages delivered for window [{},{}) of a {NBIG}-message log, expected {} (first differing position {:?})", got.len(), window.0, window.1, want.len(), first_bad)));
    }
    match (is_stream, ended_at) {
        (false, None) => viol.push(("query_never_ended".into(), "large_window".into(), "no end-of-query marker".into())),
        (false, Some(k)) if k != want.len() => viol.push(("data_after_end_marker".into(), "large_window".into(), format!("end-of-query marker after {k} of {} messages", want.len()))),
        _ => {}
    }
    let _ = step(d, "C close", &mut viol)?;
    Ok(viol)
}
fn large_window_family(ctx: &mut Ctx, dir: &str) {
    let file = format!("{dir}/log25k.dlt");
    std::fs::write(&file, crate::rem::gen_big_log(NBIG)).expect("write log");
    let windows = [(0usize, 30_000usize), (5_000, 24_000), (0, 10_001), (12_000, 25_000)];
    ctx.begin_family("large_window", &format!("{NBIG}-message log x stream/query x {} windows of up to {NBIG} messages x {{requested before the file is loaded, after it is loaded}}", windows.len()));
    let mut d = Driver::spawn();
    let mut done = true;
    'o: for is_stream in [false, true] {
        for w in windows {
            for after_load in [true, false] {
                ctx.mine();
                let cj = || json!({"family": "large_window", "is_stream": is_stream, "window": [w.0, w.1], "after_load": after_load});
                match run_large_window(&mut d, &file, is_stream, w, after_load) {
                    Err(e) => {
                        d.kill();
                        d = Driver::spawn();
                        ctx.violation(if format!("{e:?}").contains("Hang") { "hang" } else { "driver_died" }, "large_window", cj, format!("{e:?}"));
                    }
                    Ok(v) => {
                        for (c, dd, detail) in v {
                            ctx.violation(&c, &dd, cj, detail);
                        }
                    }
                }
                ctx.landmark("server_large_window");
                ctx.transitions(9);
                ctx.eval(true);
                ctx.sample(cj);
                if ctx.out_of_time() {
                    done = false;
                    break 'o;
                }
            }
        }
    }
    d.kill();
    ctx.end_family(done);
}

impl Prop for C16 {
    fn meta(&self, _t: Tier) -> Meta {
        Meta {
            id: "C16",
            level: "model_checking",
            rule: "(A) library: for every log of N <= 6 (thorough 8) messages with every match pattern (2^N) x stream/query x window end 0..N+1 x max_chunk_size {1,2,3,inf} x every composition of N into arrival batches (x one window extension after every tick for queries) the real process_stream_new_msgs is called the way the server loop calls it; after every tick filtered_msgs must be strictly increasing and equal the matching positions below the progress marker (queries: the first 'window end' of them, marker never beyond an uncollected match), and complete after the final batch plus idle ticks. (B) server, through the cfg(adlt_verif) driver on the real handlers: 8 filter sets (incl. one with two event filters and one with disabled positive and event filters) x 5 windows x stream/query x binary/text x every composition of the 6-message log into arrival ticks; the same for one-pass sessions (collect = one_pass_streams, resume) with an idle server round after every tick; one window change after every tick x 3 new windows, also followed at once by the creation of a second stream on the same connection (its id must be fresh and each stream gets exactly its own window); search paging (8 stream filters x 8 search filters x page sizes {1,2,N} x start 0..2, following next_search_idx); index and time lookups for every message, sorted and unsorted. Oracle: frames for the announced id are exactly positions [start,end) of the filtered log with the file's index/times/ids/counters/payload text, none for unannounced or superseded ids, end-of-query marker last, new id after a window change gets exactly the new window, union of search pages = matching stream positions without duplicates, lookups answered ok: return the first stream position not before the request. (B2) a 25 000-message log x stream/query x 4 windows of up to 25 000 messages x requested before / after the file is loaded: exactly the window's indices in order, end marker last.".into(),
            assumptions: vec!["server level uses one generated 6-message log (two ECUs, one lifecycle each)".into(), "message-arrival batching is modelled by explicit ticks of the driver (receive budget)".into()],
            budget_s: (150, 1500),
            workers: 1,
            required_landmarks: vec!["chunk_limit_active", "query_more_matches_than_window", "window_extended", "server_scenario", "server_window_change", "server_search", "server_lookup", "server_large_window"],
        }
    }
    fn prepare(&self, _t: Tier) -> Result<(), String> {
        build_adlt_bin()
    }
    fn run(&self, ctx: &mut Ctx) {
        // (B) first (needs the drivers; internal thread pool), then (A) in this process
        let dir = scratch_dir();
        let file = format!("{dir}/log6.dlt");
        let (bytes, log) = gen_log(NLOG);
        std::fs::write(&file, bytes).expect("write log");
        let scen = scenarios(ctx.tier);
        ctx.begin_family("server", &format!("{} scenarios (windows x filters x kind x binary x batchings; window changes; search paging; lookups)", scen.len()));
        // the library level runs concurrently in this process (the server level mostly waits for the driver processes)
        let (tier, seed) = (ctx.tier, ctx.seed);
        let lib_thread = std::thread::spawn(move || {
            let mut c2 = Ctx::new(tier, 0, 1, seed, tier.pick(45, 1400));
            lib_level(&mut c2);
            c2.sum
        });
        let tasks = std::sync::Arc::new(std::sync::Mutex::new(scen.into_iter().rev().collect::<Vec<_>>()));
        let results: std::sync::Arc<std::sync::Mutex<Vec<(Scenario, Result<Vec<(String, String, String)>, String>)>>> = Default::default();
        let nthreads = std::thread::available_parallelism().map(|n| n.get()).unwrap_or(4);
        let stop = std::sync::Arc::new(std::sync::atomic::AtomicBool::new(false));
        let mut handles = vec![];
        for _ in 0..nthreads {
            let (tasks, results, file, log, stop) = (tasks.clone(), results.clone(), file.clone(), log.clone(), stop.clone());
            handles.push(std::thread::spawn(move || {
                let mut d = Driver::spawn();
                loop {
                    if stop.load(std::sync::atomic::Ordering::Relaxed) {
                        break;
                    }
                    let s = match tasks.lock().unwrap().pop() {
                        Some(s) => s,
                        None => break,
                    };
                    let r = match run_scenario(&mut d, &file, &log, &s) {
                        Ok(v) => Ok(v),
                        Err(e) => {
                            d.kill();
                            d = Driver::spawn();
                            Err(format!("{e:?}"))
                        }
                    };
                    results.lock().unwrap().push((s, r));
                }
            }));
        }
        loop {
            std::thread::sleep(std::time::Duration::from_millis(200));
            if tasks.lock().unwrap().is_empty() || ctx.out_of_time() {
                break;
            }
        }
        let timed_out = !tasks.lock().unwrap().is_empty();
        if timed_out {
            stop.store(true, std::sync::atomic::Ordering::Relaxed);
        }
        for h in handles {
            let _ = h.join();
        }
        let mut res = std::mem::take(&mut *results.lock().unwrap());
        res.sort_by_key(|(s, _)| scen_json(s).to_string());
        for (s, r) in res {
            ctx.mine();
            ctx.landmark("server_scenario");
            if s.change.is_some() {
                ctx.landmark("server_window_change");
            }
            if s.search.is_some() {
                ctx.landmark("server_search");
            }
            if s.lookup.is_some() {
                ctx.landmark("server_lookup");
            }
            ctx.transitions(s.ticks.len() as u64 + 5);
            ctx.eval(true);
            ctx.sample(|| scen_json(&s));
            match r {
                Err(e) => ctx.violation(if e.contains("Hang") { "hang" } else { "driver_died" }, "", || scen_json(&s), e),
                Ok(v) => {
                    ctx.outcome(fnv_str(&format!("{}:{}:{}:{}", s.fset, s.window, s.is_stream, v.len())));
                    for (c, d, detail) in v {
                        ctx.violation(&c, &d, || scen_json(&s), detail);
                    }
                }
            }
        }
        ctx.end_family(!timed_out);
        large_window_family(ctx, &dir);
        let _ = std::fs::remove_dir_all(&dir);
        let lib_sum = lib_thread.join().expect("lib level thread");
        ctx.sum.merge(lib_sum);
    }
    fn replay(&self, case: &Value, ctx: &mut Ctx) {
        ctx.mine();
        if case["family"] == "lib" {
            let u = |x: &Value| x.as_u64().unwrap() as usize;
            let batches: Vec<usize> = case["batches"].as_array().unwrap().iter().map(u).collect();
            let ext = case["extend_at_tick_to"].as_array().map(|a| (u(&a[0]), u(&a[1])));
            let chunk = case["max_chunk"].as_u64().map(|x| x as usize).unwrap_or(usize::MAX);
            lib_case(ctx, u(&case["n"]), case["match_pattern"].as_u64().unwrap() as u32, case["is_stream"].as_bool().unwrap(), u(&case["window_end"]), chunk, &batches, ext);
            return;
        }
        if case["family"] == "large_window" {
            if build_adlt_bin().is_err() {
                return;
            }
            let dir = scratch_dir();
            let file = format!("{dir}/log25k.dlt");
            std::fs::write(&file, crate::rem::gen_big_log(NBIG)).expect("write log");
            let mut d = Driver::spawn();
            let w = (case["window"][0].as_u64().unwrap_or(0) as usize, case["window"][1].as_u64().unwrap_or(0) as usize);
            match run_large_window(&mut d, &file, case["is_stream"].as_bool().unwrap_or(false), w, case["after_load"].as_bool().unwrap_or(true)) {
                Err(e) => ctx.violation("driver_died", "large_window", || case.clone(), format!("{e:?}")),
                Ok(v) => {
                    for (c, dd, detail) in v {
                        ctx.violation(&c, &dd, || case.clone(), detail);
                    }
                }
            }
            d.kill();
            let _ = std::fs::remove_dir_all(&dir);
            ctx.eval(true);
            return;
        }
        replay_scenario(case, ctx);
    }
}

/// replay of one server scenario (used by C16 and by the search family of C12)
pub fn replay_scenario(case: &Value, ctx: &mut Ctx) {
    if build_adlt_bin().is_err() {
        return;
    }
    let dir = scratch_dir();
    let file = format!("{dir}/log6.dlt");
    let (bytes, log) = gen_log(NLOG);
    std::fs::write(&file, bytes).expect("write log");
    let s = scen_from_json(case);
    let mut d = Driver::spawn();
    match run_scenario(&mut d, &file, &log, &s) {
        Ok(v) => {
            for (c, dd, detail) in v {
                ctx.violation(&c, &dd, || case.clone(), detail);
            }
        }
        Err(e) => ctx.violation("driver_died", "", || case.clone(), format!("{e:?}")),
    }
    ctx.eval(true);
    let _ = std::fs::remove_dir_all(&dir);
}

/// the search scenarios alone (6 stream filter sets x 6 search filter sets x page sizes x start offsets, following
/// next_search_idx) on the real server handlers; sharded with ctx.mine(). Used by the C12 explorer, whose statement
/// covers "streams and searches".
pub fn search_family(ctx: &mut Ctx) {
    let dir = scratch_dir();
    let file = format!("{dir}/log6.dlt");
    let (bytes, log) = gen_log(NLOG);
    std::fs::write(&file, bytes).expect("write log");
    let scen: Vec<Scenario> = scenarios(ctx.tier).into_iter().filter(|s| s.search.is_some()).collect();
    ctx.begin_family("server_search", &format!("{} paged stream_search sessions on the real server handlers (stream filter set x search filter set x page size x start), union of the pages = matching stream positions", scen.len()));
    let mut d: Option<Driver> = None;
    for s in scen {
        if !ctx.mine() {
            continue;
        }
        let cj = || {
            let mut j = scen_json(&s);
            j["family"] = json!("server_search");
            j
        };
        ctx.landmark("server_search");
        ctx.transitions(s.ticks.len() as u64 + 5);
        ctx.eval(true);
        ctx.sample(cj);
        let drv = d.get_or_insert_with(Driver::spawn);
        match run_scenario(drv, &file, &log, &s) {
            Ok(v) => {
                for (c, dd, detail) in v {
                    ctx.violation(&c, &dd, cj, detail);
                }
            }
            Err(e) => {
                ctx.violation(if format!("{e:?}").contains("Hang") { "hang" } else { "driver_died" }, "", cj, format!("{e:?}"));
                if let Some(mut x) = d.take() {
                    x.kill();
                }
            }
        }
        if ctx.out_of_time() {
            break;
        }
    }
    if let Some(mut x) = d.take() {
        x.kill();
    }
    ctx.end_family(true);
    let _ = std::fs::remove_dir_all(&dir);
}
