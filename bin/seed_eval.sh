#!/bin/bash
# usage: bin/seed_eval.sh <seed-name e.g. C05> <check ids to run, e.g. "C05 C06">
# Confirms a seeded change in its scratch worktree (/tmp/seed-<name>), runs the registered checks against it
# (patch applied to /repo, reverted afterwards) and stores it under /verif/seeded/<name>/.
set -u
name="$1"; shift
checks="$*"
# second-campaign seeds live in /tmp/seed2-<Cnn> and are stored as <Cnn>-b, third-campaign seeds in /tmp/seed3-<Cnn> as <Cnn>-c
case "$name" in
  *-b) base="${name%-b}"; wt=/tmp/seed2-$base; out=/tmp/seed2-$base-out ;;
  *-c) base="${name%-c}"; wt=/tmp/seed3-$base; out=/tmp/seed3-$base-out ;;
  *-d) base="${name%-d}"; wt=/tmp/seed4-$base; out=/tmp/seed4-$base-out ;;
  *-e) base="${name%-e}"; wt=/tmp/seed5-$base; out=/tmp/seed5-$base-out ;;
  *-f) base="${name%-f}"; wt=/tmp/seed6-$base; out=/tmp/seed6-$base-out ;;
  *-g) base="${name%-g}"; wt=/tmp/seed7-$base; out=/tmp/seed7-$base-out ;;
  *-h) base="${name%-h}"; wt=/tmp/seed8-$base; out=/tmp/seed8-$base-out ;;
  *-i) base="${name%-i}"; wt=/tmp/seed9-$base; out=/tmp/seed9-$base-out ;;
  *-j) base="${name%-j}"; wt=/tmp/seed10-$base; out=/tmp/seed10-$base-out ;;
  *-k) base="${name%-k}"; wt=/tmp/seed11-$base; out=/tmp/seed11-$base-out ;;
  *-l) base="${name%-l}"; wt=/tmp/seed12-$base; out=/tmp/seed12-$base-out ;;
  *-m) base="${name%-m}"; wt=/tmp/seed13-$base; out=/tmp/seed13-$base-out ;;
  *-n) base="${name%-n}"; wt=/tmp/seed14-$base; out=/tmp/seed14-$base-out ;;
  *-o) base="${name%-o}"; wt=/tmp/seed15-$base; out=/tmp/seed15-$base-out ;;
  *)   wt=/tmp/seed-$name; out=/tmp/seed-$name-out ;;
esac
dst=/verif/seeded/$name
[ -f "$out/patch.diff" ] || { echo "no patch for $name"; exit 2; }
mkdir -p "$dst"
log="$dst/confirm.log"; : > "$log"
cd "$wt" || exit 2
# normalise the worktree: HEAD + defect (+ demo); never use git stash (it is shared between worktrees)
# a demo added with `git add -N` would be emptied by checkout: unstage first, drop an emptied file
git reset -q 2>/dev/null
git checkout -q -- . 2>/dev/null
[ -s "$wt/tests/seeded_demo.rs" ] || rm -f "$wt/tests/seeded_demo.rs"
git apply "$out/patch.diff" 2>>"$log" || { echo "patch does not apply in its own worktree" >> "$log"; }
if [ ! -f "$wt/tests/seeded_demo.rs" ]; then git apply "$out/demo.diff" 2>>"$log" || echo "demo.diff does not apply" >> "$log"; fi
echo "== suite with the change" >> "$log"
suite_ok=1
# a demo that lives inside the binary's test module (private code) is skipped while running the existing suite
demo_fn=""
if [ ! -f "$wt/tests/seeded_demo.rs" ]; then demo_fn=$(grep -A2 "^+.*#\[test\]" "$out/demo.diff" | grep -oE "fn [a-zA-Z0-9_]+" | head -1 | cut -d" " -f2); fi
# several demo tests inside one appended module: address them by the module name
if [ ! -f "$wt/tests/seeded_demo.rs" ] && grep -q "^+.*mod seeded_demo" "$out/demo.diff"; then demo_fn=seeded_demo; fi
bin_t="--bin adlt"; [ -n "$demo_fn" ] && bin_t="--bin adlt -- --skip $demo_fn"
for t in "--lib" "$bin_t" "--test integration_bin -- --skip bin_remote_invalidport"; do
  if cargo test --offline $t >> "$log.full" 2>&1; then echo "PASS cargo test $t" >> "$log"; else
    # the port based remote tests are flaky under load: retry once
    if cargo test --offline $t >> "$log.full" 2>&1; then echo "PASS(retry) cargo test $t" >> "$log"; else echo "FAIL cargo test $t" >> "$log"; suite_ok=0; fi
  fi
done
demo_target="--test seeded_demo"
[ -f "$wt/tests/seeded_demo.rs" ] || demo_target="--bin adlt $demo_fn"
if cargo test --offline $demo_target >> "$log.full" 2>&1; then demo_with=pass; else demo_with=fail; fi
git apply -R "$out/patch.diff"
if cargo test --offline $demo_target >> "$log.full" 2>&1; then demo_without=pass; else demo_without=fail; fi
git apply "$out/patch.diff"
echo "demo with change: $demo_with ; without: $demo_without" >> "$log"
rm -f "$log.full"
# run our checks against it
cd /verif
# evidence files are rewritten by every check run: keep the ones from the unchanged tree
rm -rf /verif/target-mc/evidence.bak; cp -r /verif/evidence /verif/target-mc/evidence.bak
results=""
if git -C /repo apply --check "$out/patch.diff" 2>>"$log"; then
  git -C /repo apply "$out/patch.diff"
  for c in $checks; do
    ./bin/check $c quick > "$dst/check-$c.out" 2>&1; rc=$?
    results="$results $c=$rc"
    echo "check $c quick -> exit $rc" >> "$log"
    grep -E "VIOLATION|clause=|MACHINERY" "$dst/check-$c.out" | head -6 >> "$log"
  done
  git -C /repo checkout -- .
else
  echo "patch does not apply to /repo HEAD" >> "$log"; results="noapply"
fi
rm -rf /verif/evidence; mv /verif/target-mc/evidence.bak /verif/evidence
cp "$out/patch.diff" "$dst/patch.diff"; cp "$out/demo.diff" "$dst/demo.diff" 2>/dev/null; cp "$out/notes.md" "$dst/notes.md" 2>/dev/null
echo "$name suite_ok=$suite_ok demo_with=$demo_with demo_without=$demo_without results:$results"
